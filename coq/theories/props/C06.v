(* C06  Shelf-scale trajectories stay thermodynamically admissible. *)
From Coq Require Import Reals ZArith List Bool Lra Lia.
From Snow Require Import Num NumR Flake FlakeProofs FlakeHeat StatsProofs Admissible.
Import ListNotations.
Local Open Scope R_scope.

(* liquid step: with stability number (sum of exchange coefficients) dt / hl <= 1 the new temperature
   lies between the coldest and the warmest of the vial, its neighbours and the shelf/surroundings *)
Theorem C06_liquid_step_is_convex :
  forall (P : @params R) T nb Ti hext hsh Tsh lo hi,
  0 < p_hl P -> 0 <= p_dt P -> 0 <= p_kintA P -> 0 <= hext -> 0 <= hsh -> lam P nb hext hsh <= 1 ->
  (forall j, In j nb -> lo <= nth j T 0 <= hi) -> lo <= Ti <= hi -> lo <= Tsh <= hi ->
  lo <= rliquid_T P (heat Rops P T nb Ti hext hsh Tsh Tsh) Ti <= hi.
Proof. intros. apply liquid_step_convex; assumption. Qed.
Print Assumptions C06_liquid_step_is_convex.

(* nucleation jump, direct formulation: ice fraction in (0,1), the vial warms onto the depression
   curve and ends at or below T_eq_l *)
Theorem C06_jump_admissible_direct :
  forall (P : @params R) gamma Tstar, p_direct P = true -> gamma = - p_alpha P / p_mass P / p_cp_sol P ->
  0 < gamma -> 0 < p_depr P -> Tstar < p_Teq P - p_depr P ->
  0 < rsigma_init P Tstar < 1 /\ Tstar < ron_curve P (rsigma_init P Tstar) <= p_Teq P - p_depr P.
Proof.
  intros P gamma Tstar H1 H2 H3 H4 H5. split.
  - apply (direct_admissible P H1 gamma H2 H3 H4 Tstar H5).
  - apply (direct_jump_warms_to_curve P H1 gamma H2 H3 H4 Tstar H5).
Qed.
Print Assumptions C06_jump_admissible_direct.

(* indirect formulation (eq. 9): the same while the supercooling stays below gamma = Dh (1-w_s)/cp (about 80 K) *)
Theorem C06_jump_admissible_indirect :
  forall (P : @params R) gamma Tstar, 0 < gamma -> 0 < p_depr P ->
  rsigma_init P Tstar = (p_Teq P - p_depr P - Tstar) / (p_depr P + gamma) ->
  Tstar < p_Teq P - p_depr P -> p_Teq P - Tstar < p_depr P + gamma ->
  0 < rsigma_init P Tstar < 1 /\ Tstar < ron_curve P (rsigma_init P Tstar) <= p_Teq P - p_depr P.
Proof.
  intros P gamma Tstar H1 H2 H3 H4 H5. split.
  - apply (indirect_admissible P gamma H1 H2 Tstar H3 H4 H5).
  - apply (indirect_jump_warms_to_curve P gamma H1 H2 Tstar H3 H4 H5).
Qed.
Print Assumptions C06_jump_admissible_indirect.

(* a vial on the depression curve with 0 <= sigma < 1 is at or below T_eq_l *)
Theorem C06_iced_vial_at_or_below_Teql :
  forall (P : @params R) s, 0 < p_depr P -> 0 <= s < 1 -> ron_curve P s <= p_Teq P - p_depr P.
Proof. intros. apply on_curve_below_Teql; assumption. Qed.
Print Assumptions C06_iced_vial_at_or_below_Teql.

(* solidifying step: under the step condition the ice fraction stays below 1 and the temperature at or
   above the coldest temperature the vial exchanges heat with; net cooling only grows the ice *)
Theorem C06_solid_step_admissible :
  forall (P : @params R) s q lo H,
  p_alpha P < 0 -> 0 < p_depr P -> 0 < p_mass P -> 0 < rcp_sigma P s -> 0 <= p_dt P -> 0 <= H ->
  0 < s < 1 -> lo < p_Teq P -> lo <= ron_curve P s -> - H * (ron_curve P s - lo) <= q ->
  (H * p_dt P * (p_Teq P - lo)) * (H * p_dt P * (p_Teq P - lo)) <= 4 * (- p_alpha P) * (p_depr P * p_mass P * rcp_sigma P s) ->
  (s + rdsigma P q s < 1 /\ lo <= ron_curve P (s + rdsigma P q s))
  /\ (q <= 0 -> s <= s + rdsigma P q s).
Proof.
  intros. split; [apply solid_step_lower with (H := H); assumption|].
  intros Hq. apply solid_step_monotone; try assumption. lra.
Qed.
Print Assumptions C06_solid_step_admissible.

(* the whole run (PARTIAL: the positivity of an iced vial's ice fraction under a warming heat flow is a
   hypothesis observed on the trajectory, not derived): for every vial i and every stored column m,
     coldest shelf temperature applied so far <= T <= hi   (hi >= initial temperature, initial shelf, T_eq_l)
     and either sigma = 0, or 0 < sigma < 1 and T lies on the freezing-point-depression curve *)
Theorem C06_run_admissible_partial :
  forall (P : @params R) cs n T0 shelf decs hist fin,
  run_from Rops P cs 0%Z shelf decs (init Rops n T0) = (hist, fin) ->
  length cs = n -> length shelf = length decs ->
  (forall m, (m < length decs)%nat -> length (nth m decs []) = n) ->
  0 < p_hl P -> 0 <= p_dt P -> 0 <= p_kintA P -> p_alpha P < 0 -> 0 < p_depr P -> 0 < p_mass P ->
  (forall s, 0 < s < 1 -> 0 < rcp_sigma P s) -> p_Teql P = p_Teq P - p_depr P ->
  (forall i, (i < n)%nat ->
     0 <= c_hext (nth i cs (MkC [] 0 0)) /\ 0 <= c_hsh (nth i cs (MkC [] 0 0))
     /\ (forall j, In j (c_nb (nth i cs (MkC [] 0 0))) -> (j < n)%nat)
     /\ lam P (c_nb (nth i cs (MkC [] 0 0))) (c_hext (nth i cs (MkC [] 0 0))) (c_hsh (nth i cs (MkC [] 0 0))) <= 1) ->
  forall hi Tmin,
  (forall m, (S m < length decs)%nat -> nth (S m) shelf 0 <= nth m shelf 0) ->
  (forall m, (m < length decs)%nat -> Tmin <= nth m shelf 0 <= hi) ->
  nth 0 shelf 0 <= T0 <= hi -> p_Teq P - p_depr P <= hi -> Tmin < p_Teq P ->
  (forall Ts, Tmin <= Ts < p_Teq P - p_depr P ->
     0 < rsigma_init P Ts < 1 /\ Ts < ron_curve P (rsigma_init P Ts)) ->
  (forall i s, (i < n)%nat -> 0 < s < 1 ->
     let H := INR (length (c_nb (nth i cs (MkC [] 0 0)))) * p_kintA P + c_hext (nth i cs (MkC [] 0 0)) + c_hsh (nth i cs (MkC [] 0 0)) in
     (H * p_dt P * (p_Teq P - Tmin)) * (H * p_dt P * (p_Teq P - Tmin)) <= 4 * (- p_alpha P) * (p_depr P * p_mass P * rcp_sigma P s)) ->
  (forall i m, (i < n)%nat -> (m < length decs)%nat -> vS (vcol hist fin i m) <> 0 -> 0 < vS (vcol hist fin i (S m))) ->
  forall m, (m <= length decs)%nat -> forall i, (i < n)%nat ->
  vial_ok P hi (lo_of shelf m) (vcol hist fin i m).
Proof. intros. eapply run_admissible; eassumption. Qed.
Print Assumptions C06_run_admissible_partial.
