(* C10  Controlled nucleation fires once, at the end of the chosen hold. *)
From Coq Require Import Reals ZArith List Bool Lia Lra.
From Snow Require Import Num NumR OpCond OpCondProofs CnProofs Flake FlakeProofs NucleationLaw CnRun.
Import ListNotations.
Local Open Scope R_scope.

(* the trigger time cnt is the LAST index of the 1 s profile whose shelf temperature is still at or
   above cnTemp ... *)
Theorem C10_trigger_is_last_sample_at_or_above_cnTemp :
  forall cn prof, Exists (fun x => cn <= x) prof ->
  let c := Z.to_nat (cnt Rops cn prof) in
  cnt Rops cn prof = Z.of_nat c /\ (c < length prof)%nat /\ cn <= nth c prof 0
  /\ forall j, (c < j < length prof)%nat -> nth j prof 0 < cn.
Proof. intros. apply cnt_is_last_ge. assumption. Qed.
Print Assumptions C10_trigger_is_last_sample_at_or_above_cnTemp.

(* ... and since the profile never rises (C05), the shelf is at or above cnTemp at every earlier second:
   for every admissible program and every cnTemp <= start *)
Theorem C10_shelf_at_or_above_cnTemp_until_trigger :
  forall start endT cr ttot holds cn,
  0 < cr -> 0 < ttot -> endT <= start -> Forall (fun h => endT <= h_temp h <= start) holds -> cn <= start ->
  let prof := rprofile start endT cr 1 ttot holds in
  forall j, (j <= Z.to_nat (cnt Rops cn prof))%nat -> cn <= nth j prof 0.
Proof.
  intros start endT cr ttot holds cn Hcr Htt Hse Hh Hcn prof j Hj.
  assert (Hdt : 0 < 1) by lra.
  assert (HC : chain_from (cr * 1) start prof) by (apply profile_chain; assumption).
  assert (HH : hd endT prof = start) by (apply profile_head; assumption).
  assert (HL : length prof = Z.to_nat (nsamples Rops ttot 1)) by (apply profile_length; assumption).
  apply (cnt_prefix_above cn prof (cr * 1) start 0); [nra|exact HC| |exact Hj].
  destruct prof as [|x r].
  - exfalso. assert (H2 : (2 <= Z.to_nat (nsamples Rops ttot 1%R))%nat) by (apply n_ge_2; assumption). cbn [length] in HL. lia.
  - cbn in HH. subst x. apply Exists_cons_hd. exact Hcn.
Qed.
Print Assumptions C10_shelf_at_or_above_cnTemp_until_trigger.

(* k_CN is the first simulation step at or after the trigger time *)
Theorem C10_trigger_step_is_first_step_at_or_after_cnt :
  forall dt c fuel, match first_step_ge Rops dt c 0 fuel with
  | Some k => (0 <= k < Z.of_nat fuel)%Z /\ IZR c <= IZR k * dt /\ forall j, (0 <= j < k)%Z -> IZR j * dt < IZR c
  | None => forall j, (0 <= j < Z.of_nat fuel)%Z -> IZR j * dt < IZR c
  end.
Proof. intros. apply (first_step_ge_spec dt c fuel 0%Z). Qed.
Print Assumptions C10_trigger_step_is_first_step_at_or_after_cnt.

(* at that step every vial that is still liquid and supercooled nucleates, whatever its draw in [0,1);
   at every other step the decision is the plain comparison of the draw with the rate-law probability *)
Theorem C10_all_candidates_fire_and_no_other_forcing :
  forall (P : @params R) q T u Pv, 0 <= u < 1 ->
  (rliquid_T P q T < p_Teql P -> snd (rvial_step P q T 0 (decision true u Pv)) = KJump)
  /\ (decision false u Pv = true <-> u < Pv).
Proof.
  intros P q T u Pv Hu. split.
  - intros H. apply controlled_nucleation_forces_candidates; assumption.
  - unfold decision. apply Rltb_true.
Qed.
Print Assumptions C10_all_candidates_fire_and_no_other_forcing.

(* up to the trigger step K the run is identical to the run without controlled nucleation:
   the first K+1 stored columns depend only on the decisions of the first K steps *)
Theorem C10_identical_up_to_trigger_step :
  forall (P : @params R) cs K k shelf decs_cn decs_plain vs,
  firstn K decs_cn = firstn K decs_plain ->
  firstn (S K) (columns Rops P cs k shelf decs_cn vs) = firstn (S K) (columns Rops P cs k shelf decs_plain vs).
Proof. intros. apply columns_prefix. assumption. Qed.
Print Assumptions C10_identical_up_to_trigger_step.
