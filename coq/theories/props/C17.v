(* C17  Tabular exports reproduce the simulated numbers exactly.
   A table is modelled as the list of its rows, each row naming the SOURCE of its value. *)
From Coq Require Import ZArith List Bool.
From Snow Require Import Tables TablesProofs.
Import ListNotations.

(* statistics table: exactly 3 N rows, the row at position j N + v carries vial v and statistic j:
   every (vial, statistic) pair occurs exactly once *)
Theorem C17_statistics_table :
  forall N, length (stats_rows N) = 3 * N
  /\ forall j v, j < 3 -> v < N -> nth (j * N + v) (stats_rows N) (0, 0) = (v, j).
Proof. exact stats_rows_spec. Qed.
Print Assumptions C17_statistics_table.

(* trajectory table: the k-th sampled column is column k * stride with stride >= 1 for ANY run length and
   ANY requested number of samples; runs shorter than the request keep every column *)
Theorem C17_trajectory_sampling :
  forall ncols n,
  (1 <= stride ncols n)
  /\ (forall k, k * stride ncols n < ncols -> nth k (sampled_cols ncols n) 0 = k * stride ncols n)
  /\ (ncols < Nat.max 1 (n - 1) -> sampled_cols ncols n = range ncols).
Proof.
  intros ncols n. repeat split.
  - apply stride_pos. - apply sampled_cols_spec. - apply short_runs_keep_every_column.
Qed.
Print Assumptions C17_trajectory_sampling.

(* ... and for each sampled column the table holds the temperature of every stored vial, then its ice fraction *)
Theorem C17_trajectory_table :
  forall stored ncols n c r, c < length (sampled_cols ncols n) -> r < length stored ->
  nth (c * (2 * length stored) + r) (traj_rows stored ncols n) (false, 0, 0)
    = (false, nth r stored 0, nth c (sampled_cols ncols n) 0)
  /\ nth (c * (2 * length stored) + (length stored + r)) (traj_rows stored ncols n) (false, 0, 0)
    = (true, nth r stored 0, nth c (sampled_cols ncols n) 0).
Proof. intros. apply traj_rows_spec; assumption. Qed.
Print Assumptions C17_trajectory_table.

(* Snowfall table: exactly Nrep x N x 3 rows; the value for (seed i, vial v, statistic j) is that repetition's value *)
Theorem C17_snowfall_table :
  forall Nrep N, length (snowfall_rows Nrep N) = Nrep * (3 * N)
  /\ forall i j v, i < Nrep -> j < 3 -> v < N ->
       nth (i * (3 * N) + (j * N + v)) (snowfall_rows Nrep N) (0, 0, 0) = (i, v, j).
Proof. exact snowfall_rows_spec. Qed.
Print Assumptions C17_snowfall_table.

(* accessors return exactly the rows matching the requested groups, seeds and statistic *)
Theorem C17_accessors_are_filters :
  forall (L : Type) (leqb : L -> L -> bool) label groups seeds var rows r,
  In r (accessor leqb label groups seeds var rows) <->
  In r rows /\ (let '(i, v, j) := r in
                (match groups with None => true | Some gs => existsb (leqb (label v)) gs end)
                && (match seeds with None => true | Some ss => existsb (Nat.eqb i) ss end)
                && Nat.eqb j var) = true.
Proof. intros. apply accessor_spec. Qed.
Print Assumptions C17_accessors_are_filters.
