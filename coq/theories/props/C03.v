(* C03  Vial nucleation follows the stated stochastic rate law (per-draw statements; the
   distributional part - xi standard normal, draws uniform - is about numpy's generators and is
   not modelled). *)
From Coq Require Import Reals ZArith List.
From Snow Require Import Num NumR Flake FlakeProofs NucleationLaw StatsProofs.
Local Open Scope R_scope.

(* the vial nucleates in a step exactly when it is liquid, supercooled after the liquid update and its
   uniform draw is below  k_v V (T_eq_l - T)^b dt  with  k_v = 10^-(a + c xi_v) *)
Theorem C03_nucleates_iff_draw_below_probability :
  forall (P : @params R) q T s a b c xi V u,
  snd (rvial_step P q T s (decision false u (prob a b c xi V (p_Teql P) (rliquid_T P q T) (p_dt P)))) = KJump
  <-> s = 0 /\ rliquid_T P q T < p_Teql P /\ u < prob a b c xi V (p_Teql P) (rliquid_T P q T) (p_dt P).
Proof. exact nucleates_iff_draw_below_probability. Qed.
Print Assumptions C03_nucleates_iff_draw_below_probability.

Theorem C03_certain_once_probability_reaches_one :
  forall (P : @params R) q T a b c xi V u, 0 <= u < 1 -> rliquid_T P q T < p_Teql P ->
  1 <= prob a b c xi V (p_Teql P) (rliquid_T P q T) (p_dt P) ->
  snd (rvial_step P q T 0 (decision false u (prob a b c xi V (p_Teql P) (rliquid_T P q T) (p_dt P)))) = KJump.
Proof. exact certain_when_probability_reaches_one. Qed.
Print Assumptions C03_certain_once_probability_reaches_one.

Theorem C03_never_if_not_supercooled_or_iced :
  forall (P : @params R) q T s dec,
  s <> 0 \/ p_Teql P <= rliquid_T P q T -> snd (rvial_step P q T s dec) <> KJump.
Proof. exact never_if_not_supercooled_or_iced. Qed.
Print Assumptions C03_never_if_not_supercooled_or_iced.

(* the probability is positive, proportional to dt and V and strictly increasing in the supercooling *)
Theorem C03_probability_shape :
  forall a b c xi V Teql dt, 0 < V -> 0 < dt -> 0 < b ->
  (forall T, 0 < prob a b c xi V Teql T dt)
  /\ (forall T, prob a b c xi V Teql T dt = dt * prob a b c xi V Teql T 1)
  /\ (forall T, prob a b c xi V Teql T dt = V * prob a b c xi 1 Teql T dt)
  /\ (forall T1 T2, T1 < T2 -> T2 < Teql -> prob a b c xi V Teql T2 dt < prob a b c xi V Teql T1 dt).
Proof.
  intros a b c xi V Teql dt HV Hdt Hb. repeat split; intros.
  - apply prob_pos; assumption. - apply prob_linear_dt. - apply prob_linear_V.
  - apply prob_mono; assumption.
Qed.
Print Assumptions C03_probability_shape.

(* the recorded nucleation temperature is the vial's (supercooled) temperature at that moment *)
Theorem C03_recorded_temperature_is_supercooled_temperature :
  forall (P : @params R) k q v dec, vS v = 0 ->
  let v' := vial_update_q Rops P k q v dec in
  vS v' <> 0 -> st_Tnuc (vst v') = Some (rliquid_T P q (vT v)) /\ rliquid_T P q (vT v) < p_Teql P.
Proof.
  intros P k q v dec Hs v' Hne. destruct (vu_liquid P k q v dec Hs) as [[H0 _]|(Hsc & _ & _ & HT & _)].
  - exfalso. apply Hne. exact H0.
  - split; assumption.
Qed.
Print Assumptions C03_recorded_temperature_is_supercooled_temperature.
