(* C19  Configuration layering and derived constants are exact.
   The derived constants are the definitions GENERATED from constants.calculateDerived. *)
From Coq Require Import Reals ZArith List Bool String.
From Snow Require Import Num NumR GenConstants Layer LayerProofs.
Import ListNotations.
Local Open Scope R_scope.

(* the defining relations, for every configuration (all leaves arbitrary reals) *)
Theorem C19_derived_constants_satisfy_their_defining_relations :
  forall c : leaves R,
  let ws := lf_solution_solid_fraction c in
  d_A Rops c = lf_vial_geometry_length c * lf_vial_geometry_width c
  /\ d_V Rops c = d_A Rops c * lf_vial_geometry_height c
  /\ d_mass Rops c = lf_solution_rho_l c * d_V Rops c
  /\ d_mass_solute Rops c + d_mass_water Rops c = d_mass Rops c
  /\ d_mass_solute Rops c = d_mass Rops c * ws
  /\ d_cp_solution Rops c = ws * lf_solution_cp_s c + (1 - ws) * lf_water_cp_w c
  /\ d_hl Rops c = d_mass Rops c * d_cp_solution Rops c
  /\ d_depression Rops c = lf_solution_k_f c / lf_solution_M_s c * (ws / (1 - ws))
  /\ d_T_eq_l Rops c = lf_solution_T_eq c - lf_solution_k_f c / lf_solution_M_s c * (ws / (1 - ws))
  /\ d_alpha Rops c = - d_mass Rops c * lf_water_Dh c * (1 - ws)
  /\ d_beta_solution Rops c = d_depression Rops c * d_mass Rops c * d_cp_solution Rops c
  /\ d_lambda_solution Rops c = ws * lf_solution_lambda_s c + (1 - ws) * lf_water_lambda_w c.
Proof.
  intros c ws. unfold ws.
  repeat split;
    cbv [d_A d_V d_mass d_mass_solute d_mass_water d_cp_solution d_hl d_depression d_T_eq_l d_T_eq d_alpha
         d_beta_solution d_lambda_solution d_height d_rho_l d_solid_fraction d_cp_s d_cp_w d_lambda_s d_lambda_w
         nadd nsub nmul ndiv nopp nofZ Rops]; try reflexivity; ring.
Qed.
Print Assumptions C19_derived_constants_satisfy_their_defining_relations.

(* a configuration is rejected at load time exactly when an enumeration value or a combination is unsupported *)
Theorem C19_rejected_iff_unsupported :
  forall e : enums,
  let conf := en_snowing_parameters_configuration e in
  let dim := en_snowing_parameters_dimensionality e in
  rejected e = false <->
    (In conf ["shelf"; "VISF"; "jacket"]%string
     /\ In (en_snowfall_parameters_vial_arrangement e) ["hexagonal"; "square"]%string
     /\ In dim ["homogeneous"; "spatial_1D"; "spatial_2D"]%string
     /\ String.prefix "cub" (en_vial_geometry_shape e) = true
     /\ (conf = "VISF"%string -> dim <> "homogeneous"%string)
     /\ (conf = "jacket"%string -> dim = "spatial_2D"%string)).
Proof.
  intros e conf dim. unfold rejected. fold conf dim.
  set (arr := en_snowfall_parameters_vial_arrangement e). set (shp := en_vial_geometry_shape e).
  cbn [existsb In].
  destruct (String.prefix "cub" shp);
  destruct (String.eqb_spec conf "shelf") as [C1|C1]; destruct (String.eqb_spec conf "VISF") as [C2|C2];
    destruct (String.eqb_spec conf "jacket") as [C3|C3];
    try (exfalso; congruence);
  destruct (String.eqb_spec arr "hexagonal") as [A1|A1]; destruct (String.eqb_spec arr "square") as [A2|A2];
    try (exfalso; congruence);
  destruct (String.eqb_spec dim "homogeneous") as [D1|D1]; destruct (String.eqb_spec dim "spatial_1D") as [D2|D2];
    destruct (String.eqb_spec dim "spatial_2D") as [D3|D3];
    try (exfalso; congruence);
  cbn [orb andb negb];
  (split; [intros H; try discriminate H; repeat split; try (intros; congruence); auto 6
          | intros (H1 & H2 & H3 & H4 & H5 & H6); try reflexivity; exfalso;
            try discriminate H4;
            try (destruct H1 as [H1|[H1|[H1|[]]]]; congruence);
            try (destruct H2 as [H2|[H2|[]]]; congruence);
            try (destruct H3 as [H3|[H3|[H3|[]]]]; congruence);
            try (apply H5; congruence); try (specialize (H6 ltac:(congruence)); congruence)]).
Qed.
Print Assumptions C19_rejected_iff_unsupported.

(* layering: an entry named by the custom file holds the custom value afterwards ... *)
Theorem C19_named_entries_are_overridden :
  forall p u d v, wf u -> lookup p u = Some (Leaf v) -> p <> [] ->
  lookup p (Node (upd d u)) = Some (Leaf v).
Proof. exact named_entries_are_overridden. Qed.
Print Assumptions C19_named_entries_are_overridden.

(* ... and every entry the custom file does not name (neither it nor a prefix of its path, which
   includes every file consisting of unknown keys only) keeps its default *)
Theorem C19_other_entries_keep_default :
  forall p u d v, wf u -> untouched p u -> compatible d u = true -> lookup p (Node d) = Some (Leaf v) ->
  lookup p (Node (upd d u)) = Some (Leaf v).
Proof. exact other_entries_keep_default. Qed.
Print Assumptions C19_other_entries_keep_default.
