(* C02  Spatial model conserves energy through shelf, jacket and evaporation (1D model; see DESIGN for 2D). *)
From Coq Require Import Reals ZArith List Bool.
From Coquelicot Require Import Coquelicot.
From Snow Require Import Num NumR Sn1D SnProofs.
Import ListNotations.
Local Open Scope R_scope.

(* cooling stage: the heat content changes by EXACTLY the heat that crossed the bottom (shelf) and the top
   (evaporation) boundaries in that step; all interior fluxes cancel (any number of grid points) *)
Theorem C02_cooling_step_energy_balance_exact :
  forall (P : @p1d R) T0 T1 r Tsh qe rho cp,
  q_dz P <> 0 -> q_lam0 P <> 0 -> rho * cp <> 0 -> q_alpha0 P = q_lam0 P / (cp * rho) ->
  rho * cp * q_dz P * (lsum (cool_step Rops P (T0 :: T1 :: r) Tsh qe) - lsum (T0 :: T1 :: r))
  = q_dt P * (q_K P * (Tsh - T0) + qe).
Proof. intros. apply cool_step_energy_exact; assumption. Qed.
Print Assumptions C02_cooling_step_energy_balance_exact.

(* the ghost points carry exactly the boundary fluxes *)
Theorem C02_ghost_points_carry_the_boundary_fluxes :
  forall (P : @p1d R) T0 Tn Tsh qe lam, lam <> 0 -> q_dz P <> 0 ->
  lam * ((T0 + q_K P * (Tsh - T0) * q_dz P / lam) - T0) / q_dz P = q_K P * (Tsh - T0)
  /\ lam * ((Tn + qe * q_dz P / lam) - Tn) / q_dz P = qe.
Proof. intros. split; [apply ghost_bottom_flux|apply ghost_top_flux]; assumption. Qed.
Print Assumptions C02_ghost_points_carry_the_boundary_fluxes.

(* nucleation neither adds nor removes energy *)
Theorem C02_nucleation_is_adiabatic :
  forall (P : @p1d R) Tn, q_cp0 P * q_mass P <> 0 -> q_Ms P <> 0 ->
  let x := nuc_Teq Rops P Tn in
  0 <= (q_Tm P - Tn - q_Dh P * q_mw P / (q_cp0 P * q_mass P)) * (q_Tm P - Tn - q_Dh P * q_mw P / (q_cp0 P * q_mass P))
       + 4 * (q_ms P * (q_kf P / q_Ms P) * q_Dh P / (q_cp0 P * q_mass P)) ->
  q_Tm P - x <> 0 ->
  q_cp0 P * q_mass P * (x - Tn) = q_Dh P * (q_mw P - q_ms P * (q_kf P / q_Ms P) / (q_Tm P - x)).
Proof. intros. apply nucleation_is_adiabatic; assumption. Qed.
Print Assumptions C02_nucleation_is_adiabatic.

(* the apparent heat capacity cp * BETA of the solidification scheme is the temperature derivative of the
   equilibrium enthalpy cp T - Dh w_i(T): integrating it integrates sensible plus latent heat.
   PARTIAL: the solidification update is in non-conservative form (and its quadrature grid differs from the
   finite-difference grid); its global balance 'within a few percent' is checked by the oracle only *)
Theorem C02_apparent_capacity_is_enthalpy_derivative_partial :
  forall Dh kf Ms ms m cp Tm T, m <> 0 -> Ms <> 0 -> cp <> 0 -> T <> Tm ->
  is_derive (enthalpy Dh kf Ms ms m cp Tm) T (cp * BETA Dh kf Ms ms m cp Tm T).
Proof. intros. apply apparent_capacity_is_enthalpy_derivative; assumption. Qed.
Print Assumptions C02_apparent_capacity_is_enthalpy_derivative_partial.

(* the full statement (exact balance at every step) is FALSE of the faithful model in the solidification stage: with insulated
   boundaries (K = 0, q_e = 0), unit heat capacity and no latent heat (Dh = 0), a field with a conductivity jump gains 3/4 units
   of heat in one step.  This is why the solidification-stage clause of C02 is an audit "within a few percent" and not a theorem. *)
From Snow Require Import SnSolidMax.
Theorem C02_solid_step_exact_balance_refuted :
  exists (P : @p1d R) (T W : list R),
  q_K P = 0 /\ (forall w, cp_of Rops P w = 1) /\ (forall b w, BETA_of Rops P b w = 1)
  /\ lsum (fst (solid_step Rops P T W 0 0)) - lsum T <> 0.
Proof. exact solid_step_exact_balance_refuted. Qed.
Print Assumptions C02_solid_step_exact_balance_refuted.
