(* C12  Reported statistics and counters agree with the trajectories. *)
From Coq Require Import Reals ZArith List Lia Lra.
From Snow Require Import Num NumR Flake FlakeProofs StatsProofs.
Import ListNotations.
Local Open Scope R_scope.

(* For every vial i of every run of the step model (any batch, any coefficients, any shelf
   profile, any nucleation decisions), with c m = the vial's state in the m-th stored column:
   - the vial is ice-free throughout iff no statistics were recorded for it;
   - otherwise there is a step j such that the vial is ice-free up to column j and contains ice
     in every later column, the recorded nucleation time is (j+1) dt (the first column with ice),
     the recorded nucleation temperature is the supercooled temperature reached in step j, below
     T_eq_l, and the recorded solidification time is t_m - t_nuc for the FIRST column m after
     nucleation whose ice fraction exceeds the threshold (none recorded iff there is no such column).
   Hypotheses: once iced a vial stays iced and a jump creates ice (consequences of admissibility,
   C06; evaluated by the harness on every run). *)
Theorem C12_statistics_are_those_of_the_trajectory :
  forall (P : @params R) cs n T0 shelf decs hist fin,
  run_from Rops P cs 0%Z shelf decs (init Rops n T0) = (hist, fin) ->
  length cs = n -> length shelf = length decs ->
  (forall m, (m < length decs)%nat -> length (nth m decs []) = n) ->
  forall i, (i < n)%nat ->
  let c := vcol hist fin i in
  (forall m, (m < length decs)%nat -> vS (c m) <> 0 -> vS (c (S m)) <> 0) ->
  (forall T, T < p_Teql P -> rsigma_init P T <> 0) ->
  stats_match P c (vq P cs shelf hist fin i) (length decs).
Proof. intros. eapply run_stats_match; eassumption. Qed.
Print Assumptions C12_statistics_are_those_of_the_trajectory.

(* consequences spelled out: a solidification time exists only for nucleated vials and is >= 0 when dt >= 0;
   times lie on the simulation grid *)
Theorem C12_times_on_grid_and_ordered :
  forall (P : @params R) (c : nat -> @vstate R) q k, 0 <= p_dt P -> stats_match P c q k ->
  (forall ts, st_tsol (vst (c k)) = Some ts ->
     exists j m, (j < m < k)%nat /\ st_tnuc (vst (c k)) = Some (INR (S j) * p_dt P)
                 /\ ts = (INR m - INR (S j)) * p_dt P /\ 0 <= ts)
  /\ (st_tnuc (vst (c k)) = None -> st_tsol (vst (c k)) = None).
Proof.
  intros P c q k Hdt [Hz Hn]. split.
  - intros ts Hts. destruct (Req_EM_T (vS (c k)) 0) as [E|E].
    + destruct (Hz E) as [Hst _]. rewrite Hst in Hts. discriminate.
    + destruct (Hn E) as (j & Hj & _ & _ & Htn & _ & _ & [[Hnone _]|(m & Hm & _ & _ & Hsome)]).
      * rewrite Hnone in Hts; discriminate.
      * exists j, m. rewrite Hsome in Hts. inversion Hts; subst. repeat split; try lia.
        -- rewrite Htn. f_equal. unfold rtk. rewrite S_INR. ring.
        -- unfold rtk. rewrite S_INR. ring.
        -- unfold rtk. assert (INR (S j) <= INR m) by (apply le_INR; lia). rewrite S_INR in H.
           assert (0 <= (INR m - (INR j + 1)) * p_dt P) by (apply Rmult_le_pos; lra). lra.
  - intros Hnone. destruct (Req_EM_T (vS (c k)) 0) as [E|E].
    + destruct (Hz E) as [Hst _]. rewrite Hst. reflexivity.
    + destruct (Hn E) as (j & _ & _ & _ & Htn & _). rewrite Htn in Hnone. discriminate.
Qed.
Print Assumptions C12_times_on_grid_and_ordered.
