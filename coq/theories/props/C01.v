(* C01  Every vial step obeys the shelf-scale heat and phase balance.
   Statements about model/Flake.v at the real-number instance. *)
From Coq Require Import Reals ZArith List.
From Snow Require Import Num NumR Topology HeatCancel Flake FlakeProofs FlakeHeat.
Local Open Scope R_scope.

(* every vial, every step: the change of (T, sigma) is exactly one of
   liquid cooling   hl (T' - T) = q dt, sigma' = 0
   nucleation jump  hl (Tstar - T) = q dt, Tstar < T_eq_l, sigma' = sigma_init Tstar, T' on the depression curve
   solidification   q dt = alpha dsigma + m cp(sigma) dT_lin (latent + sensible), T' on the depression curve *)
Theorem C01_step_is_one_of_three_transitions :
  forall (P : @params R) q T s dec,
  p_hl P <> 0 -> p_alpha P < 0 -> 0 < p_depr P -> 0 < p_mass P -> 0 < rcp_sigma P s -> s < 1 ->
  let '(T', s', kd) := rvial_step P q T s dec in transition P q T s T' s' kd.
Proof. intros. apply step_trichotomy_physical; assumption. Qed.
Print Assumptions C01_step_is_one_of_three_transitions.

(* the indirect initial-ice formulation is eq. (9) *)
Theorem C01_indirect_is_eq9 :
  forall (P : @params R) Dh ws Tstar,
  p_direct P = false ->
  p_alpha P = - p_mass P * Dh * (1 - ws) -> p_beta_sol P = p_depr P * p_mass P * p_cp_sol P ->
  p_mass P <> 0 -> p_cp_sol P <> 0 -> p_depr P + Dh * (1 - ws) / p_cp_sol P <> 0 ->
  rsigma_init P Tstar = (p_Teql P - Tstar) / (p_depr P + Dh / p_cp_sol P * (1 - ws)).
Proof. intros. apply indirect_is_eq9; assumption. Qed.
Print Assumptions C01_indirect_is_eq9.

(* the direct formulation solves the quadratic (12), satisfies the adiabatic balance (10)/(11)
   and yields an ice fraction in (0,1) for every supercooled temperature *)
Theorem C01_direct_is_eq12 :
  forall (P : @params R) gamma Tstar,
  p_direct P = true -> gamma = - p_alpha P / p_mass P / p_cp_sol P -> 0 < gamma -> 0 < p_depr P ->
  Tstar < p_Teq P - p_depr P ->
  let sg := rsigma_init P Tstar in
  sg * sg * (- gamma) + sg * (p_Teq P - Tstar + gamma) + p_depr P - p_Teq P + Tstar = 0
  /\ ron_curve P sg - Tstar = sg * gamma
  /\ 0 < sg < 1.
Proof.
  intros P gamma Tstar H1 H2 H3 H4 H5. cbv zeta. repeat split.
  - apply direct_solves_eq12; assumption.
  - apply direct_is_adiabatic; assumption.
  - apply (direct_admissible P H1 gamma H2 H3 H4 Tstar H5).
  - apply (direct_admissible P H1 gamma H2 H3 H4 Tstar H5).
Qed.
Print Assumptions C01_direct_is_eq12.

(* the net heat flow is the one implied by the coefficients and the geometry:
   k_int A sum over geometric neighbours (T_j - T_i) + H_ext (T_ext - T_i) + H_shelf (T_shelf - T_i) *)
Theorem C01_heat_is_neighbour_sum :
  forall (P : @params R) T nb Ti hext hsh Text Tshelf,
  heat Rops P T nb Ti hext hsh Text Tshelf
  = p_kintA P * nbsum (fun j => nth j T 0 - Ti) nb + hext * (Text - Ti) + hsh * (Tshelf - Ti).
Proof. exact heat_is_neighbour_sum. Qed.
Print Assumptions C01_heat_is_neighbour_sum.

(* energy exchanged between vials cancels exactly over the batch *)
Theorem C01_intervial_heat_cancels :
  forall (P : @params R) a nx ny nz, (0 < nx)%Z -> (0 < ny)%Z -> (0 < nz)%Z -> forall T : list R,
  rsum (zrange (Z.to_nat (nvials nx ny nz)))
       (fun i => qint Rops P T (nbr_list a nx ny nz i) (nth (Z.to_nat i) T 0)) = 0.
Proof. intros. apply model_intervial_heat_cancels; assumption. Qed.
Print Assumptions C01_intervial_heat_cancels.
