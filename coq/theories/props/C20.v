(* C20  Evaporation physics is monotone, sign-correct and window-limited.
   The vapour pressures and the flux are the definitions GENERATED from src/ethz_snow/utils.py. *)
From Coq Require Import Reals.
From Snow Require Import GenUtils EvapProofs.
Local Open Scope R_scope.

Theorem C20_p_liquid_strictly_increasing :
  forall T1 T2, 123 <= T1 -> T2 <= 332 -> T1 < T2 -> vapour_pressure_liquid T1 < vapour_pressure_liquid T2.
Proof. exact p_liq_strictly_increasing. Qed.
Print Assumptions C20_p_liquid_strictly_increasing.

Theorem C20_p_ice_strictly_increasing :
  forall T1 T2, 110 <= T1 -> T2 <= 273.16 -> T1 < T2 -> vapour_pressure_solid T1 < vapour_pressure_solid T2.
Proof. exact p_ice_strictly_increasing. Qed.
Print Assumptions C20_p_ice_strictly_increasing.

(* the two correlations coincide at the triple point (to 1e-4 in ln p, i.e. 0.01 percent) *)
Theorem C20_coincide_at_triple_point :
  Rabs (ln (vapour_pressure_liquid 273.16) - ln (vapour_pressure_solid 273.16)) <= 1 / 10000.
Proof.
  unfold vapour_pressure_liquid, vapour_pressure_solid. rewrite !ln_exp. exact coincide_at_triple_point.
Qed.
Print Assumptions C20_coincide_at_triple_point.

Theorem C20_p_ice_le_p_liquid_below_triple_point :
  forall T, 123 <= T <= 273.15 -> vapour_pressure_solid T <= vapour_pressure_liquid T.
Proof. exact p_ice_le_p_liq_below_triple_point. Qed.
Print Assumptions C20_p_ice_le_p_liquid_below_triple_point.

(* flux: zero at equilibrium; positive iff the surface vapour pressure exceeds the chamber pressure;
   strictly increasing in the vapour pressure; proportional to a prefactor that scales with the
   evaporation coefficient and increases with it on (0,1] *)
Theorem C20_flux :
  forall kappa m kB, 0 < kappa <= 1 -> 0 < m -> 0 < kB ->
  (forall p_vac p_vap Tl Tv, p_vap / sqrt Tl = p_vac / sqrt Tv -> vapour_flux kappa m kB p_vac p_vap Tl Tv = 0)
  /\ (forall p_vac p_vap T, 0 < T -> (0 < vapour_flux kappa m kB p_vac p_vap T T <-> p_vac < p_vap))
  /\ (forall p_vac p1 p2 Tl Tv, 0 < Tl -> p1 < p2 -> vapour_flux kappa m kB p_vac p1 Tl Tv < vapour_flux kappa m kB p_vac p2 Tl Tv)
  /\ (forall p_vac p_vap Tl Tv, vapour_flux kappa m kB p_vac p_vap Tl Tv
        = kappa * (2 / (2 - kappa)) * sqrt (m / (2 * PI * kB)) * (p_vap / sqrt Tl - p_vac / sqrt Tv))
  /\ (forall k2, kappa < k2 -> k2 <= 1 -> flux_prefactor kappa m kB < flux_prefactor k2 m kB).
Proof.
  intros kappa m kB Hk Hm HkB. repeat split.
  - intros. apply flux_zero_at_equilibrium; assumption.
  - apply flux_sign; assumption.
  - apply flux_sign; assumption.
  - intros. apply flux_increasing_in_vapour_pressure; assumption.
  - intros. rewrite vapour_flux_factored, flux_prefactor_scales by assumption. reflexivity.
  - intros. apply flux_prefactor_increasing; try assumption; apply Hk.
Qed.
Print Assumptions C20_flux.

(* vacuum window (1D Snowing model): the evaporative heat flux is exactly zero outside the open window, and a VISF
   step outside the window IS the shelf step, in the cooling and in the solidification stage *)
From Snow Require Import Num NumR Sn1D SnProofs.
Theorem C20_evaporation_only_inside_the_window :
  forall (P : @p1d R) T W Tsh t ts td flux dHe,
  (t <= ts * 3600 \/ (ts + td) * 3600 <= t ->
     q_evap Rops true t ts td flux dHe = 0
     /\ cool_step Rops P T Tsh (q_evap Rops true t ts td flux dHe) = cool_step Rops P T Tsh (q_evap Rops false t ts td flux dHe)
     /\ solid_step Rops P T W Tsh (q_evap Rops true t ts td flux dHe) = solid_step Rops P T W Tsh (q_evap Rops false t ts td flux dHe))
  /\ (ts * 3600 < t < (ts + td) * 3600 -> q_evap Rops true t ts td flux dHe = - flux * dHe).
Proof.
  intros. split.
  - intros Ho. split; [apply q_evap_outside; tauto|]. apply visf_step_equals_shelf_step_outside_window. exact Ho.
  - apply q_evap_inside.
Qed.
Print Assumptions C20_evaporation_only_inside_the_window.

(* the same for the 2D model (per-column fluxes) *)
From Coq Require Import List.
From Snow Require Import Sn2D Sn2DProofs.
Theorem C20_2D_evaporation_only_inside_the_window :
  forall (P : @p2d R) Nz Nr rr ip g w Tsh t ts td dHe (fl : list R),
  (t <= ts * 3600 \/ (ts + td) * 3600 <= t ->
     qe2 Rops true t ts td dHe fl = map (fun _ => 0) fl
     /\ cool_step2_t Rops P Nz Nr rr true t ts td dHe g Tsh fl = cool_step2_t Rops P Nz Nr rr false t ts td dHe g Tsh fl
     /\ solid_step2_t Rops P Nz Nr rr ip true t ts td dHe g w Tsh fl = solid_step2_t Rops P Nz Nr rr ip false t ts td dHe g w Tsh fl)
  /\ (ts * 3600 < t < (ts + td) * 3600 -> qe2 Rops true t ts td dHe fl = map (fun f => - f * dHe) fl).
Proof.
  intros. split.
  - intros Ho. split; [apply qe2_outside; tauto|]. apply visf2_step_equals_shelf_step_outside_window. exact Ho.
  - apply qe2_inside.
Qed.
Print Assumptions C20_2D_evaporation_only_inside_the_window.
