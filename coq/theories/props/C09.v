(* C09  Heat-exchange topology matches the declared vial arrangement.
   Property theorems only; proofs live in proofs/TopologyProofs.v and proofs/HeatCancel.v. *)
From Coq Require Import ZArith Reals List.
From Snow Require Import Topology TopologyProofs HeatCancel.
Local Open Scope Z_scope.

(* two distinct vials exchange heat (entry 1, i.e. counted exactly once) iff they are
   geometric neighbours in the declared arrangement; every other off-diagonal entry is 0 *)
Theorem C09_exchange_iff_geometric_neighbours :
  forall a nx ny nz, 0 < nx -> 0 < ny -> 0 < nz ->
  forall i j, 0 <= i < nvials nx ny nz -> 0 <= j < nvials nx ny nz -> i <> j ->
  IA a nx ny nz i j = if nbr a nx ny nz i j then 1 else 0.
Proof. intros; apply IA_offdiag; assumption. Qed.
Print Assumptions C09_exchange_iff_geometric_neighbours.

(* same conductance in both directions *)
Theorem C09_symmetric :
  forall a nx ny nz i j, 0 <= i < nvials nx ny nz -> 0 <= j < nvials nx ny nz ->
  IA a nx ny nz i j = IA a nx ny nz j i.
Proof. intros; apply IA_sym; assumption. Qed.
Print Assumptions C09_symmetric.

(* the diagonal holds minus the number of geometric neighbours ... *)
Theorem C09_diagonal_counts_neighbours :
  forall a nx ny nz, 0 < nx -> 0 < ny -> 0 < nz ->
  forall i, 0 <= i < nvials nx ny nz -> IA a nx ny nz i i = - nbr_count a nx ny nz i.
Proof. intros; apply IA_diag; assumption. Qed.
Print Assumptions C09_diagonal_counts_neighbours.

(* ... and the exposure is the arrangement's maximum minus the actual neighbours *)
Theorem C09_exposure :
  forall a nx ny nz, 0 < nx -> 0 < ny -> 0 < nz ->
  forall i, 0 <= i < nvials nx ny nz ->
  vial_ext a nx ny nz i = max_int a nz - nbr_count a nx ny nz i.
Proof. intros; apply vial_ext_spec; assumption. Qed.
Print Assumptions C09_exposure.

(* the inter-vial heat flow of vial i is the sum over its neighbours of (T_j - T_i) ... *)
Theorem C09_heatflow_is_neighbour_sum :
  forall a nx ny nz, 0 < nx -> 0 < ny -> 0 < nz -> forall (T : Z -> R) i,
  0 <= i < nvials nx ny nz ->
  qint a nx ny nz T i
  = rsum (zrange (Z.to_nat (nvials nx ny nz)))
         (fun j => if nbr a nx ny nz i j then (T j - T i)%R else 0%R).
Proof. intros; apply qint_is_neighbour_sum; assumption. Qed.
Print Assumptions C09_heatflow_is_neighbour_sum.

(* ... so heat exchanged between vials sums to zero over the batch, for every temperature field *)
Theorem C09_intervial_heat_cancels :
  forall a nx ny nz, 0 < nx -> 0 < ny -> 0 < nz -> forall (T : Z -> R),
  rsum (zrange (Z.to_nat (nvials nx ny nz))) (qint a nx ny nz T) = 0%R.
Proof. intros; apply intervial_heat_cancels; assumption. Qed.
Print Assumptions C09_intervial_heat_cancels.

(* non-vacuity: a hexagonal 3x3 shelf, centre vial 4 touches vial 2 but not vial 0 *)
Example C09_nonvacuous :
  nbr Hexagonal 3 3 1 4 2 = true /\ nbr Hexagonal 3 3 1 4 0 = false
  /\ IA Hexagonal 3 3 1 4 2 = 1 /\ vial_ext Hexagonal 3 3 1 4 = 0 /\ vial_ext Square 3 3 2 0 = 3.
Proof. vm_compute. repeat split; reflexivity. Qed.
