(* C13  Spatial results are internally consistent and complete (loop skeleton of snowing.py). *)
From Coq Require Import ZArith List Bool Arith Sorted Reals Lra.
From Snow Require Import SnLoop SnLoopProofs.
Import ListNotations.

(* a run either yields a complete result or raises: a result exists iff both first-crossing searches succeed,
   and then nucleation / 90 percent frozen are reported at the FIRST step at which their conditions hold *)
Theorem C13_complete_or_none :
  forall L nucleates frozen,
  match run_outline L nucleates frozen with
  | Some (i_end, i_sol) =>
      i_end < L /\ nucleates i_end = true /\ (forall j, j < i_end -> nucleates j = false)
      /\ i_sol < L - i_end /\ frozen i_end i_sol = true /\ (forall j, j < i_sol -> frozen i_end j = false)
  | None =>
      (forall j, j < L -> nucleates j = false)
      \/ exists i_end, i_end < L /\ nucleates i_end = true /\ forall j, j < L - i_end -> frozen i_end j = false
  end.
Proof. exact run_outline_spec. Qed.
Print Assumptions C13_complete_or_none.

(* the time axis is non-decreasing for every process length, nucleation step and pair of save strides *)
Theorem C13_time_axis_nondecreasing :
  forall Nt_exp L i_end, (0 <= i_end)%Z -> StronglySorted Z.le (map fst (report_rows Nt_exp L i_end)).
Proof. exact report_times_nondecreasing. Qed.
Print Assumptions C13_time_axis_nondecreasing.

(* time, shelf temperature, temperature and ice-fraction histories have the same length and refer row by row to the same steps *)
Theorem C13_histories_aligned :
  forall (X Y : Type) (f : Z * rowkind -> X) (g : Z * rowkind -> Y) Nt_exp L i_end,
  length (report f Nt_exp L i_end) = length (report g Nt_exp L i_end)
  /\ forall k d, k < length (report_rows Nt_exp L i_end) ->
       nth k (report f Nt_exp L i_end) (f d) = f (nth k (report_rows Nt_exp L i_end) d)
       /\ nth k (report g Nt_exp L i_end) (g d) = g (nth k (report_rows Nt_exp L i_end) d).
Proof. intros. apply report_same_rows. Qed.
Print Assumptions C13_histories_aligned.

(* freezing time = nucleation time + solidification time (times are step counts times dt) *)
Theorem C13_freezing_time_is_sum :
  forall (dt : R) (i_end i_sol : nat), ((INR i_end * dt + dt * INR i_sol) / 60 = INR i_end * dt / 60 + dt * INR i_sol / 60)%R.
Proof. intros. field. Qed.
Print Assumptions C13_freezing_time_is_sum.
