(* C18  State recording stores exactly the requested vials, unperturbed. *)
From Coq Require Import ZArith List Bool String.
From Snow Require Import Topology Groups Record RecordProofs.
Import ListNotations.
Local Open Scope Z_scope.

(* index lists: accepted iff all indices lie in the batch; then exactly the listed vials are recorded *)
Theorem C18_indices_exact :
  forall N l m, by_index N l = Ok m ->
  (forall i, In i l -> 0 <= i < N)
  /\ forall i, 0 <= i < N -> (nth (Z.to_nat i) m false = true <-> In i l).
Proof.
  intros N l m H. destruct (by_index_exact N l m H) as [H1 ->]. split; [exact H1|].
  intros i Hi. apply mask_of_spec. exact Hi.
Qed.
Print Assumptions C18_indices_exact.

(* 'uniform': a subset of the candidates and never more vials than asked *)
Theorem C18_uniform_never_more_than_asked :
  forall cands many, 0 < many -> cands <> [] ->
  let step := Z.to_nat (cdiv (Z.of_nat (List.length cands)) many) in
  (forall x, In x (every step 0 cands) -> In x cands) /\ Z.of_nat (List.length (every step 0 cands)) <= many.
Proof. intros. apply uniform_never_more_than_asked; assumption. Qed.
Print Assumptions C18_uniform_never_more_than_asked.

(* 'random': with numpy's without-replacement contract, exactly the requested number, all inside the group *)
Theorem C18_random_exactly_as_asked :
  forall N cands sel many, NoDup sel -> (forall x, In x sel -> In x cands) -> Z.of_nat (List.length sel) = many ->
  (forall x, In x cands -> 0 <= x < N) ->
  (forall i, 0 <= i < N -> nth (Z.to_nat i) (mask_of N sel) false = true -> In i cands)
  /\ Z.of_nat (List.length sel) = many.
Proof. intros. apply random_exactly_as_asked; assumption. Qed.
Print Assumptions C18_random_exactly_as_asked.

(* stored rows: recorded vials in index order, temperatures first and ice fractions second, each row being
   the vial's own entry of the full state vector (hence identical to the row stored when all vials are recorded) *)
Theorem C18_rows_in_index_order_and_unperturbed :
  forall (T : Type) (d : T) (m : list bool) (Tv Sv : list T),
  List.length m = List.length Tv -> List.length m = List.length Sv ->
  x_column m Tv Sv = map (fun i => nth (Z.to_nat i) Tv d) (where_true m 0)
                     ++ map (fun i => nth (Z.to_nat i) Sv d) (where_true m 0).
Proof.
  intros T d m Tv Sv H1 H2. unfold x_column.
  rewrite (recorded_rows_are_the_vials_own_rows d m Tv H1), (recorded_rows_are_the_vials_own_rows d m Sv H2). reflexivity.
Qed.
Print Assumptions C18_rows_in_index_order_and_unperturbed.

(* group words are found by substring search in the order corner, edge, core, side, all, center *)
Example C18_string_interpretation :
  first_group "edge_random_4" = Some Edge /\ first_group "uniform.core.5" = Some Core
  /\ first_group "2random3" = None /\ digit_runs "2random3" = [2; 3] /\ digit_runs "edge_random_4" = [4]
  /\ first_group "gibberish" = None /\ contains "random" "gibberish" = false.
Proof. vm_compute. repeat split; reflexivity. Qed.
