(* C15  The model hierarchy is consistent across its shared limits (0D Snowing vs isolated Snowflake vial).
   PARTIAL: the 1D -> 0D thermally-thin limit is proved in its exact discrete form for the cooling stage (the mean of the 1D step
   follows the 0D law up to a multiple of mean - bottom temperature); the asymptotic rate itself and the later stages stay with the oracle; the 2D -> 1D limit is proved for a
   simultaneous sweep and REFUTED for the in-place sweep of the implementation (known finding F9); see DESIGN.md. *)
From Coq Require Import Reals ZArith List Bool.
From Snow Require Import Num NumR Sn1D SnProofs Flake FlakeProofs Sn2D Sn2DProofs Sn2Dto1D SnThin.
Import ListNotations.
Local Open Scope R_scope.

(* same cooling curve: the homogeneous cooling step IS the liquid step of a 1x1x1 Snowflake with
   k_int = k_ext = 0, H_shelf = K A, hl = m cp and the same dt *)
Theorem C15_cooling_0D_equals_isolated_snowflake_vial :
  forall (P1 : @p1d R) (PF : @params R) area T Tsh,
  p_hl PF = q_mass P1 * q_cp0 P1 -> p_dt PF = q_dt P1 -> q_cp0 P1 * q_mass P1 <> 0 ->
  cool0 Rops P1 area Tsh T = rliquid_T PF (heat Rops PF [T] [] T 0 (q_K P1 * area) Tsh Tsh) T.
Proof. intros. apply cooling_0D_equals_isolated_snowflake_vial; assumption. Qed.
Print Assumptions C15_cooling_0D_equals_isolated_snowflake_vial.

(* same nucleation state: the 0D post-nucleation temperature and ice fraction satisfy the two equations that define
   the Snowflake's direct formulation (on the depression curve; sensible heat = latent heat), with
   D = k_f/M_s * w_s/(1-w_s) and gamma = Dh (1-w_s)/cp *)
Theorem C15_nucleation_0D_satisfies_snowflake_direct_balance :
  forall (P1 : @p1d R) Tn, q_cp0 P1 * q_mass P1 <> 0 ->
  let x := fst (nuc0 Rops P1 Tn) in
  let sigma := (q_mw P1 - q_ms P1 * (q_kf P1 / q_Ms P1) / (q_Tm P1 - x)) / q_mw P1 in
  let D := q_kf P1 / q_Ms P1 * (q_ms P1 / q_mw P1) in
  let gamma := q_Dh P1 * (q_mw P1 / q_mass P1) / q_cp0 P1 in
  q_Ms P1 <> 0 -> q_mw P1 <> 0 -> q_Tm P1 - x <> 0 -> q_ms P1 <> 0 -> q_kf P1 <> 0 ->
  0 <= (q_Tm P1 - Tn - q_Dh P1 * q_mw P1 / (q_cp0 P1 * q_mass P1)) * (q_Tm P1 - Tn - q_Dh P1 * q_mw P1 / (q_cp0 P1 * q_mass P1))
       + 4 * (q_ms P1 * (q_kf P1 / q_Ms P1) * q_Dh P1 / (q_cp0 P1 * q_mass P1)) ->
  x = q_Tm P1 - D / (1 - sigma) /\ x - Tn = sigma * gamma.
Proof. intros. apply nucleation_0D_satisfies_the_snowflake_direct_balance; assumption. Qed.
Print Assumptions C15_nucleation_0D_satisfies_snowflake_direct_balance.

(* 2D -> 1D: with no heat through the side wall and a radially uniform field, a SIMULTANEOUS evaluation of the 2D
   cooling stencil leaves the field radially uniform (every column follows the same axial recurrence) *)
Theorem C15_2D_simultaneous_sweep_keeps_radial_uniformity :
  forall (P : @p2d R) Nz Nr rr g Tsh q qe, (3 <= Nz)%nat -> (3 <= Nr)%nat -> shape g Nz Nr -> runiform Nz Nr g ->
  s_Kw P = 0 -> (length qe = Nr /\ forall j, (j < Nr)%nat -> nth j qe 0 = q) ->
  runiform Nz Nr (cool_step2_gen Rops P Nz Nr rr false g Tsh qe).
Proof. intros. eapply jacobi_keeps_uniform; eassumption. Qed.
Print Assumptions C15_2D_simultaneous_sweep_keeps_radial_uniformity.

(* ... and then every column IS the 1D cooling step of that column (same dz, dt, K, lambda, alpha): the 2D model without
   radial heat exchange reproduces the 1D model exactly -- for a simultaneous sweep *)
Theorem C15_2D_simultaneous_sweep_column_is_the_1D_step :
  forall (P2 : @p2d R) (P1 : @p1d R), q_dz P1 = s_dz P2 -> q_dt P1 = s_dt P2 -> q_K P1 = s_K P2 -> q_lam0 P1 = s_lam0 P2 -> q_alpha0 P1 = s_alpha0 P2 ->
  forall Nz Nr rr, (3 <= Nz)%nat -> (3 <= Nr)%nat ->
  forall (g : @grid R) Tsh q (qe : list R), shape g Nz Nr -> runiform Nz Nr g -> s_Kw P2 = 0 ->
  (length qe = Nr /\ forall j, (j < Nr)%nat -> nth j qe 0 = q) -> s_dz P2 <> 0 -> s_dr P2 <> 0 -> s_lam0 P2 <> 0 ->
  forall i j, (i < Nz)%nat -> (j < Nr)%nat ->
  gget Rops (cool_step2_gen Rops P2 Nz Nr rr false g Tsh qe) i j = nth i (cool_step Rops P1 (column g) Tsh q) 0.
Proof. intros. eapply jacobi_column_is_1D_step; eassumption. Qed.
Print Assumptions C15_2D_simultaneous_sweep_column_is_the_1D_step.

(* ... and the in-place sweep the implementation performs (model/Sn2D.v, tied to _run_2D by one-step
   correspondence) does not: the full statement is false of the faithful model.  Witness: a 3x3 field. *)
Theorem C15_2D_inplace_sweep_radial_uniformity_refuted :
  exists (P : @p2d R) (rr : list R) (g : @grid R) (Tsh : R) (qe : list R), runiform 3 3 g /\ s_Kw P = 0 /\ shape g 3 3 /\
  ~ runiform 3 3 (cool_step2 Rops P 3 3 rr g Tsh qe).
Proof. exists Pw, rw, gw, 0, [0; 0; 0]. exact inplace_breaks_uniformity. Qed.
Print Assumptions C15_2D_inplace_sweep_radial_uniformity_refuted.

(* 1D -> 0D, cooling stage, EXACT for any field of N >= 2 points, any shelf temperature and any constants: the mean of the 1D
   cooling step minus the 0D step applied to the mean is dt K/(rho cp N dz) * (mean - bottom temperature); the product mass of
   the 0D model is rho * area * (N dz)  (the implementation sets dz = height/N, so this is mass = rho * volume) *)
Theorem C15_1D_mean_follows_0D_law_up_to_bottom_offset :
  forall (P : @p1d R) T0 T1 r Tsh area rho cp,
  let T := T0 :: T1 :: r in
  let n := INR (length T) in
  q_dz P <> 0 -> q_lam0 P <> 0 -> rho * cp <> 0 -> area <> 0 -> q_alpha0 P = q_lam0 P / (cp * rho) ->
  q_cp0 P = cp -> q_mass P = rho * (area * (n * q_dz P)) ->
  lsum (cool_step Rops P T Tsh 0) / n - cool0 Rops P area Tsh (lsum T / n)
  = q_dt P * q_K P / (rho * cp * (n * q_dz P)) * (lsum T / n - T0).
Proof. intros. apply thin_limit_identity; assumption. Qed.
Print Assumptions C15_1D_mean_follows_0D_law_up_to_bottom_offset.

(* hence on a uniform field (the thermally thin vial) the two models take the same step *)
Theorem C15_1D_equals_0D_on_uniform_fields :
  forall (P : @p1d R) x m Tsh area rho cp,
  let T := x :: x :: repeat x m in
  let n := INR (length T) in
  q_dz P <> 0 -> q_lam0 P <> 0 -> rho * cp <> 0 -> area <> 0 -> q_alpha0 P = q_lam0 P / (cp * rho) ->
  q_cp0 P = cp -> q_mass P = rho * (area * (n * q_dz P)) ->
  lsum (cool_step Rops P T Tsh 0) / n = cool0 Rops P area Tsh x.
Proof. intros. apply (thin_limit_uniform P x m Tsh area rho cp); assumption. Qed.
Print Assumptions C15_1D_equals_0D_on_uniform_fields.

(* satisfiable hypotheses, non-zero right-hand side (three points, bottom colder than the mean) *)
Example C15_thin_limit_nonvacuous :
  let P := MkP1 1 (1/10) 1  1 1  1 1 1 0  1 1  1 1 1 1 1  3 1 1  0 0 1 in
  q_dz P <> 0 /\ q_lam0 P <> 0 /\ 1 * 1 <> 0 /\ q_alpha0 P = q_lam0 P / (1 * 1) /\ q_cp0 P = 1
  /\ q_mass P = 1 * (1 * (INR 3 * q_dz P))
  /\ q_dt P * q_K P / (1 * 1 * (INR 3 * q_dz P)) * (lsum [0; 3; 3] / INR 3 - 0) = 1 / 15.
Proof. exact thin_limit_nonvacuous. Qed.
