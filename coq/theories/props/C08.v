(* C08  Spatial model nucleates at the first crossing of its hazard integral. *)
From Coq Require Import Reals ZArith List Bool.
From Snow Require Import Num NumR SnLoop SnLoopProofs SnHazard.
Import ListNotations.
Local Open Scope R_scope.

(* the frequency of nucleation events is A times a quadrature (non-negative weights) of k (T_eq_l - T)^b over the
   supercooled part of the product, zero elsewhere: it is non-negative *)
Theorem C08_rate_integral_nonnegative :
  forall area w kb b Teql T, 0 <= area -> 0 <= kb -> Forall (fun a => 0 <= a) w ->
  0 <= area * wsum w (map (Jrate kb b Teql) T)
  /\ forall x, Jrate kb b Teql x = if Rltb x Teql then kb * Rpower (Teql - x) b else 0.
Proof. intros. split; [apply Kv_nonneg; assumption|reflexivity]. Qed.
Print Assumptions C08_rate_integral_nonnegative.

(* nucleation happens at the first step at which 1 - exp(-E) exceeds the uniform number, E = sum K_v dt:
   crossed there, at no earlier step, and at every later one -- not one step earlier or later *)
Theorem C08_nucleation_at_first_crossing :
  forall Kv dt F L, (forall k, 0 <= Kv k) -> 0 <= dt ->
  match find_first (crossed Kv dt F) 0 L with
  | Some i => (i < L)%nat /\ F < 1 - exp (- Eacc Kv dt i)
              /\ (forall j, (j < i)%nat -> 1 - exp (- Eacc Kv dt j) <= F)
              /\ (forall j, (i <= j)%nat -> F < 1 - exp (- Eacc Kv dt j))
  | None => forall j, (j < L)%nat -> 1 - exp (- Eacc Kv dt j) <= F
  end.
Proof. exact nucleation_at_first_crossing. Qed.
Print Assumptions C08_nucleation_at_first_crossing.

(* min <= mean <= max of the temperature field at that instant *)
Theorem C08_min_le_mean_le_max :
  forall l lo hi, l <> [] -> Forall (fun x => lo <= x <= hi) l -> lo <= lmean l <= hi.
Proof. exact min_le_mean_le_max. Qed.
Print Assumptions C08_min_le_mean_le_max.

(* min over the supercooled points <= kinetic mean <= T_eq_l *)
Theorem C08_kinetic_mean_between :
  forall w T kb b Teql lo, 0 < kb -> length w = length T -> Forall (fun a => 0 <= a) w ->
  (forall k, (k < length T)%nat -> nth k T 0 < Teql -> lo <= nth k T 0) ->
  0 < wsum w (map (Jrate kb b Teql) T) ->
  lo <= wsum w (map (fun p => fst p * snd p) (combine T (map (Jrate kb b Teql) T))) / wsum w (map (Jrate kb b Teql) T) <= Teql.
Proof. intros. apply kinetic_mean_between; assumption. Qed.
Print Assumptions C08_kinetic_mean_between.
