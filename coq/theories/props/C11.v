(* C11  Spatial controlled nucleation waits until the product reaches cnTemp. *)
From Coq Require Import Reals ZArith List Bool.
From Snow Require Import Num NumR SnLoop SnLoopProofs SnHazard.
Local Open Scope R_scope.

(* the trigger step is the FIRST step at which the coldest point of the product is at or below cnTemp:
   at every earlier step the whole product is still warmer than cnTemp *)
Theorem C11_trigger_is_first_step_at_or_below_cnTemp :
  forall (Tmin : nat -> R) cn L,
  match find_first (fun i => Rleb (Tmin i) cn) 0 L with
  | Some i => (i < L)%nat /\ Tmin i <= cn /\ forall j, (j < i)%nat -> cn < Tmin j
  | None => forall j, (j < L)%nat -> cn < Tmin j
  end.
Proof. exact cn_trigger_first_crossing. Qed.
Print Assumptions C11_trigger_is_first_step_at_or_below_cnTemp.

(* hence the reported nucleation temperature is within one step's cooling of the requested value *)
Theorem C11_nucleation_temperature_within_one_step :
  forall (Tmin : nat -> R) cn L i, find_first (fun i => Rleb (Tmin i) cn) 0 L = Some (S i) ->
  Tmin (S i) <= cn < Tmin i /\ cn - Tmin (S i) < Tmin i - Tmin (S i).
Proof.
  intros Tmin cn L i H. assert (Sp := cn_trigger_first_crossing Tmin cn L). rewrite H in Sp.
  destruct Sp as (_ & H1 & H2). specialize (H2 i ltac:(auto with arith)). split; [split; assumption|]. Lra.lra.
Qed.
Print Assumptions C11_nucleation_temperature_within_one_step.
