(* C14  Spatial repetitions are reproducible in every execution mode. *)
From Coq Require Import List Bool Arith.
From Snow Require Import Tables SnRep SnRepProofs.
Import ListNotations.

(* one row per repetition in seed order, row i = the single-vial run with seed i, for every assignment of
   repetitions to worker processes (sequential = one chunk) *)
Theorem C14_table_rows_are_single_runs :
  forall (X : Type) (f : nat -> X) Nrep chunks, (forall i, i < Nrep -> In i (concat chunks)) ->
  results_table Nrep (study f chunks) = map (fun i => Some (f i)) (range Nrep).
Proof. intros. apply table_rows_are_single_runs; assumption. Qed.
Print Assumptions C14_table_rows_are_single_runs.

(* hence sequential and parallel execution, and any number of workers, give the same table *)
Theorem C14_modes_agree :
  forall (X : Type) (f : nat -> X) Nrep chunks1 chunks2,
  (forall i, i < Nrep -> In i (concat chunks1)) -> (forall i, i < Nrep -> In i (concat chunks2)) ->
  results_table Nrep (study f chunks1) = results_table Nrep (study f chunks2).
Proof. intros. apply modes_agree; assumption. Qed.
Print Assumptions C14_modes_agree.
