(* C04  Shelf-scale results depend only on configuration and seeds.
   Statements about the object-level model of the random-stream bookkeeping (model/FlakeObj.v). *)
From Coq Require Import ZArith List Bool.
From Snow Require Import FlakeObj ObjProofs.
Import ListNotations.
Local Open Scope Z_scope.

(* whatever was seeded, read, built, recorded or run before on the same object, a run reads exactly the
   variates that its configuration and the seed in force determine: the shelf vector from position 0 of
   default_rng(seed) (if random shelf variability is on) and the dice from right after it *)
Theorem C04_run_outcome_is_history_independent :
  forall h d o,
  snd (run d (fst (history run o h))) = expected (seed_after (o_seed o) h) (o_N o) (o_var o).
Proof. exact last_run_history_independent. Qed.
Print Assumptions C04_run_outcome_is_history_independent.

(* also after the configuration was re-declared on the used object through the configPath setter (which drops the cached matrices and
   shelf vector): the next run yields what a fresh object with that seed yields *)
Theorem C04_run_after_reconfiguration_is_history_independent :
  forall h d o,
  snd (run d (set_config (fst (history run o h)))) = expected (seed_after (o_seed o) h) (o_N o) (o_var o).
Proof. exact run_after_set_config. Qed.
Print Assumptions C04_run_after_reconfiguration_is_history_independent.

(* and this holds for EVERY run inside any history, not only the last *)
Theorem C04_every_run_of_a_history :
  forall h o,
  Forall2 (fun (x : outcome) (s : Z) => x = expected s (o_N o) (o_var o))
          (snd (history run o h))
          ((fix seeds (s : Z) (h : list op) : list Z :=
              match h with
              | [] => []
              | SetSeed s' :: r => seeds s' r
              | Run _ :: r => s :: seeds s r
              | _ :: r => seeds s r
              end) (o_seed o) h).
Proof. exact every_run_depends_on_config_and_seed_only. Qed.
Print Assumptions C04_every_run_of_a_history.

(* Snowfall: for every partition of the repetitions into worker chunks (any number of workers, any
   assignment, any order), repetition s is the stand-alone run with seed s, and every seed is reported once *)
Theorem C04_snowfall_repetition_is_standalone_run :
  forall dice seed N var chunks d,
  let res := snowfall run dice (template seed N var) chunks in
  map fst res = concat chunks
  /\ Forall (fun kx => snd kx = snd (run d (new_obj (fst kx) N var))) res.
Proof.
  intros dice seed N var chunks d res.
  destruct (snowfall_repetition_is_standalone_run dice (template seed N var) chunks) as [H1 H2].
  split; [exact H2|].
  eapply Forall_impl; [|exact H1]. intros [k x] Hx. cbn [fst snd] in *.
  rewrite Hx, standalone_run. unfold template, build_matrices, new_obj, build_shelf. destruct var; reflexivity.
Qed.
Print Assumptions C04_snowfall_repetition_is_standalone_run.

(* the pinned revision did NOT have the property: fresh object vs Snowfall template, re-run, 'random' recording *)
Theorem C04_pinned_revision_refuted :
  (exists o1 o2 d, o_seed o1 = o_seed o2 /\ o_N o1 = o_N o2 /\ o_var o1 = o_var o2
                   /\ snd (run_pinned d o1) <> snd (run_pinned d o2)).
Proof.
  exists (new_obj 3 9 true), (set_seed 3 (template 0 9 true)), 100. repeat split.
  exact pinned_fresh_vs_template_refuted.
Qed.
Print Assumptions C04_pinned_revision_refuted.
