(* C07  Spatial fields respect physical bounds and phase equilibrium (1D / 0D step models). *)
From Coq Require Import Reals ZArith List Bool.
From Snow Require Import Num NumR Sn1D SnProofs Sn2D Sn2DProofs Sn2DMax SnSolidMax Sn2DIce.
Import ListNotations.
Local Open Scope R_scope.

(* cooling stage without evaporation: discrete maximum principle under the stability conditions
   2 F <= 1 and F (1 + Bi) <= 1 (F = alpha dt / dz^2, Bi = K dz / lambda) *)
Theorem C07_cooling_step_max_principle :
  forall (P : @p1d R) T0 T1 r Tsh lo hi,
  let c := q_alpha0 P * q_dt P / (q_dz P * q_dz P) in
  0 < q_dz P -> 0 < q_lam0 P -> 0 <= q_K P -> 0 <= c -> 2 * c <= 1 -> c * (1 + q_K P * q_dz P / q_lam0 P) <= 1 ->
  List.Forall (fun x => lo <= x <= hi) (T0 :: T1 :: r) -> lo <= Tsh <= hi ->
  List.Forall (fun x => lo <= x <= hi) (cool_step Rops P (T0 :: T1 :: r) Tsh 0).
Proof. intros. apply cool_step_max_principle; assumption. Qed.
Print Assumptions C07_cooling_step_max_principle.

(* nucleation: the new temperature of a supercooled point lies strictly between its old temperature and T_eq_l *)
Theorem C07_nucleation_temperature_between :
  forall (P : @p1d R) Tn, q_cp0 P * q_mass P <> 0 -> q_Ms P <> 0 ->
  let g := q_Dh P * q_mw P / (q_cp0 P * q_mass P) in
  let h := q_ms P * (q_kf P / q_Ms P) * q_Dh P / (q_cp0 P * q_mass P) in
  0 < h -> 0 < g -> Tn < q_Teql P -> q_Teql P < q_Tm P -> g * (q_Tm P - q_Teql P) = h ->
  Tn < nuc_Teq Rops P Tn < q_Teql P.
Proof. intros. apply nucleation_root_between; assumption. Qed.
Print Assumptions C07_nucleation_temperature_between.

(* ice fraction and temperature satisfy the freezing-point-depression relation wherever ice is reported,
   0 < w_i < water fraction below T_eq_l and no ice at or above it *)
Theorem C07_ice_temperature_relation :
  forall (P : @p1d R) T, 0 < q_mass P -> 0 < q_ms P * (q_kf P / q_Ms P) -> 0 < q_mw P ->
  q_Teql P = q_Tm P - q_ms P * (q_kf P / q_Ms P) / q_mw P ->
  (T < q_Teql P -> ice_of Rops P T = (q_mw P - q_ms P * (q_kf P / q_Ms P) / (q_Tm P - T)) / q_mass P
                   /\ 0 < ice_of Rops P T < q_mw P / q_mass P)
  /\ (q_Teql P <= T -> ice_of Rops P T = 0).
Proof. intros. apply ice_relation; assumption. Qed.
Print Assumptions C07_ice_temperature_relation.

(* solidification stage, one point: a convex combination of the point and its neighbours under the
   per-point conditions (non-negative diagonal weight, bounded conductivity variation); the whole step and whole runs
   follow below (C07_1D_solid_step_max_principle, C07_1D_run_bounds) *)
Theorem C07_solid_interior_point_partial :
  forall (P : @p1d R) a b d la lb ld w lo hi,
  let F := q_dt P / (cp_of Rops P w * q_rho P) / (q_dz P * q_dz P) * (1 / BETA_of Rops P b w) in
  0 <= F -> 2 * F * lb <= 1 -> Rabs (ld - la) <= 4 * lb ->
  q_dz P <> 0 -> cp_of Rops P w <> 0 -> q_rho P <> 0 -> BETA_of Rops P b w <> 0 ->
  lo <= a <= hi -> lo <= b <= hi -> lo <= d <= hi ->
  lo <= solid_point Rops P a b d la lb ld w <= hi.
Proof. intros. apply solid_point_convex; assumption. Qed.
Print Assumptions C07_solid_interior_point_partial.

(* 2D cooling stage, as the implementation sweeps it (in place, nine regions in order): every temperature stays
   between the bounds of the previous field and the shelf temperature.  Conditions: explicit-scheme restriction
   4 a/dr^2 + 2 a/dz^2 <= 1 with a = alpha dt, dr <= 2 r_j off the axis, K dz/lambda and Kw dr/lambda in [0,1],
   no evaporative flux. *)
Theorem C07_2D_cooling_step_max_principle :
  forall (P : @p2d R) (Nz Nr : nat) (rr : list R) lo hi (g : @grid R) Tsh (qe : list R),
  (3 <= Nz)%nat -> (3 <= Nr)%nat ->
  0 <= s_alpha0 P * s_dt P -> 0 < s_dr P -> 0 < s_dz P ->
  4 * (s_alpha0 P * s_dt P / (s_dr P * s_dr P)) + 2 * (s_alpha0 P * s_dt P / (s_dz P * s_dz P)) <= 1 ->
  (forall j, (1 <= j < Nr)%nat -> s_dr P <= 2 * rj Rops rr j) ->
  0 <= s_K P * s_dz P / s_lam0 P <= 1 -> 0 <= s_Kw P * s_dr P / s_lam0 P <= 1 ->
  shape g Nz Nr -> gbounded Nz Nr lo hi g -> lo <= Tsh <= hi ->
  length qe = Nr -> (forall j, (j < Nr)%nat -> nth j qe 0 = 0) ->
  gbounded Nz Nr lo hi (cool_step2 Rops P Nz Nr rr g Tsh qe).
Proof. intros. eapply cool_step2_max_principle; eassumption. Qed.
Print Assumptions C07_2D_cooling_step_max_principle.

(* the hypotheses are satisfiable (3x3 field between 0 and 1, jacket and shelf at 0) *)
Example C07_2D_hypotheses_nonvacuous :
  let P := MkP2 1 1 (1/10) (1/2) (1/2) 1 1  1 1 1 0 1 1  1 1 1 1 1 1 1  0 0 in
  0 <= s_alpha0 P * s_dt P /\ 4 * (s_alpha0 P * s_dt P / (s_dr P * s_dr P)) + 2 * (s_alpha0 P * s_dt P / (s_dz P * s_dz P)) <= 1
  /\ (forall j, (1 <= j < 3)%nat -> s_dr P <= 2 * rj Rops [0; 1; 2] j)
  /\ 0 <= s_K P * s_dz P / s_lam0 P <= 1 /\ 0 <= s_Kw P * s_dr P / s_lam0 P <= 1
  /\ shape [[0; 1; 0]; [1; 1; 1]; [0; 1; 0]] 3 3 /\ gbounded 3 3 0 1 [[0; 1; 0]; [1; 1; 1]; [0; 1; 0]].
Proof. exact max2d_hypotheses_nonvacuous. Qed.

(* 1D solidification stage, the WHOLE step (bottom ghost point, interior, top): under conditions stated uniformly over the
   admissible temperatures [lo,hi] and ice fractions [wlo,whi] every new temperature stays in [lo,hi] *)
Theorem C07_1D_solid_step_max_principle :
  forall (P : @p1d R) (lo hi wlo whi : R), q_dz P <> 0 -> q_rho P <> 0 ->
  (forall b w, okT lo hi b -> okW wlo whi w ->
     0 <= q_dt P / (cp_of Rops P w * q_rho P) / (q_dz P * q_dz P) * (1 / BETA_of Rops P b w)
     /\ 2 * (q_dt P / (cp_of Rops P w * q_rho P) / (q_dz P * q_dz P) * (1 / BETA_of Rops P b w)) * lam_of Rops P w <= 1
     /\ cp_of Rops P w <> 0 /\ BETA_of Rops P b w <> 0) ->
  (forall w w' w'', okW wlo whi w -> okW wlo whi w' -> okW wlo whi w'' -> Rabs (lam_of Rops P w' - lam_of Rops P w'') <= 4 * lam_of Rops P w) ->
  (forall w, okW wlo whi w -> lam_of Rops P w <> 0 /\ 0 <= q_K P * q_dz P / lam_of Rops P w <= 1) ->
  forall T W Tsh, (2 <= length T)%nat -> length W = length T -> List.Forall (okT lo hi) T -> List.Forall (okW wlo whi) W -> okT lo hi Tsh ->
  List.Forall (okT lo hi) (fst (solid_step Rops P T W Tsh 0)).
Proof. intros. apply (solid_step_max_principle P lo hi wlo whi); assumption. Qed.
Print Assumptions C07_1D_solid_step_max_principle.

(* 1D, whole runs: ANY sequence of cooling steps, nucleation and solidification steps (shelf temperatures in [lo,hi], no
   evaporative flux) started from a field in [lo,hi] keeps every temperature in [lo,hi] and every ice fraction in
   [0, water fraction]; hi is at least T_eq_l (post-nucleation temperatures lie strictly between the nucleation
   temperature and T_eq_l).  All hypotheses are inequalities between the constants of the run. *)
Theorem C07_1D_run_bounds :
  forall (P : @p1d R) (lo hi cmin lmin lmax : R),
  0 < q_dz P -> 0 < q_dt P -> 0 < q_rho P -> 0 < q_lam0 P -> 0 <= q_K P ->
  0 <= q_alpha0 P * q_dt P / (q_dz P * q_dz P) -> 2 * (q_alpha0 P * q_dt P / (q_dz P * q_dz P)) <= 1 ->
  q_alpha0 P * q_dt P / (q_dz P * q_dz P) * (1 + q_K P * q_dz P / q_lam0 P) <= 1 ->
  q_mass P = q_mw P + q_ms P -> 0 < q_mw P -> 0 < q_ms P -> 0 < q_kf P -> 0 < q_Ms P -> 0 < q_cp0 P -> 0 < q_Dh P -> 0 < q_V P ->
  q_Teql P = q_Tm P - q_ms P * (q_kf P / q_Ms P) / q_mw P -> q_Teql P <= hi ->
  0 < cmin -> cmin <= cp_of Rops P 0 -> cmin <= cp_of Rops P (q_mw P / q_mass P) ->
  0 < lmin -> lmin <= lam_of Rops P 0 <= lmax -> lmin <= lam_of Rops P (q_mw P / q_mass P) <= lmax ->
  2 * q_dt P * lmax <= cmin * q_rho P * (q_dz P * q_dz P) -> lmax - lmin <= 4 * lmin -> q_K P * q_dz P <= lmin ->
  forall ops s, Inv P lo hi s -> List.Forall (shelf_ok lo hi) ops -> Inv P lo hi (fold_left (apply1 P) ops s).
Proof. intros. apply (run_bounds_from_constants P lo hi cmin lmin lmax); assumption. Qed.
Print Assumptions C07_1D_run_bounds.

(* homogeneous (0D) model: a cooling step and a solidification step move the temperature towards the shelf temperature
   and never beyond it (so it stays between the initial temperature and the coldest shelf temperature applied so far) *)
Theorem C07_0D_steps_stay_between_product_and_shelf :
  forall (P : @p1d R) area Tsh T w,
  (0 < q_cp0 P * q_mass P -> 0 <= q_dt P * (area * q_K P) <= q_cp0 P * q_mass P ->
     Rmin T Tsh <= cool0 Rops P area Tsh T <= Rmax T Tsh)
  /\ (let cp := q_cps P * (q_ms P / q_mass P) + q_cpi P * w + q_cpw P * (1 - q_ms P / q_mass P - w) in
      0 < cp * q_rho P * q_V P -> 0 <= q_Dh P * q_kf P * q_ms P / q_Ms P -> T <> q_Tm P ->
      0 <= q_dt P * (area * q_K P) <= cp * q_rho P * q_V P ->
      Rmin T Tsh <= fst (solid0 Rops P area Tsh T w) <= Rmax T Tsh).
Proof. intros. split; [apply cool0_between|apply solid0_between]. Qed.
Print Assumptions C07_0D_steps_stay_between_product_and_shelf.

(* 0D, any number of solidification steps: temperature in [lo, hi] with hi <= T_eq_l, ice fraction in [0, water fraction] *)
Theorem C07_0D_solidification_run_bounds :
  forall (P : @p1d R) area lo hi, 0 < q_mass P -> 0 < q_mw P -> 0 < q_ms P * (q_kf P / q_Ms P) ->
  q_Teql P = q_Tm P - q_ms P * (q_kf P / q_Ms P) / q_mw P -> hi <= q_Teql P -> 0 <= q_Dh P * q_kf P * q_ms P / q_Ms P ->
  (forall w, 0 <= w <= q_mw P / q_mass P ->
     0 < (q_cps P * (q_ms P / q_mass P) + q_cpi P * w + q_cpw P * (1 - q_ms P / q_mass P - w)) * q_rho P * q_V P
     /\ 0 <= q_dt P * (area * q_K P) <= (q_cps P * (q_ms P / q_mass P) + q_cpi P * w + q_cpw P * (1 - q_ms P / q_mass P - w)) * q_rho P * q_V P) ->
  forall shelf s, inv0 P lo hi s -> List.Forall (fun Tsh => lo <= Tsh <= hi) shelf -> inv0 P lo hi (fold_left (step0 P area) shelf s).
Proof. intros. apply zeroD_solid_run_bounds; assumption. Qed.
Print Assumptions C07_0D_solidification_run_bounds.

(* 2D solidification stage, ANY step (any grid and ice field, any shelf temperature, any evaporative flux, inside or outside
   the vacuum window, in-place or simultaneous sweep): the reported ice field is related point by point to the new
   temperature field - at or above T_eq_l no ice, below it a positive ice fraction on the liquidus, everywhere below the
   water mass fraction m_w/(m_w+m_s) *)
Theorem C07_2D_ice_field_on_liquidus :
  forall (P : @p2d R), 0 < s_mw P -> 0 <= s_ms P -> 0 < s_ms P * (s_kf P / s_Ms P) ->
  s_Teql P = s_Tm P - s_ms P * (s_kf P / s_Ms P) / s_mw P ->
  forall (Nz Nr : nat) (rr : list R) inplace visf t tstart tdur dHe (g w : @grid R) Tsh fluxes,
  let r := solid_step2_t Rops P Nz Nr rr inplace visf t tstart tdur dHe g w Tsh fluxes in
  Forall2 (Forall2 (fun T wi =>
     0 <= wi < s_mw P / (s_mw P + s_ms P) /\ (s_Teql P <= T -> wi = 0)
     /\ (T < s_Teql P -> 0 < wi /\ wi = (s_mw P - s_ms P * (s_kf P / s_Ms P) / (s_Tm P - T)) / (s_mw P + s_ms P))))
    (fst r) (snd r).
Proof. intros. apply solid_step2_t_ice_field; assumption. Qed.
Print Assumptions C07_2D_ice_field_on_liquidus.

(* its hypotheses are satisfiable (5 % solute) and both branches occur *)
Example C07_2D_ice_field_nonvacuous :
  let P := MkP2 1 1 1 1 1 1 1  1 1 1 0 1 1  1 2 1 1 1 19 1  0 (- (2 / 19)) in
  0 < s_mw P /\ 0 <= s_ms P /\ 0 < s_ms P * (s_kf P / s_Ms P) /\ s_Teql P = s_Tm P - s_ms P * (s_kf P / s_Ms P) / s_mw P
  /\ ice2 Rops P (-1) = 17 / 20 /\ ice2 Rops P (- (2 / 19)) = 0.
Proof. exact ice2_nonvacuous. Qed.
