(* C16  Vial position groups partition the batch and mean the same everywhere. *)
From Coq Require Import ZArith List Bool.
From Snow Require Import Topology Groups GroupsProofs.
Import ListNotations.
Local Open Scope Z_scope.

(* every vial of a batch with >= 2 vials along x and y (flat or pallet) has an exposure count
   between 0 and the value the code calls 'corner' ... *)
Theorem C16_exposure_range :
  forall a nx ny nz, 2 <= nx -> 2 <= ny -> 1 <= nz ->
  forall i, 0 <= i < nvials nx ny nz -> 0 <= vial_ext a nx ny nz i <= corner_val a nz.
Proof. intros; apply batch_ext_range; assumption. Qed.
Print Assumptions C16_exposure_range.

(* ... hence belongs to exactly one position class, determined by its number of exposed faces:
   a group query (other than 'all') contains the vial iff the group names that class *)
Theorem C16_partition :
  forall a nx ny nz, 2 <= nx -> 2 <= ny -> 1 <= nz ->
  forall i, 0 <= i < nvials nx ny nz ->
  let e := vial_ext a nx ny nz i in
  exists c, class_of_ext a nz e = Some c /\
    forall g, g <> All -> (in_group a nz g e = true <-> group_class a nz g = Some c).
Proof.
  intros a nx ny nz Hx Hy Hz i Hi e.
  assert (He := batch_ext_range a nx ny nz Hx Hy Hz i Hi). fold e in He.
  destruct (class_total a nz e He) as [c Hc]. exists c; split; [exact Hc|].
  intros g Hg. rewrite <- Hc. apply in_group_iff_class; assumption.
Qed.
Print Assumptions C16_partition.

(* 'all' is the union of the four classes *)
Theorem C16_all_is_union :
  forall a nx ny nz, 2 <= nx -> 2 <= ny -> 1 <= nz ->
  forall i, 0 <= i < nvials nx ny nz ->
  in_group a nz All (vial_ext a nx ny nz i)
  = in_groups a nz [Corner; Edge; Side; Core] (vial_ext a nx ny nz i).
Proof. intros; apply all_is_union, batch_ext_range; assumption. Qed.
Print Assumptions C16_all_is_union.

(* the statistics table and the trajectory table give the vial the label of that same class *)
Theorem C16_table_labels_agree :
  forall a nx ny nz, 2 <= nx -> 2 <= ny -> 1 <= nz ->
  forall i, 0 <= i < nvials nx ny nz ->
  let e := vial_ext a nx ny nz i in
  class_of_label (label_stats a nz e) = class_of_ext a nz e
  /\ class_of_label (label_traj a nz e) = class_of_ext a nz e.
Proof. intros; apply labels_are_classes, batch_ext_range; assumption. Qed.
Print Assumptions C16_table_labels_agree.

(* side is a synonym of edge on a flat shelf and in hexagonal packing *)
Theorem C16_side_synonym :
  forall a nz e, a = Hexagonal \/ nz = 1 -> in_group a nz Side e = in_group a nz Edge e.
Proof. exact side_is_edge. Qed.
Print Assumptions C16_side_synonym.

Example C16_nonvacuous :
  map (fun i => class_of_ext Square 1 (vial_ext Square 3 3 1 i)) [0; 1; 4]
  = [Some PCorner; Some PEdge; Some PCore]
  /\ class_of_ext Square 2 (vial_ext Square 3 3 2 4) = Some PSide.
Proof. vm_compute. split; reflexivity. Qed.
