(* C05  Sampled shelf temperature is the programmed cooling protocol.
   Statements over the real-number instance of model/OpCond.v (profile = tempProfile(dt)).
   Hypotheses = the programs the property quantifies over: positive rate, step and total time,
   end <= every hold temperature <= start (durations are unconstrained in S1-S5, S8). *)
From Coq Require Import Reals ZArith List Permutation Lra.
From Snow Require Import Num NumR OpCond OpCondProofs.
Import ListNotations.
Local Open Scope R_scope.

Definition program_ok (start endT cr dt ttot : R) (holds : list (@hold R)) : Prop :=
  0 < cr /\ 0 < dt /\ 0 < ttot /\ endT <= start /\ Forall (fun h => endT <= h_temp h <= start) holds.

(* S1 / S9: exactly one value per simulation step, ceil(t_tot/dt)+1 of them: every simulator can
   step through the profile to the end of the process *)
Theorem C05_S1_one_sample_per_step : forall start endT cr dt ttot holds,
  program_ok start endT cr dt ttot holds ->
  length (rprofile start endT cr dt ttot holds) = Z.to_nat (Rceil (ttot / dt) + 1).
Proof. intros * (H1 & H2 & H3 & H4 & H5). apply profile_length; assumption. Qed.
Print Assumptions C05_S1_one_sample_per_step.

(* S2: starts at the start temperature *)
Theorem C05_S2_starts_at_start : forall start endT cr dt ttot holds,
  program_ok start endT cr dt ttot holds ->
  hd endT (rprofile start endT cr dt ttot holds) = start.
Proof. intros * (H1 & H2 & H3 & H4 & H5). apply profile_head; assumption. Qed.
Print Assumptions C05_S2_starts_at_start.

(* S3 + S4: never rises, never falls faster than the cooling rate *)
Theorem C05_S3_S4_monotone_rate_limited : forall start endT cr dt ttot holds,
  program_ok start endT cr dt ttot holds ->
  forall i, (S i < length (rprofile start endT cr dt ttot holds))%nat ->
  let p := rprofile start endT cr dt ttot holds in
  0 <= nth i p 0 - nth (S i) p 0 <= cr * dt.
Proof.
  intros * (H1 & H2 & H3 & H4 & H5) i Hi. cbv zeta.
  apply (chain_from_nth (cr * dt) start). apply profile_chain; assumption. exact Hi.
Qed.
Print Assumptions C05_S3_S4_monotone_rate_limited.

(* S5: stays between end and start temperature *)
Theorem C05_S5_range : forall start endT cr dt ttot holds,
  program_ok start endT cr dt ttot holds ->
  Forall (fun x => endT <= x <= start) (rprofile start endT cr dt ttot holds).
Proof. intros * (H1 & H2 & H3 & H4 & H5). apply profile_range; assumption. Qed.
Print Assumptions C05_S5_range.

(* S8: independent of the listed order of the holds -- for pairwise distinct hold temperatures
   (for equal temperatures the implementation IS order dependent: known finding, see DESIGN.md) *)
Theorem C05_S8_order_independent_distinct_temps : forall start endT cr dt ttot holds holds',
  Permutation holds holds' -> NoDup (map h_temp holds) ->
  rprofile start endT cr dt ttot holds = rprofile start endT cr dt ttot holds'.
Proof. exact profile_order_independent. Qed.
Print Assumptions C05_S8_order_independent_distinct_temps.

(* S6 (partial: per hold, before truncation): a hold of duration d contributes p plateau samples,
   d/dt - 1 < p < d/dt + 1 (the following ramp's first sample repeats the hold temperature once more) *)
Theorem C05_S6_dwell_partial : forall cr dt Ts Th d, 0 < cr -> 0 < dt -> 0 <= d ->
  d / dt - 1 < INR (length (rplateau Ts Th cr dt d)) < d / dt + 1.
Proof. intros; apply plateau_length_bounds; assumption. Qed.
Print Assumptions C05_S6_dwell_partial.

(* S7 (partial: per ramp segment): a ramp needing time t is sampled m times, t/dt <= m < t/dt + 1,
   and its k-th sample lies exactly on the programmed line at local time k dt; the composition over
   segments (time offsets adding up to at most one step per segment) is checked by the oracle only *)
Theorem C05_S7_ramp_partial : forall cr dt Ts Te, 0 < cr -> 0 < dt -> Te <= Ts ->
  ((Ts - Te) / cr / dt <= INR (length (rramp Ts Te cr dt)) < (Ts - Te) / cr / dt + 1)
  /\ forall k, (k < length (rramp Ts Te cr dt))%nat ->
       nth k (rramp Ts Te cr dt) 0 = Ts - cr * (INR k * dt).
Proof.
  intros cr dt Ts Te Hcr Hdt Hle. split.
  - apply ramp_length_bounds; assumption.
  - intros k Hk. apply ramp_on_line; assumption.
Qed.
Print Assumptions C05_S7_ramp_partial.

(* S6 + S7 composed over the program: after k (ramp, hold) pairs in descending order the number of samples lies within one
   step per program segment (k ramps, k plateaus) of the continuous program time: tau/dt - k <= N <= tau/dt + 2k *)
Theorem C05_S6_S7_composed_over_segments : forall cr dt, 0 < cr -> 0 < dt ->
  forall hs Ts, desc_from Ts hs -> Forall (fun h => 0 <= h_dur h) hs ->
  ctime cr Ts hs / dt - INR (length hs) <= INR (length (segments Rops Ts cr dt hs)) <= ctime cr Ts hs / dt + 2 * INR (length hs).
Proof. intros; apply segments_length_bounds; assumption. Qed.
Print Assumptions C05_S6_S7_composed_over_segments.

(* non-vacuity: the default program with a one-hour hold at -10 C meets the hypotheses *)
Example C05_nonvacuous : program_ok 20 (-50) (1 / 120) 2 20000 [MkHold (-10) 3600].
Proof.
  unfold program_ok. repeat split; try lra.
  constructor; [cbn; lra|constructor].
Qed.
