(* The real-number instance: what the theorems are about. *)
From Coq Require Import Reals ZArith Lra Lia.
From Snow Require Import Num.
Local Open Scope R_scope.

Definition Rltb (x y : R) : bool := if Rlt_dec x y then true else false.
Definition Rleb (x y : R) : bool := if Rle_dec x y then true else false.
Definition Reqb (x y : R) : bool := if Req_EM_T x y then true else false.
(* ceil x = - floor (-x); Coq's up x is the integer with  up x - 1 <= x < up x, i.e. floor x + 1 *)
Definition Rfloor (x : R) : Z := (up x - 1)%Z.
Definition Rceil (x : R) : Z := (- Rfloor (- x))%Z.

Definition Rfmod (x y : R) : R := x - y * IZR (Rfloor (x / y)).

Definition Rops : NumOps R :=
  MkNumOps R Rplus Rminus Rmult Rdiv Ropp sqrt Rltb Rleb Reqb IZR Rceil Rfloor Rfmod.

Lemma Rltb_true x y : Rltb x y = true <-> x < y.
Proof. unfold Rltb; destruct (Rlt_dec x y); split; intros; try easy; lra. Qed.
Lemma Rltb_false x y : Rltb x y = false <-> y <= x.
Proof. unfold Rltb; destruct (Rlt_dec x y); split; intros; try easy; lra. Qed.
Lemma Rleb_true x y : Rleb x y = true <-> x <= y.
Proof. unfold Rleb; destruct (Rle_dec x y); split; intros; try easy; lra. Qed.
Lemma Rleb_false x y : Rleb x y = false <-> y < x.
Proof. unfold Rleb; destruct (Rle_dec x y); split; intros; try easy; lra. Qed.
Lemma Reqb_true x y : Reqb x y = true <-> x = y.
Proof. unfold Reqb; destruct (Req_EM_T x y); split; intros; try easy. Qed.

Lemma Rfloor_spec x : IZR (Rfloor x) <= x < IZR (Rfloor x) + 1.
Proof.
  unfold Rfloor. destruct (archimed x) as [H1 H2]. rewrite minus_IZR. lra.
Qed.
Lemma Rfloor_unique x z : IZR z <= x < IZR z + 1 -> Rfloor x = z.
Proof.
  intros [H1 H2]. destruct (Rfloor_spec x) as [H3 H4].
  assert (IZR (Rfloor x) < IZR z + 1) by lra.
  assert (IZR z < IZR (Rfloor x) + 1) by lra.
  rewrite <- plus_IZR in *. apply lt_IZR in H, H0. lia.
Qed.
Lemma Rceil_spec x : IZR (Rceil x) - 1 < x <= IZR (Rceil x).
Proof.
  unfold Rceil. destruct (Rfloor_spec (- x)) as [H1 H2]. rewrite opp_IZR. lra.
Qed.
Lemma Rceil_unique x z : IZR z - 1 < x <= IZR z -> Rceil x = z.
Proof.
  intros [H1 H2]. unfold Rceil.
  rewrite (Rfloor_unique (- x) (- z)%Z); [lia|]. rewrite opp_IZR. lra.
Qed.
Lemma Rceil_IZR z : Rceil (IZR z) = z.
Proof. apply Rceil_unique; lra. Qed.
Lemma Rceil_le x z : x <= IZR z -> (Rceil x <= z)%Z.
Proof.
  intros H. destruct (Rceil_spec x) as [H1 _].
  assert (IZR (Rceil x) < IZR z + 1) by lra. rewrite <- plus_IZR in H0. apply lt_IZR in H0. lia.
Qed.
Lemma Rceil_ge x z : IZR z < x + 1 -> (z <= Rceil x)%Z.
Proof.
  intros H. destruct (Rceil_spec x) as [_ H1].
  assert (IZR z < IZR (Rceil x) + 1) by lra. rewrite <- plus_IZR in H0. apply lt_IZR in H0. lia.
Qed.

Lemma Rfmod_range x y : 0 < y -> 0 <= Rfmod x y < y.
Proof.
  intros Hy. unfold Rfmod. destruct (Rfloor_spec (x / y)) as [H1 H2].
  assert (E : x = y * (x / y)) by (field; lra).
  split.
  - apply Rmult_le_compat_l with (r := y) in H1; lra.
  - apply Rmult_lt_compat_l with (r := y) in H2; lra.
Qed.
