(* The IEEE binary64 instance (Coq primitive floats): what is executed against the
   implementation under vm_compute.  Nothing is proved about it. *)
From Coq Require Import ZArith Uint63 PrimFloat FloatOps SpecFloat.
From Snow Require Import Num.

Definition F_ofZ (z : Z) : float :=
  match z with
  | Z0 => PrimFloat.zero
  | Zpos _ => PrimFloat.of_uint63 (Uint63.of_Z z)
  | Zneg p => PrimFloat.opp (PrimFloat.of_uint63 (Uint63.of_Z (Zpos p)))
  end.

(* exact integer part via the specification view *)
Definition F_floor (x : float) : Z :=
  match Prim2SF x with
  | S754_zero _ => 0
  | S754_finite s m e =>
      let mz := Zpos m in
      let v := if (0 <=? e)%Z then (mz * 2 ^ e)%Z else (mz / 2 ^ (- e))%Z in
      let exact := if (0 <=? e)%Z then true else (mz mod 2 ^ (- e) =? 0)%Z in
      if s then (if exact then - v else - v - 1)%Z else v
  | _ => 0
  end.
Definition F_ceil (x : float) : Z := (- F_floor (PrimFloat.opp x))%Z.

(* exact value of a finite float as  m * 2^e  (m signed) *)
Definition F_decode (x : float) : option (Z * Z) :=
  match Prim2SF x with
  | S754_zero _ => Some (0, 0)%Z
  | S754_finite s m e => Some (if s then Zneg m else Zpos m, e)
  | _ => None
  end.
Definition F_ofZ_big (z : Z) : float :=
  if (Z.abs z <? 2 ^ 62)%Z then F_ofZ z
  else PrimFloat.add (PrimFloat.mul (F_ofZ (z / 2 ^ 32)) (F_ofZ (2 ^ 32))) (F_ofZ (z mod 2 ^ 32)).
(* python's float % for a positive divisor: exact remainder with the sign of the divisor *)
Definition F_fmod (x y : float) : float :=
  match F_decode x, F_decode y with
  | Some (mx, ex), Some (my, ey) =>
      if (my =? 0)%Z then PrimFloat.nan else
      let e := Z.min ex ey in
      let X := (mx * 2 ^ (ex - e))%Z in
      let Y := (my * 2 ^ (ey - e))%Z in
      Z.ldexp (F_ofZ_big (X mod Y)) e
  | _, _ => PrimFloat.nan
  end.

Definition Fops : NumOps float :=
  MkNumOps float PrimFloat.add PrimFloat.sub PrimFloat.mul PrimFloat.div PrimFloat.opp
    PrimFloat.sqrt PrimFloat.ltb PrimFloat.leb PrimFloat.eqb F_ofZ F_ceil F_floor F_fmod.

(* helpers for correspondence files *)
Definition Fabs (x : float) : float := PrimFloat.abs x.
Definition Fclose (rtol atol a b : float) : bool :=
  PrimFloat.leb (Fabs (PrimFloat.sub a b))
                (PrimFloat.add atol (PrimFloat.mul rtol (Fabs b))).
Definition Fnan (x : float) : bool := negb (PrimFloat.eqb x x).
