(* The IEEE binary64 instance (Coq primitive floats): what is executed against the
   implementation under vm_compute.  Nothing is proved about it. *)
From Coq Require Import ZArith Uint63 PrimFloat FloatOps SpecFloat.
From Snow Require Import Num.

Definition F_ofZ (z : Z) : float :=
  match z with
  | Z0 => PrimFloat.zero
  | Zpos _ => PrimFloat.of_uint63 (Uint63.of_Z z)
  | Zneg p => PrimFloat.opp (PrimFloat.of_uint63 (Uint63.of_Z (Zpos p)))
  end.

(* exact integer part via the specification view *)
Definition F_floor (x : float) : Z :=
  match Prim2SF x with
  | S754_zero _ => 0
  | S754_finite s m e =>
      let mz := Zpos m in
      let v := if (0 <=? e)%Z then (mz * 2 ^ e)%Z else (mz / 2 ^ (- e))%Z in
      let exact := if (0 <=? e)%Z then true else (mz mod 2 ^ (- e) =? 0)%Z in
      if s then (if exact then - v else - v - 1)%Z else v
  | _ => 0
  end.
Definition F_ceil (x : float) : Z := (- F_floor (PrimFloat.opp x))%Z.

Definition Fops : NumOps float :=
  MkNumOps float PrimFloat.add PrimFloat.sub PrimFloat.mul PrimFloat.div PrimFloat.opp
    PrimFloat.sqrt PrimFloat.ltb PrimFloat.leb PrimFloat.eqb F_ofZ F_ceil F_floor.

(* helpers for correspondence files *)
Definition Fabs (x : float) : float := PrimFloat.abs x.
Definition Fclose (rtol atol a b : float) : bool :=
  PrimFloat.leb (Fabs (PrimFloat.sub a b))
                (PrimFloat.add atol (PrimFloat.mul rtol (Fabs b))).
Definition Fnan (x : float) : bool := negb (PrimFloat.eqb x x).
