(* Proofs about the sampled shelf-temperature profile (model/OpCond.v at the real instance). *)
From Coq Require Import Reals ZArith Lra Lia List Bool.
From Snow Require Import Num NumR OpCond.
Import ListNotations.
Local Open Scope R_scope.

Notation rramp := (ramp Rops).
Notation rplateau := (plateau Rops).
Notation rsegments := (segments Rops).
Notation rprofile := (profile Rops).
Notation rraw := (raw_profile Rops).
Notation rsort := (sort_holds Rops).

(* each element is at most [prev], drops by at most D from its predecessor *)
Fixpoint chain_from (D prev : R) (l : list R) : Prop :=
  match l with
  | [] => True
  | x :: r => 0 <= prev - x <= D /\ chain_from D x r
  end.

Lemma last_cons_default {T} (a : T) l d : last (a :: l) d = last l a.
Proof.
  revert a d; induction l as [|b l IH]; intros a d; [reflexivity|].
  change (last (a :: b :: l) d) with (last (b :: l) d). rewrite !IH. reflexivity.
Qed.

Lemma last_app_default {T} (l1 l2 : list T) d : last (l1 ++ l2) d = last l2 (last l1 d).
Proof.
  revert d; induction l1 as [|a l IH]; intros d; [reflexivity|].
  cbn [app]. rewrite !last_cons_default. apply IH.
Qed.

Lemma chain_from_app D p l1 l2 :
  chain_from D p (l1 ++ l2) <-> chain_from D p l1 /\ chain_from D (last l1 p) l2.
Proof.
  revert p; induction l1 as [|a l IH]; intros p; cbn [app chain_from].
  - cbn. tauto.
  - rewrite IH, last_cons_default. tauto.
Qed.

Lemma In_firstn {T} n (l : list T) x : In x (firstn n l) -> In x l.
Proof. intros H. rewrite <- (firstn_skipn n l). apply in_or_app; left; exact H. Qed.

Lemma chain_from_firstn D p l n : chain_from D p l -> chain_from D p (firstn n l).
Proof.
  revert p l; induction n as [|n IH]; intros p l H; [exact I|].
  destruct l as [|a l]; [exact I|]. cbn [firstn chain_from] in *. destruct H; split; auto.
Qed.

Lemma chain_from_le D p l : 0 <= D -> chain_from D p l -> Forall (fun x => x <= p) l.
Proof.
  intros HD. revert p; induction l as [|a l IH]; intros p H; constructor.
  - cbn in H. lra.
  - cbn in H. destruct H as [H1 H2]. specialize (IH a H2).
    eapply Forall_impl; [|exact IH]. cbn; intros; lra.
Qed.

Lemma last_in_or_default {T} (l : list T) d : l = [] /\ last l d = d \/ In (last l d) l.
Proof.
  induction l as [|a l IH]; [left; auto|right].
  destruct l as [|b l']; [left; reflexivity|].
  destruct IH as [[E _]|IH]; [discriminate|]. right. exact IH.
Qed.

Lemma iota_from_S n : forall s, iota_from (S n) s = iota_from n s ++ [(s + Z.of_nat n)%Z].
Proof.
  induction n as [|n IH]; intros s.
  - cbn. rewrite Z.add_0_r. reflexivity.
  - change (iota_from (S (S n)) s) with (s :: iota_from (S n) (s + 1)%Z).
    rewrite IH. cbn [iota_from app]. do 2 f_equal. f_equal. lia.
Qed.
Lemma iota_S n : iota (S n) = iota n ++ [Z.of_nat n].
Proof. unfold iota. rewrite iota_from_S. reflexivity. Qed.
Lemma iota_length n : length (iota n) = n.
Proof. induction n as [|n IH]; [reflexivity|]. rewrite iota_S, app_length, IH. cbn. lia. Qed.

Lemma In_iota n k : In k (iota n) <-> (0 <= k < Z.of_nat n)%Z.
Proof.
  induction n as [|n IH]; [cbn; split; [intros []|lia]|].
  rewrite iota_S, in_app_iff, IH. cbn [In]. lia.
Qed.

Section Profile.
  Variables cr dt : R.
  Hypothesis Hcr : 0 < cr.
  Hypothesis Hdt : 0 < dt.
  Let D := cr * dt.

  Lemma D_pos : 0 < D. Proof. unfold D. apply Rmult_lt_0_compat; assumption. Qed.

  Definition rampf (Ts : R) (k : Z) : R := Ts - IZR k * dt * cr.
  Definition ramp_len (Ts Te : R) : nat := Z.to_nat (Rceil ((Ts - Te) / cr / dt)).

  Lemma ramp_unfold Ts Te : rramp Ts Te cr dt = map (rampf Ts) (iota (ramp_len Ts Te)).
  Proof. reflexivity. Qed.

  Lemma ramp_elem_bounds Ts Te x : In x (rramp Ts Te cr dt) -> Te < x <= Ts.
  Proof.
    rewrite ramp_unfold, in_map_iff. intros (k & <- & Hk). apply In_iota in Hk.
    unfold ramp_len in Hk. unfold rampf.
    set (v := (Ts - Te) / cr / dt) in *.
    assert (Hm : (0 < Rceil v)%Z) by lia. rewrite Z2Nat.id in Hk by lia.
    destruct (Rceil_spec v) as [Hv _].
    assert (IZR k <= IZR (Rceil v) - 1) by (rewrite <- minus_IZR; apply IZR_le; lia).
    assert (Hk0 : 0 <= IZR k) by (apply IZR_le; lia).
    assert (Hlt : IZR k < v) by lra.
    assert (E : Ts - Te = v * dt * cr) by (unfold v; field; lra).
    assert (0 <= IZR k * dt * cr) by (apply Rmult_le_pos; [apply Rmult_le_pos|]; lra).
    assert (IZR k * dt * cr < v * dt * cr).
    { apply Rmult_lt_compat_r; [lra|]. apply Rmult_lt_compat_r; lra. }
    lra.
  Qed.

  Lemma ramp_chain Ts Te : forall p, 0 <= p - Ts <= D ->
    chain_from D p (rramp Ts Te cr dt).
  Proof.
    rewrite ramp_unfold. generalize (ramp_len Ts Te) as m.
    induction m as [|m IH]; intros p Hp; [exact I|].
    rewrite iota_S, map_app, chain_from_app. split; [apply IH; assumption|].
    cbn [map chain_from]. split; [|exact I].
    destruct m as [|m'].
    - cbn. unfold rampf. cbn. lra.
    - rewrite iota_S, map_app. cbn [map]. rewrite last_last.
      unfold rampf. rewrite !Nat2Z.inj_succ, !succ_IZR. assert (HD := D_pos). unfold D in *. lra.
  Qed.

  Lemma ramp_last Ts Te p : Te <= Ts -> 0 <= p - Ts <= D ->
    0 <= last (rramp Ts Te cr dt) p - Te <= D.
  Proof.
    intros Hle Hp. rewrite ramp_unfold. unfold ramp_len.
    set (v := (Ts - Te) / cr / dt).
    assert (E : Ts - Te = v * dt * cr) by (unfold v; field; lra).
    assert (Hv0 : 0 <= v).
    { unfold v. apply Rmult_le_pos; [apply Rmult_le_pos|]; try lra; left; apply Rinv_0_lt_compat; lra. }
    destruct (Z.to_nat (Rceil v)) as [|m] eqn:Em.
    - cbn. assert (Rceil v <= 0)%Z by lia. destruct (Rceil_spec v) as [_ Hc].
      assert (IZR (Rceil v) <= 0) by (apply IZR_le; assumption).
      assert (v = 0) by lra. assert (Ts - Te = 0) by (rewrite E, H1; ring). lra.
    - rewrite iota_S, map_app. cbn [map]. rewrite last_last. unfold rampf.
      assert (Hm : Rceil v = Z.of_nat (S m)) by lia.
      destruct (Rceil_spec v) as [Hc1 Hc2]. rewrite Hm, Nat2Z.inj_succ, succ_IZR in Hc1, Hc2.
      assert (0 <= (v - IZR (Z.of_nat m)) * (dt * cr) <= 1 * (dt * cr)).
      { split; [apply Rmult_le_pos; [lra|apply Rmult_le_pos; lra]|].
        apply Rmult_le_compat_r; [apply Rmult_le_pos; lra|lra]. }
      unfold D. lra.
  Qed.

  Lemma plateau_unfold Ts Th dur :
    exists n, rplateau Ts Th cr dt dur = repeat Th n.
  Proof. eexists; reflexivity. Qed.

  Lemma repeat_chain Th n p : 0 <= p - Th <= D -> chain_from D p (repeat Th n).
  Proof.
    intros Hp. destruct n as [|n]; [exact I|]. cbn [repeat chain_from]. split; [assumption|].
    assert (HD := D_pos). induction n as [|n IH]; [exact I|]. cbn [repeat chain_from]. split; [lra|exact IH].
  Qed.

  Lemma repeat_last Th n p : 0 <= p - Th <= D -> 0 <= last (repeat Th n) p - Th <= D.
  Proof.
    intros Hp. destruct (last_in_or_default (repeat Th n) p) as [[_ ->]|H]; [assumption|].
    apply repeat_spec in H. rewrite H. assert (HD := D_pos). lra.
  Qed.

  (* the hold temperatures are listed in non-increasing order below Ts, all >= lo *)
  Fixpoint desc_from (Ts : R) (hs : list (@hold R)) : Prop :=
    match hs with [] => True | h :: r => h_temp h <= Ts /\ desc_from (h_temp h) r end.
  Definition last_temp (Ts : R) (hs : list (@hold R)) : R := last (map h_temp hs) Ts.

  Lemma last_temp_cons Ts h r : last_temp Ts (h :: r) = last_temp (h_temp h) r.
  Proof. unfold last_temp. cbn [map]. apply last_cons_default. Qed.

  Lemma last_temp_le Ts hs : desc_from Ts hs -> last_temp Ts hs <= Ts.
  Proof.
    revert Ts; induction hs as [|h r IH]; intros Ts H; [cbn; lra|].
    rewrite last_temp_cons. destruct H as [H1 H2]. specialize (IH _ H2). lra.
  Qed.

  Lemma segments_chain hs : forall Ts p, desc_from Ts hs -> 0 <= p - Ts <= D ->
    chain_from D p (rsegments Ts cr dt hs)
    /\ 0 <= last (rsegments Ts cr dt hs) p - last_temp Ts hs <= D
    /\ Forall (fun x => last_temp Ts hs <= x) (rsegments Ts cr dt hs).
  Proof.
    induction hs as [|h r IH]; intros Ts p Hd Hp.
    - cbn. repeat split; try lra. constructor.
    - destruct Hd as [Hle Hd]. cbn [segments]. rewrite last_temp_cons.
      destruct (plateau_unfold Ts (h_temp h) (h_dur h)) as [n ->].
      assert (C1 := ramp_chain Ts (h_temp h) p Hp).
      assert (L1 := ramp_last Ts (h_temp h) p Hle Hp).
      set (q1 := last (rramp Ts (h_temp h) cr dt) p) in *.
      assert (C2 := repeat_chain (h_temp h) n q1 L1).
      assert (L2 := repeat_last (h_temp h) n q1 L1).
      set (q2 := last (repeat (h_temp h) n) q1) in *.
      destruct (IH (h_temp h) q2 Hd L2) as (C3 & L3 & F3).
      assert (LT := last_temp_le _ _ Hd).
      repeat split.
      + rewrite !chain_from_app. fold q1. fold q2. tauto.
      + rewrite !last_app_default. fold q1. fold q2. apply L3.
      + rewrite !last_app_default. fold q1. fold q2. apply L3.
      + rewrite !Forall_app. repeat split.
        * apply Forall_forall. intros x Hx. apply ramp_elem_bounds in Hx. lra.
        * apply Forall_forall. intros x Hx. apply repeat_spec in Hx. lra.
        * exact F3.
  Qed.
End Profile.

(* ---- the holding setter's sort ------------------------------------------------------ *)
Lemma In_insert_desc x h l : In x (insert_desc Rops h l) <-> x = h \/ In x l.
Proof.
  induction l as [|y r IH]; cbn [insert_desc In]; [intuition congruence|].
  destruct (nleb Rops (h_temp y) (h_temp h)); cbn [In]; [intuition congruence|].
  rewrite IH. intuition congruence.
Qed.

Lemma In_sort_holds x l : In x (rsort l) <-> In x l.
Proof.
  induction l as [|h r IH]; cbn [sort_holds fold_right In]; [tauto|].
  change (fold_right (insert_desc Rops) [] r) with (rsort r).
  rewrite In_insert_desc, IH. intuition congruence.
Qed.

Lemma insert_desc_from Ts h l :
  desc_from Ts l -> h_temp h <= Ts -> desc_from Ts (insert_desc Rops h l).
Proof.
  revert Ts; induction l as [|x r IH]; intros Ts Hd Hh; cbn [insert_desc].
  - cbn. auto.
  - destruct Hd as [Hx Hd]. cbn [nleb Rops].
    destruct (Rleb (h_temp x) (h_temp h)) eqn:E.
    + apply Rleb_true in E. cbn [desc_from]. auto.
    + apply Rleb_false in E. cbn [desc_from]. split; [assumption|]. apply IH; [assumption|lra].
Qed.

Lemma sort_desc_from Ts l : Forall (fun h => h_temp h <= Ts) l -> desc_from Ts (rsort l).
Proof.
  induction 1 as [|h r Hh _ IH]; [exact I|].
  cbn [sort_holds fold_right]. apply insert_desc_from; assumption.
Qed.

Lemma desc_from_snoc Ts l e d :
  desc_from Ts l -> Forall (fun h => e <= h_temp h) l -> e <= Ts ->
  desc_from Ts (l ++ [MkHold e d]).
Proof.
  revert Ts; induction l as [|h r IH]; intros Ts Hd Hf He; cbn [app desc_from].
  - cbn. auto.
  - destruct Hd as [H1 H2]. inversion Hf; subst. split; [assumption|]. apply IH; assumption.
Qed.

Lemma last_temp_snoc Ts l e d : last_temp Ts (l ++ [MkHold e d]) = e.
Proof. unfold last_temp. rewrite map_app. cbn [map]. rewrite last_last. reflexivity. Qed.

Lemma iota_head m : exists t, iota (S m) = 0%Z :: t.
Proof.
  induction m as [|m [t IH]]; [exists []; reflexivity|].
  rewrite iota_S, IH. eexists; reflexivity.
Qed.

Section ProfileThms.
  Variables cr dt ttot start endT : R.
  Variable holds : list (@hold R).
  Hypothesis Hcr : 0 < cr.
  Hypothesis Hdt : 0 < dt.
  Hypothesis Htt : 0 < ttot.
  Hypothesis Hse : endT <= start.
  Hypothesis Hholds : Forall (fun h => endT <= h_temp h <= start) holds.
  Let D := cr * dt.
  Let hs := rsort holds ++ [MkHold endT ttot].
  Let raw := rraw start endT cr dt ttot holds.
  Let n := Z.to_nat (nsamples Rops ttot dt).

  Lemma hs_desc : desc_from start hs.
  Proof.
    unfold hs. apply desc_from_snoc; [apply sort_desc_from| |assumption].
    - eapply Forall_impl; [|exact Hholds]. cbn; intros; lra.
    - apply Forall_forall. intros h Hh. rewrite In_sort_holds in Hh.
      rewrite Forall_forall in Hholds. apply Hholds in Hh. lra.
  Qed.

  Lemma raw_facts :
    chain_from D start raw /\ 0 <= last raw start - endT <= D /\ Forall (fun x => endT <= x) raw.
  Proof.
    assert (HD := D_pos cr dt Hcr Hdt).
    assert (H0 : 0 <= start - start <= cr * dt) by lra.
    destruct (segments_chain cr dt Hcr Hdt hs start start hs_desc H0) as (C & L & F).
    unfold hs in L, F. rewrite last_temp_snoc in L, F. fold hs in L, F.
    repeat split; assumption || apply L.
  Qed.

  Lemma n_ge_2 : (2 <= n)%nat.
  Proof.
    unfold n, nsamples. cbn [nceil Rops ndiv].
    assert (0 < ttot / dt) by (apply Rdiv_lt_0_compat; assumption).
    assert (1 <= Rceil (ttot / dt))%Z by (apply Rceil_ge; cbn; lra).
    lia.
  Qed.

  Theorem profile_length : length (rprofile start endT cr dt ttot holds) = n.
  Proof.
    unfold profile. fold raw. fold n. rewrite app_length, repeat_length.
    assert (length (firstn n raw) <= n)%nat by apply firstn_le_length. lia.
  Qed.

  Theorem profile_chain : chain_from D start (rprofile start endT cr dt ttot holds).
  Proof.
    destruct raw_facts as (C & L & F). unfold profile. fold raw. fold n.
    rewrite chain_from_app. split; [apply chain_from_firstn; assumption|].
    destruct (Nat.le_gt_cases n (length (firstn n raw))) as [Hge|Hlt].
    - replace (n - length (firstn n raw))%nat with 0%nat by lia. exact I.
    - assert (firstn n raw = raw) as ->.
      { apply firstn_all2. rewrite firstn_length in Hlt. lia. }
      apply repeat_chain; assumption.
  Qed.

  Theorem profile_range : Forall (fun x => endT <= x <= start) (rprofile start endT cr dt ttot holds).
  Proof.
    assert (HD := D_pos cr dt Hcr Hdt). fold D in HD.
    assert (U := chain_from_le D start _ ltac:(lra) profile_chain).
    destruct raw_facts as (_ & _ & F).
    assert (Lo : Forall (fun x => endT <= x) (rprofile start endT cr dt ttot holds)).
    { unfold profile. fold raw. fold n. apply Forall_app. split.
      - apply Forall_forall. intros x Hx. rewrite Forall_forall in F. apply F.
        eapply In_firstn; eassumption.
      - apply Forall_forall. intros x Hx. apply repeat_spec in Hx. lra. }
    rewrite Forall_forall in *. intros x Hx. split; [apply Lo|apply U]; assumption.
  Qed.

  (* first element of the raw concatenation, when there is one, is the start temperature;
     when there is none every segment is empty and the end temperature equals the start *)
  Lemma segments_head l : forall Ts, desc_from Ts l ->
    match rsegments Ts cr dt l with
    | x :: _ => x = Ts
    | [] => last_temp Ts l = Ts
    end.
  Proof.
    induction l as [|h r IH]; intros Ts Hd; [reflexivity|].
    destruct Hd as [Hle Hd]. cbn [segments]. rewrite last_temp_cons.
    rewrite (ramp_unfold cr dt).
    destruct (ramp_len cr dt Ts (h_temp h)) as [|m] eqn:Em.
    - cbn [iota iota_from map app].
      assert (ETs : h_temp h = Ts).
      { unfold ramp_len in Em. set (v := (Ts - h_temp h) / cr / dt) in *.
        assert (Rceil v <= 0)%Z by lia. destruct (Rceil_spec v) as [_ Hc].
        assert (IZR (Rceil v) <= 0) by (apply IZR_le; assumption).
        assert (0 <= v).
        { unfold v. apply Rmult_le_pos; [apply Rmult_le_pos|]; try lra; left; apply Rinv_0_lt_compat; lra. }
        assert (v = 0) by lra.
        assert (E : Ts - h_temp h = v * dt * cr) by (unfold v; field; lra).
        rewrite H2 in E. lra. }
      destruct (plateau_unfold cr dt Ts (h_temp h) (h_dur h)) as [k ->].
      destruct k as [|k]; cbn [repeat app]; [|exact ETs].
      specialize (IH _ Hd). rewrite ETs in IH |- *. exact IH.
    - destruct (iota_head m) as [t ->]. cbn [map app]. unfold rampf. rewrite Rmult_0_l, Rmult_0_l. lra.
  Qed.

  Theorem profile_head : hd endT (rprofile start endT cr dt ttot holds) = start.
  Proof.
    assert (Hn := n_ge_2). unfold profile. fold raw. fold n.
    assert (H := segments_head hs start hs_desc). fold (rraw start endT cr dt ttot holds) in H.
    unfold raw_profile in *. fold hs in H. unfold raw, raw_profile. fold hs.
    destruct (rsegments start cr dt hs) as [|x r].
    - unfold hs in H. rewrite last_temp_snoc in H.
      destruct n as [|n']; [lia|]. cbn. exact H.
    - destruct n as [|n']; [lia|]. cbn. exact H.
  Qed.
End ProfileThms.

(* ---- readable corollary: adjacent samples ------------------------------------------- *)
Lemma chain_from_nth D p l d : chain_from D p l ->
  forall i, (S i < length l)%nat -> 0 <= nth i l d - nth (S i) l d <= D.
Proof.
  revert p; induction l as [|a l IH]; intros p H i Hi; [cbn in Hi; lia|].
  destruct H as [_ H]. destruct i as [|i].
  - destruct l as [|b l]; [cbn in Hi; lia|]. cbn. cbn in H. tauto.
  - cbn [nth]. apply (IH a H). cbn in Hi. lia.
Qed.

(* ---- per-segment sampling bounds (dwell / agreement with the continuous program) ---- *)
Section Segment.
  Variables cr dt : R.
  Hypothesis Hcr : 0 < cr.
  Hypothesis Hdt : 0 < dt.

  (* a hold of duration d is represented by p plateau samples with d/dt - 1 < p < d/dt + 1 *)
  Lemma plateau_length_bounds Ts Th d : 0 <= d ->
    let p := INR (length (rplateau Ts Th cr dt d)) in d / dt - 1 < p < d / dt + 1.
  Proof.
    intros Hd. unfold plateau. rewrite repeat_length. cbn [nceil nfmod ndiv nsub Rops].
    set (r := Rfmod ((Ts - Th) / cr) dt).
    assert (Hr : 0 <= r < dt) by (apply Rfmod_range; assumption).
    set (v := (d - r) / dt).
    assert (Hv : d / dt - 1 < v <= d / dt).
    { unfold v. split.
      - apply Rmult_lt_reg_r with dt; [assumption|]. field_simplify; lra.
      - apply Rmult_le_reg_r with dt; [assumption|]. field_simplify; lra. }
    assert (Hd0 : 0 <= d / dt) by (apply Rmult_le_pos; [lra|left; apply Rinv_0_lt_compat; lra]).
    destruct (Rceil_spec v) as [C1 C2].
    destruct (Z_le_gt_dec (Rceil v) 0) as [Hz|Hz].
    - replace (Z.to_nat (Rceil v)) with 0%nat by lia. cbn.
      assert (IZR (Rceil v) <= 0) by (apply IZR_le; assumption). lra.
    - rewrite INR_IZR_INZ, Z2Nat.id by lia. lra.
  Qed.

  (* a ramp from Ts down to Te (Te <= Ts) takes t = (Ts-Te)/cr and is sampled m times, t/dt <= m < t/dt + 1,
     sample k lying exactly on the programmed line at local time k dt *)
  Lemma ramp_length_bounds Ts Te : Te <= Ts ->
    let t := (Ts - Te) / cr in
    let m := INR (length (rramp Ts Te cr dt)) in t / dt <= m < t / dt + 1.
  Proof.
    intros Hle. rewrite (ramp_unfold cr dt), map_length.
    assert (Hl : forall n, length (iota n) = n).
    { intros n. apply iota_length. }
    rewrite Hl. unfold ramp_len. set (v := (Ts - Te) / cr / dt).
    assert (0 <= v).
    { unfold v. apply Rmult_le_pos; [apply Rmult_le_pos|]; try lra; left; apply Rinv_0_lt_compat; lra. }
    destruct (Rceil_spec v) as [C1 C2].
    assert (0 <= Rceil v)%Z.
    { apply le_IZR. destruct (Z_le_gt_dec 0 (Rceil v)); [apply IZR_le; assumption|].
      assert (IZR (Rceil v) <= -1) by (apply IZR_le; lia). lra. }
    cbv zeta. rewrite INR_IZR_INZ, Z2Nat.id by assumption. fold v. lra.
  Qed.

  Lemma ramp_on_line Ts Te k d : (k < length (rramp Ts Te cr dt))%nat ->
    nth k (rramp Ts Te cr dt) d = Ts - cr * (INR k * dt).
  Proof.
    rewrite (ramp_unfold cr dt), map_length. generalize (ramp_len cr dt Ts Te) as m.
    intros m. revert k. induction m as [|m IH]; intros k Hk; [cbn in Hk; lia|].
    assert (Hl : forall n, length (iota n) = n).
    { intros n. apply iota_length. }
    rewrite Hl in Hk. rewrite iota_S, map_app.
    destruct (Nat.eq_dec k m) as [->|Hne].
    - rewrite app_nth2; rewrite map_length, Hl; [|lia]. rewrite Nat.sub_diag. cbn [map nth].
      unfold rampf. rewrite INR_IZR_INZ. ring.
    - rewrite app_nth1 by (rewrite map_length, Hl; lia). apply IH. rewrite Hl. lia.
  Qed.
End Segment.

(* ---- order independence ---------------------------------------------------------------- *)
From Coq Require Import Permutation.

Lemma insert_comm h1 h2 l : h_temp h1 <> h_temp h2 ->
  insert_desc Rops h1 (insert_desc Rops h2 l) = insert_desc Rops h2 (insert_desc Rops h1 l).
Proof.
  intros Hne.
  assert (T : Rleb (h_temp h2) (h_temp h1) = negb (Rleb (h_temp h1) (h_temp h2))).
  { destruct (Rleb (h_temp h2) (h_temp h1)) eqn:E1, (Rleb (h_temp h1) (h_temp h2)) eqn:E2; try reflexivity.
    - apply Rleb_true in E1, E2. exfalso; apply Hne; lra.
    - apply Rleb_false in E1, E2. lra. }
  induction l as [|x r IH].
  - cbn [insert_desc nleb Rops]. rewrite T. destruct (Rleb (h_temp h1) (h_temp h2)); reflexivity.
  - cbn [insert_desc nleb Rops].
    destruct (Rleb (h_temp x) (h_temp h1)) eqn:X1, (Rleb (h_temp x) (h_temp h2)) eqn:X2.
    + cbn [insert_desc nleb Rops]. rewrite X1, X2, T.
      destruct (Rleb (h_temp h1) (h_temp h2)); reflexivity.
    + cbn [insert_desc nleb Rops]. rewrite X1.
      apply Rleb_true in X1. assert (X2' := X2). apply Rleb_false in X2'.
      assert (Rleb (h_temp h1) (h_temp h2) = false) as -> by (apply Rleb_false; lra).
      cbn [insert_desc nleb Rops]. rewrite X2. reflexivity.
    + cbn [insert_desc nleb Rops]. rewrite X2.
      apply Rleb_true in X2. assert (X1' := X1). apply Rleb_false in X1'.
      assert (Rleb (h_temp h2) (h_temp h1) = false) as -> by (apply Rleb_false; lra).
      cbn [insert_desc nleb Rops]. rewrite X1. reflexivity.
    + cbn [insert_desc nleb Rops]. rewrite X1, X2, IH. reflexivity.
Qed.

Lemma sort_perm l1 l2 : Permutation l1 l2 -> NoDup (map h_temp l1) -> rsort l1 = rsort l2.
Proof.
  induction 1 as [|x l l' HP IH|x y l|l l' l'' HP1 IH1 HP2 IH2]; intros ND.
  - reflexivity.
  - cbn [sort_holds fold_right]. cbn [map] in ND. inversion ND; subst.
    change (fold_right (insert_desc Rops) [] l) with (rsort l).
    change (fold_right (insert_desc Rops) [] l') with (rsort l'). rewrite IH by assumption. reflexivity.
  - cbn [sort_holds fold_right]. cbn [map] in ND. inversion ND as [|? ? Hnin _]; subst.
    apply insert_comm. intros E. apply Hnin. left. symmetry; exact E.
  - rewrite IH1 by assumption. apply IH2.
    eapply Permutation_NoDup; [|exact ND]. apply Permutation_map. assumption.
Qed.

Theorem profile_order_independent start endT cr dt ttot holds holds' :
  Permutation holds holds' -> NoDup (map h_temp holds) ->
  rprofile start endT cr dt ttot holds = rprofile start endT cr dt ttot holds'.
Proof.
  intros HP ND. unfold profile, raw_profile. rewrite (sort_perm _ _ HP ND). reflexivity.
Qed.

(* ---- S6 / S7 composed over the whole program: the sample at which the k-th hold ends lies within one step per program
   segment (each ramp and each plateau is a segment) of the continuous program time ------------------------------------- *)
Section Composition.
  Variables cr dt : R.
  Hypothesis Hcr : 0 < cr.
  Hypothesis Hdt : 0 < dt.
  (* continuous time needed for the listed ramps and holds, starting at temperature Ts *)
  Fixpoint ctime (Ts : R) (hs : list (@hold R)) : R :=
    match hs with [] => 0 | h :: r => (Ts - h_temp h) / cr + h_dur h + ctime (h_temp h) r end.

  Theorem segments_length_bounds : forall hs Ts, desc_from Ts hs -> Forall (fun h => 0 <= h_dur h) hs ->
    ctime Ts hs / dt - INR (length hs) <= INR (length (rsegments Ts cr dt hs)) <= ctime Ts hs / dt + 2 * INR (length hs).
  Proof.
    induction hs as [|h r IH]; intros Ts Hd Hdur.
    - cbn [ctime segments length INR]. unfold Rdiv. rewrite Rmult_0_l. split; lra.
    - destruct Hd as [Hle Hd']. inversion Hdur as [|? ? Hh Hr]; subst.
      specialize (IH (h_temp h) Hd' Hr).
      cbn [segments ctime]. rewrite !app_length, !plus_INR.
      pose proof (ramp_length_bounds cr dt Hcr Hdt Ts (h_temp h) Hle) as Hm. cbv zeta in Hm.
      pose proof (plateau_length_bounds cr dt Hdt Ts (h_temp h) (h_dur h) Hh) as Hp. cbv zeta in Hp.
      set (m := INR (length (rramp Ts (h_temp h) cr dt))) in *.
      set (p := INR (length (rplateau Ts (h_temp h) cr dt (h_dur h)))) in *.
      set (s := INR (length (rsegments (h_temp h) cr dt r))) in *.
      change (length (h :: r)) with (S (length r)). rewrite S_INR.
      replace (((Ts - h_temp h) / cr + h_dur h + ctime (h_temp h) r) / dt)
        with ((Ts - h_temp h) / cr / dt + h_dur h / dt + ctime (h_temp h) r / dt) by (field; lra).
      split; lra.
  Qed.
End Composition.
