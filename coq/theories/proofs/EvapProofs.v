(* C20: Murphy-Koop vapour pressures and the Hertz-Knudsen flux, proved about the definitions
   GENERATED from src/ethz_snow/utils.py (gen/GenUtils.v). *)
From Coq Require Import Reals Lra.
From Coquelicot Require Import Coquelicot.
From Interval Require Import Tactic.
From Snow Require Import GenUtils.
Local Open Scope R_scope.

(* a function with a positive derivative on [a,b] is strictly increasing there (mean value theorem) *)
Lemma increasing_from_derivative (f df : R -> R) a b :
  (forall x, a <= x <= b -> is_derive f x (df x)) ->
  (forall x, a <= x <= b -> 0 < df x) ->
  forall x y, a <= x -> y <= b -> x < y -> f x < f y.
Proof.
  intros Hd Hp x y Hx Hy Hxy.
  destruct (MVT_gen f x y df) as (c & Hc & E).
  - intros z Hz. apply Hd. rewrite Rmin_left, Rmax_right in Hz by lra. lra.
  - intros z Hz. rewrite Rmin_left, Rmax_right in Hz by lra.
    apply continuity_pt_filterlim.
    assert (Hex : ex_derive f z) by (exists (df z); apply Hd; lra).
    exact (ex_derive_continuous f z Hex).
  - rewrite Rmin_left, Rmax_right in Hc by lra.
    assert (0 < df c) by (apply Hp; lra).
    assert (0 < df c * (y - x)) by (apply Rmult_lt_0_compat; lra). lra.
Qed.

(* shape-independent variant: it is enough to exhibit SOME positive derivative at every point *)
Lemma increasing_from_some_derivative (f : R -> R) a b :
  (forall x, a <= x <= b -> exists d, is_derive f x d /\ 0 < d) ->
  forall x y, a <= x -> y <= b -> x < y -> f x < f y.
Proof.
  intros H. apply (increasing_from_derivative f (Derive f) a b).
  - intros x Hx. destruct (H x Hx) as (d & Hd & _). apply Derive_correct. exists d. exact Hd.
  - intros x Hx. destruct (H x Hx) as (d & Hd & Hp). rewrite (is_derive_unique _ _ _ Hd). exact Hp.
Qed.

(* ---- liquid: ln p_liq has a positive derivative on [123, 332] ------------------------------------ *)
Lemma E_liq_has_positive_derivative T : 123 <= T <= 332 ->
  exists d, is_derive vapour_pressure_liquid_exponent T d /\ 0 < d.
Proof.
  intros HT. eexists. split.
  - unfold vapour_pressure_liquid_exponent, tanh, sinh, cosh. auto_derive.
    + repeat split; try lra. interval with (i_prec 40).
    + reflexivity.
  - interval with (i_bisect T, i_prec 40).
Qed.

Theorem p_liq_strictly_increasing T1 T2 : 123 <= T1 -> T2 <= 332 -> T1 < T2 ->
  vapour_pressure_liquid T1 < vapour_pressure_liquid T2.
Proof.
  intros H1 H2 H12. unfold vapour_pressure_liquid. apply exp_increasing.
  apply (increasing_from_some_derivative _ 123 332); try assumption. apply E_liq_has_positive_derivative.
Qed.

(* ---- ice: ln p_ice has a positive derivative on [110, 273.16] ---------------------------------- *)
Lemma E_sol_has_positive_derivative T : 110 <= T <= 273.16 ->
  exists d, is_derive vapour_pressure_solid_exponent T d /\ 0 < d.
Proof.
  intros HT. eexists. split.
  - unfold vapour_pressure_solid_exponent. auto_derive; [repeat split; lra|reflexivity].
  - interval with (i_bisect T, i_prec 40).
Qed.

Theorem p_ice_strictly_increasing T1 T2 : 110 <= T1 -> T2 <= 273.16 -> T1 < T2 ->
  vapour_pressure_solid T1 < vapour_pressure_solid T2.
Proof.
  intros H1 H2 H12. unfold vapour_pressure_solid. apply exp_increasing.
  apply (increasing_from_some_derivative _ 110 273.16); try assumption. apply E_sol_has_positive_derivative.
Qed.

(* ---- triple point and ordering below it ------------------------------------------------------------ *)
Theorem coincide_at_triple_point :
  Rabs (vapour_pressure_liquid_exponent 273.16 - vapour_pressure_solid_exponent 273.16) <= 1 / 10000.
Proof. unfold vapour_pressure_liquid_exponent, vapour_pressure_solid_exponent, tanh, sinh, cosh. interval with (i_prec 60). Qed.

Theorem p_ice_le_p_liq_below_triple_point T : 123 <= T <= 273.15 ->
  vapour_pressure_solid T <= vapour_pressure_liquid T.
Proof.
  intros HT. unfold vapour_pressure_solid, vapour_pressure_liquid.
  assert (vapour_pressure_solid_exponent T <= vapour_pressure_liquid_exponent T).
  { apply Rminus_le_0. unfold vapour_pressure_liquid_exponent, vapour_pressure_solid_exponent, tanh, sinh, cosh.
    interval with (i_bisect T, i_taylor T, i_degree 5, i_prec 50). }
  destruct H as [H|H]; [left; apply exp_increasing; exact H|right; rewrite H; reflexivity].
Qed.

(* ---- Hertz-Knudsen flux ------------------------------------------------------------------------------ *)
Definition flux_prefactor (kappa m_water k_B : R) : R :=
  2 / (2 - kappa) * sqrt (m_water * (kappa * kappa) / (2 * PI * k_B)).

Lemma vapour_flux_factored kappa m kB p_vac p_vap Tl Tv :
  vapour_flux kappa m kB p_vac p_vap Tl Tv
  = flux_prefactor kappa m kB * (p_vap / sqrt Tl - p_vac / sqrt Tv).
Proof. reflexivity. Qed.

Lemma flux_prefactor_pos kappa m kB : 0 < kappa <= 1 -> 0 < m -> 0 < kB -> 0 < flux_prefactor kappa m kB.
Proof.
  intros Hk Hm HkB. unfold flux_prefactor. apply Rmult_lt_0_compat.
  - apply Rdiv_lt_0_compat; lra.
  - apply sqrt_lt_R0. apply Rdiv_lt_0_compat.
    + apply Rmult_lt_0_compat; [assumption|]. apply Rmult_lt_0_compat; lra.
    + assert (0 < PI) by apply PI_RGT_0. apply Rmult_lt_0_compat; lra.
Qed.

(* the prefactor is kappa * (2/(2-kappa)) * sqrt(m/(2 pi kB)): it scales with the evaporation
   coefficient and is strictly increasing in it on (0,1] *)
Lemma flux_prefactor_scales kappa m kB : 0 < kappa <= 1 -> 0 < m -> 0 < kB ->
  flux_prefactor kappa m kB = kappa * (2 / (2 - kappa)) * sqrt (m / (2 * PI * kB)).
Proof.
  intros Hk Hm HkB. unfold flux_prefactor.
  assert (HP : 0 < 2 * PI * kB) by (assert (0 < PI) by apply PI_RGT_0; apply Rmult_lt_0_compat; lra).
  replace (m * (kappa * kappa) / (2 * PI * kB)) with ((kappa * kappa) * (m / (2 * PI * kB))) by (field; repeat split; try apply PI_neq0; lra).
  rewrite sqrt_mult_alt by nra. rewrite sqrt_square by lra. ring.
Qed.

Lemma flux_prefactor_increasing k1 k2 m kB : 0 < k1 -> k1 < k2 -> k2 <= 1 -> 0 < m -> 0 < kB ->
  flux_prefactor k1 m kB < flux_prefactor k2 m kB.
Proof.
  intros H1 H12 H2 Hm HkB. rewrite !flux_prefactor_scales by lra.
  assert (HP : 0 < 2 * PI * kB) by (assert (0 < PI) by apply PI_RGT_0; apply Rmult_lt_0_compat; lra).
  assert (Hs : 0 < sqrt (m / (2 * PI * kB))) by (apply sqrt_lt_R0; apply Rdiv_lt_0_compat; assumption).
  apply Rmult_lt_compat_r; [exact Hs|].
  assert (k1 * (2 / (2 - k1)) < k2 * (2 / (2 - k2))).
  { apply Rminus_lt_0. replace (k2 * (2 / (2 - k2)) - k1 * (2 / (2 - k1))) with (4 * (k2 - k1) / ((2 - k2) * (2 - k1))) by (field; lra).
    apply Rdiv_lt_0_compat; [lra|apply Rmult_lt_0_compat; lra]. }
  exact H.
Qed.

Theorem flux_zero_at_equilibrium kappa m kB p_vac p_vap Tl Tv :
  p_vap / sqrt Tl = p_vac / sqrt Tv -> vapour_flux kappa m kB p_vac p_vap Tl Tv = 0.
Proof. intros E. rewrite vapour_flux_factored, E. ring. Qed.

Theorem flux_sign kappa m kB p_vac p_vap T : 0 < kappa <= 1 -> 0 < m -> 0 < kB -> 0 < T ->
  (0 < vapour_flux kappa m kB p_vac p_vap T T <-> p_vac < p_vap).
Proof.
  intros Hk Hm HkB HT. rewrite vapour_flux_factored.
  assert (Hf := flux_prefactor_pos kappa m kB Hk Hm HkB).
  assert (Hs : 0 < / sqrt T) by (apply Rinv_0_lt_compat, sqrt_lt_R0; assumption).
  replace (p_vap / sqrt T - p_vac / sqrt T) with ((p_vap - p_vac) * / sqrt T) by (unfold Rdiv; ring).
  split; intros H.
  - assert (0 < (p_vap - p_vac) * / sqrt T).
    { destruct (Rle_lt_dec ((p_vap - p_vac) * / sqrt T) 0) as [Hle|]; [|assumption].
      exfalso. assert (flux_prefactor kappa m kB * ((p_vap - p_vac) * / sqrt T) <= 0) by nra. lra. }
    assert (0 < p_vap - p_vac) by nra. lra.
  - apply Rmult_lt_0_compat; [exact Hf|]. apply Rmult_lt_0_compat; lra.
Qed.

Theorem flux_increasing_in_vapour_pressure kappa m kB p_vac p1 p2 Tl Tv :
  0 < kappa <= 1 -> 0 < m -> 0 < kB -> 0 < Tl -> p1 < p2 ->
  vapour_flux kappa m kB p_vac p1 Tl Tv < vapour_flux kappa m kB p_vac p2 Tl Tv.
Proof.
  intros Hk Hm HkB HT Hp. rewrite !vapour_flux_factored.
  apply Rmult_lt_compat_l; [apply flux_prefactor_pos; assumption|].
  assert (Hs : 0 < / sqrt Tl) by (apply Rinv_0_lt_compat, sqrt_lt_R0; assumption).
  unfold Rdiv. assert (p1 * / sqrt Tl < p2 * / sqrt Tl) by (apply Rmult_lt_compat_r; assumption). lra.
Qed.
