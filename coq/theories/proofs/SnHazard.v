(* C08 / C11: hazard integral, first crossing, nucleation-temperature statistics (over R). *)
From Coq Require Import Reals ZArith Lra Lia List Bool.
From Snow Require Import Num NumR SnLoop SnLoopProofs.
Import ListNotations.
Local Open Scope R_scope.

(* nucleation rate at a grid point: k (T_eq_l - T)^b where supercooled, 0 elsewhere *)
Definition Jrate (kb b Teql T : R) : R := if Rltb T Teql then kb * Rpower (Teql - T) b else 0.
Lemma Jrate_nonneg kb b Teql T : 0 <= kb -> 0 <= Jrate kb b Teql T.
Proof.
  intros Hk. unfold Jrate. destruct (Rltb T Teql); [|lra].
  apply Rmult_le_pos; [exact Hk|]. unfold Rpower. left; apply exp_pos.
Qed.
Lemma Jrate_pos_iff kb b Teql T : 0 < kb -> (0 < Jrate kb b Teql T <-> T < Teql).
Proof.
  intros Hk. unfold Jrate. destruct (Rltb T Teql) eqn:E.
  - apply Rltb_true in E. split; [intros _; exact E|intros _]. apply Rmult_lt_0_compat; [exact Hk|unfold Rpower; apply exp_pos].
  - apply Rltb_false in E. split; [intros H; lra|intros H; lra].
Qed.

(* weighted sum  sum_j w_j x_j  (quadrature over the grid) *)
Fixpoint wsum (w x : list R) : R :=
  match w, x with a :: r, b :: s => a * b + wsum r s | _, _ => 0 end.
Lemma wsum_nonneg w x : Forall (fun a => 0 <= a) w -> Forall (fun b => 0 <= b) x -> 0 <= wsum w x.
Proof.
  revert x; induction w as [|a w IH]; intros [|b x] Hw Hx; cbn; try lra.
  inversion Hw; inversion Hx; subst. assert (0 <= a * b) by (apply Rmult_le_pos; assumption).
  specialize (IH x H2 H6). lra.
Qed.

(* frequency of nucleation events: K_v = A * quadrature of J over the product volume; non-negative *)
Theorem Kv_nonneg area w kb b Teql T :
  0 <= area -> 0 <= kb -> Forall (fun a => 0 <= a) w ->
  0 <= area * wsum w (map (Jrate kb b Teql) T).
Proof.
  intros HA Hk Hw. apply Rmult_le_pos; [exact HA|]. apply wsum_nonneg; [exact Hw|].
  apply Forall_forall. intros y Hy. apply in_map_iff in Hy. destruct Hy as (t & <- & _). apply Jrate_nonneg; exact Hk.
Qed.

(* expected number of nuclei after step i:  E_i = sum_{k <= i} K_v(k) dt *)
Fixpoint Eacc (Kv : nat -> R) (dt : R) (i : nat) : R :=
  match i with O => Kv O * dt | S k => Eacc Kv dt k + Kv (S k) * dt end.
Definition crossed (Kv : nat -> R) (dt F : R) (i : nat) : bool := Rltb F (1 - exp (- Eacc Kv dt i)).

Lemma Eacc_monotone Kv dt i : (forall k, 0 <= Kv k) -> 0 <= dt -> Eacc Kv dt i <= Eacc Kv dt (S i).
Proof. intros HK Hd. cbn [Eacc]. assert (0 <= Kv (S i) * dt) by (apply Rmult_le_pos; [apply HK|exact Hd]). lra. Qed.

(* once crossed, always crossed: the first crossing is THE nucleation step *)
Lemma crossed_stays Kv dt F i : (forall k, 0 <= Kv k) -> 0 <= dt -> crossed Kv dt F i = true -> crossed Kv dt F (S i) = true.
Proof.
  intros HK Hd H. unfold crossed in *. apply Rltb_true in H. apply Rltb_true.
  assert (M := Eacc_monotone Kv dt i HK Hd).
  assert (exp (- Eacc Kv dt (S i)) <= exp (- Eacc Kv dt i)).
  { destruct (Req_dec (Eacc Kv dt (S i)) (Eacc Kv dt i)) as [->|Hne]; [lra|]. left. apply exp_increasing. lra. }
  lra.
Qed.

(* stochastic nucleation happens at the first step whose cumulative probability exceeds the uniform number:
   it is crossed there, at no earlier step, and at every later step *)
Theorem nucleation_at_first_crossing Kv dt F L :
  (forall k, 0 <= Kv k) -> 0 <= dt ->
  match find_first (crossed Kv dt F) 0 L with
  | Some i => (i < L)%nat /\ F < 1 - exp (- Eacc Kv dt i)
              /\ (forall j, (j < i)%nat -> 1 - exp (- Eacc Kv dt j) <= F)
              /\ (forall j, (i <= j)%nat -> F < 1 - exp (- Eacc Kv dt j))
  | None => forall j, (j < L)%nat -> 1 - exp (- Eacc Kv dt j) <= F
  end.
Proof.
  intros HK Hd. assert (H := find_first_spec (crossed Kv dt F) L 0).
  destruct (find_first (crossed Kv dt F) 0 L) as [i|].
  - destruct H as (R1 & P1 & Q1). repeat split.
    + lia.
    + apply Rltb_true. exact P1.
    + intros j Hj. apply Rltb_false. apply Q1. lia.
    + intros j Hj. induction Hj as [|j Hj IH]; [apply Rltb_true; exact P1|].
      apply Rltb_true. apply crossed_stays; try assumption. apply Rltb_true. exact IH.
  - intros j Hj. apply Rltb_false. apply H. lia.
Qed.

(* a crossing needs a positive rate somewhere: with F >= 0 the nucleation step has E > 0 *)
Lemma crossing_has_positive_hazard Kv dt F i : 0 <= F -> F < 1 - exp (- Eacc Kv dt i) -> 0 < Eacc Kv dt i.
Proof.
  intros HF H. destruct (Rle_lt_dec (Eacc Kv dt i) 0) as [Hle|]; [|assumption].
  exfalso. assert (1 <= exp (- Eacc Kv dt i)).
  { destruct (Req_dec (Eacc Kv dt i) 0) as [->|Hne]; [rewrite Ropp_0, exp_0; lra|].
    left. rewrite <- exp_0. apply exp_increasing. lra. }
  lra.
Qed.

(* ---- statistics of the temperature field at nucleation ---------------------------------------------------- *)
Definition lmin (l : list R) (d : R) : R := fold_right Rmin d l.
Definition lmax (l : list R) (d : R) : R := fold_right Rmax d l.
Fixpoint lsumr (l : list R) : R := match l with [] => 0 | x :: r => x + lsumr r end.
Definition lmean (l : list R) : R := lsumr l / INR (length l).

Lemma lsumr_bounds l lo hi : Forall (fun x => lo <= x <= hi) l -> INR (length l) * lo <= lsumr l <= INR (length l) * hi.
Proof.
  induction 1 as [|x l Hx _ IH]; [cbn; lra|]. cbn [lsumr length]. rewrite S_INR. lra.
Qed.

Theorem min_le_mean_le_max l lo hi : l <> [] -> Forall (fun x => lo <= x <= hi) l -> lo <= lmean l <= hi.
Proof.
  intros Hne HF. assert (B := lsumr_bounds l lo hi HF). unfold lmean.
  assert (Hn : 0 < INR (length l)) by (destruct l; [contradiction|cbn [length]; rewrite S_INR; assert (0 <= INR (length l)) by apply pos_INR; lra]).
  split.
  - apply Rmult_le_reg_r with (INR (length l)); [exact Hn|]. unfold Rdiv. rewrite Rmult_assoc, Rinv_l by lra. lra.
  - apply Rmult_le_reg_r with (INR (length l)); [exact Hn|]. unfold Rdiv. rewrite Rmult_assoc, Rinv_l by lra. lra.
Qed.

(* kinetic mean  sum w T J / sum w J : a weighted mean of the temperatures with non-negative weights w J,
   which vanish outside the supercooled region *)
Lemma weighted_mean_bounds : forall (w x t : list R) lo hi,
  length w = length x -> length x = length t ->
  Forall (fun a => 0 <= a) w -> Forall (fun b => 0 <= b) x ->
  (forall k, (k < length t)%nat -> 0 < nth k x 0 -> lo <= nth k t 0 <= hi) ->
  lo * wsum w x <= wsum w (map (fun p => fst p * snd p) (combine t x)) <= hi * wsum w x.
Proof.
  induction w as [|a w IH]; intros [|b x] [|c t] lo hi L1 L2 Hw Hx Hb; cbn in L1, L2; try lia; cbn [wsum combine map fst snd]; try lra.
  inversion Hw; inversion Hx; subst.
  assert (IHr := IH x t lo hi ltac:(lia) ltac:(lia) H2 H6 ltac:(intros k Hk Hp; apply (Hb (S k)); [cbn; lia|exact Hp])).
  destruct (Req_dec b 0) as [->|Hbz].
  - rewrite !Rmult_0_r. lra.
  - assert (Hbp : 0 < b) by lra. specialize (Hb 0%nat ltac:(cbn; lia) Hbp). cbn in Hb.
    assert (0 <= a * b) by (apply Rmult_le_pos; assumption).
    assert (lo * (a * b) <= a * (c * b) <= hi * (a * b)) by (split; nra). lra.
Qed.

Theorem kinetic_mean_between w T kb b Teql lo :
  0 < kb -> length w = length T -> Forall (fun a => 0 <= a) w ->
  (forall k, (k < length T)%nat -> nth k T 0 < Teql -> lo <= nth k T 0) ->
  let J := map (Jrate kb b Teql) T in
  0 < wsum w J ->
  lo <= wsum w (map (fun p => fst p * snd p) (combine T J)) / wsum w J <= Teql.
Proof.
  intros Hk HL Hw Hlo J Hpos.
  assert (HJ : Forall (fun y => 0 <= y) J).
  { apply Forall_forall. intros y Hy. apply in_map_iff in Hy. destruct Hy as (t & <- & _). apply Jrate_nonneg; lra. }
  assert (B := weighted_mean_bounds w J T lo Teql ltac:(unfold J; rewrite map_length; exact HL) ltac:(unfold J; now rewrite map_length) Hw HJ).
  assert (Hb : forall k, (k < length T)%nat -> 0 < nth k J 0 -> lo <= nth k T 0 <= Teql).
  { intros k Hkk Hp. unfold J in Hp. rewrite (nth_indep _ 0 (Jrate kb b Teql 0)) in Hp by (rewrite map_length; exact Hkk).
    rewrite map_nth in Hp. apply Jrate_pos_iff in Hp; [|exact Hk]. split; [apply Hlo; assumption|lra]. }
  specialize (B Hb). split.
  - apply Rmult_le_reg_r with (wsum w J); [exact Hpos|]. unfold Rdiv. rewrite Rmult_assoc, Rinv_l by lra. lra.
  - apply Rmult_le_reg_r with (wsum w J); [exact Hpos|]. unfold Rdiv. rewrite Rmult_assoc, Rinv_l by lra. lra.
Qed.

(* ---- controlled nucleation (C11): the trigger is the first step at which the coldest point has reached cnTemp *)
Theorem cn_trigger_first_crossing (Tmin : nat -> R) cn L :
  match find_first (fun i => Rleb (Tmin i) cn) 0 L with
  | Some i => (i < L)%nat /\ Tmin i <= cn /\ forall j, (j < i)%nat -> cn < Tmin j
  | None => forall j, (j < L)%nat -> cn < Tmin j
  end.
Proof.
  assert (H := find_first_spec (fun i => Rleb (Tmin i) cn) L 0).
  destruct (find_first _ 0 L) as [i|].
  - destruct H as (R1 & P1 & Q1). repeat split; [lia|apply Rleb_true; exact P1|].
    intros j Hj. apply Rleb_false. apply Q1. lia.
  - intros j Hj. apply Rleb_false. apply H. lia.
Qed.
