(* Proofs about model/Topology.v: the matrix built from diagonal patterns is the
   adjacency matrix of the geometric neighbour relation, for every batch shape. *)
From Coq Require Import ZArith Lia Bool List.
From Snow Require Import Topology.
Import ListNotations.
Local Open Scope Z_scope.

Lemma radix nx a m r q : 0 < nx -> - nx < a < nx -> 0 <= r < nx ->
  a + nx * m = r + nx * q <-> (a = r /\ m = q) \/ (a = r - nx /\ m = q + 1).
Proof.
  intros Hn Ha Hr. split.
  - intros H. assert (nx * (m - q) = r - a) by lia.
    assert (m - q = 0 \/ m - q = 1) by nia. destruct H1; [left|right]; nia.
  - intros [[-> ->]|[-> ->]]; lia.
Qed.

Definition idx (nx ny x y z : Z) : Z := x + nx * (y + ny * z).

Section Coords.
  Variables nx ny : Z.
  Hypothesis Hnx : 0 < nx.
  Hypothesis Hny : 0 < ny.

  Lemma mod_lin x w : 0 <= x < nx -> (x + nx * w) mod nx = x.
  Proof. intros. rewrite Z.mul_comm, Z_mod_plus_full. apply Z.mod_small; lia. Qed.
  Lemma div_lin x w : 0 <= x < nx -> (x + nx * w) / nx = w.
  Proof. intros. rewrite Z.mul_comm, Z_div_plus_full by lia. rewrite Z.div_small; lia. Qed.

  Lemma cx_idx x y z : 0 <= x < nx -> cx nx (idx nx ny x y z) = x.
  Proof. intros; unfold cx, idx; apply mod_lin; auto. Qed.
  Lemma cy_idx x y z : 0 <= x < nx -> 0 <= y < ny -> cy nx ny (idx nx ny x y z) = y.
  Proof.
    intros; unfold cy, idx. rewrite div_lin by auto.
    rewrite Z.mul_comm, Z_mod_plus_full. apply Z.mod_small; lia.
  Qed.
  Lemma cz_idx x y z : 0 <= x < nx -> 0 <= y < ny -> cz nx ny (idx nx ny x y z) = z.
  Proof.
    intros; unfold cz, idx. rewrite <- Z.div_div by lia. rewrite div_lin by auto.
    rewrite Z.mul_comm, Z_div_plus_full by lia. rewrite Z.div_small; lia.
  Qed.
  Lemma layer_mod x y z : 0 <= x < nx -> 0 <= y < ny ->
    idx nx ny x y z mod (nx * ny) = x + nx * y.
  Proof.
    intros. unfold idx.
    replace (x + nx * (y + ny * z)) with ((x + nx * y) + z * (nx * ny)) by ring.
    rewrite Z_mod_plus_full. apply Z.mod_small. nia.
  Qed.

  Lemma decompose nz i : 0 <= i < nx * ny * nz ->
    let x := cx nx i in let y := cy nx ny i in let z := cz nx ny i in
    i = idx nx ny x y z /\ 0 <= x < nx /\ 0 <= y < ny /\ 0 <= z < nz.
  Proof.
    intros Hi x y z. unfold x, y, z, cx, cy, cz, idx.
    assert (H1 := Z.div_mod i nx ltac:(lia)).
    assert (H2 := Z.div_mod (i / nx) ny ltac:(lia)).
    assert (H3 := Z.mod_pos_bound i nx Hnx).
    assert (H4 := Z.mod_pos_bound (i / nx) ny Hny).
    rewrite <- Z.div_div by lia.
    repeat split; try lia.
    - apply Z.div_pos; [apply Z.div_pos|]; lia.
    - apply Z.div_lt_upper_bound; [lia|]. apply Z.div_lt_upper_bound; [lia|]. lia.
  Qed.
End Coords.

Lemma idx_inj nx ny x y z x' y' z' : 0 < nx -> 0 < ny ->
  0 <= x < nx -> 0 <= y < ny -> 0 <= x' < nx -> 0 <= y' < ny ->
  idx nx ny x y z = idx nx ny x' y' z' -> x = x' /\ y = y' /\ z = z'.
Proof.
  intros Hnx Hny Hx Hy Hx' Hy' H.
  assert (Ex := f_equal (cx nx) H). assert (Ey := f_equal (cy nx ny) H).
  assert (Ez := f_equal (cz nx ny) H).
  rewrite !cx_idx in Ex by assumption. rewrite !cy_idx in Ey by assumption.
  rewrite !cz_idx in Ez by assumption. auto.
Qed.

Lemma loc_inj nx x y x' y' : 0 < nx -> 0 <= x < nx -> 0 <= x' < nx ->
  x + nx * y = x' + nx * y' -> x = x' /\ y = y'.
Proof.
  intros Hnx Hx Hx' H.
  assert (E1 := f_equal (fun v => v mod nx) H). cbv beta in E1.
  assert (E2 := f_equal (fun v => v / nx) H). cbv beta in E2.
  rewrite !mod_lin in E1 by assumption. rewrite !div_lin in E2 by assumption. auto.
Qed.

Section Halves.
  Variables nx ny nz : Z.
  Hypothesis Hnx : 0 < nx.
  Hypothesis Hny : 0 < ny.
  Hypothesis Hnz : 0 < nz.
  Variables x y z x' y' z' : Z.
  Hypothesis Hx : 0 <= x < nx.
  Hypothesis Hy : 0 <= y < ny.
  Hypothesis Hz : 0 <= z < nz.
  Hypothesis Hx' : 0 <= x' < nx.
  Hypothesis Hy' : 0 <= y' < ny.
  Hypothesis Hz' : 0 <= z' < nz.
  Let i := idx nx ny x y z.
  Let j := idx nx ny x' y' z'.

  Lemma dx_pat_idx : dx_pat nx i = Z.b2z (negb (x =? nx - 1)).
  Proof.
    unfold dx_pat, i, idx.
    destruct (Z.eqb_spec x (nx - 1)) as [E|E]; cbn [negb Z.b2z].
    - replace (x + nx * (y + ny * z) + 1) with (0 + nx * (y + ny * z + 1)) by lia.
      rewrite mod_lin by lia. reflexivity.
    - replace (x + nx * (y + ny * z) + 1) with ((x + 1) + nx * (y + ny * z)) by lia.
      rewrite mod_lin by lia. destruct (Z.eqb_spec (x + 1) 0); [lia|reflexivity].
  Qed.

  Lemma half_dx :
    (if j - i =? 1 then dx_pat nx i else 0)
    = Z.b2z ((z' =? z) && (y' =? y) && (x' =? x + 1)).
  Proof.
    rewrite dx_pat_idx.
    destruct (Z.eqb_spec (j - i) 1) as [E|E].
    - destruct (Z.eqb_spec x (nx - 1)) as [Ex|Ex]; cbn [negb Z.b2z].
      + destruct (Z.eqb_spec x' (x + 1)); [lia|]. now rewrite andb_false_r.
      + assert (J : j = idx nx ny (x + 1) y z) by (unfold i, j, idx in *; lia).
        apply idx_inj in J; try lia. destruct J as (-> & -> & ->).
        now rewrite !Z.eqb_refl.
    - destruct (Z.eqb_spec z' z) as [->|]; [|reflexivity].
      destruct (Z.eqb_spec y' y) as [->|]; [|reflexivity].
      destruct (Z.eqb_spec x' (x + 1)) as [->|]; [|reflexivity].
      exfalso; apply E; unfold i, j, idx; ring.
  Qed.

  Lemma half_dz :
    (if j - i =? nx * ny then 1 else 0)
    = Z.b2z ((x' =? x) && (y' =? y) && (z' =? z + 1)).
  Proof.
    destruct (Z.eqb_spec (j - i) (nx * ny)) as [E|E].
    - assert (J : j = idx nx ny x y (z + 1)) by (unfold i, j, idx in *; lia).
      apply idx_inj in J; try lia. destruct J as (-> & -> & ->).
      now rewrite !Z.eqb_refl.
    - destruct (Z.eqb_spec x' x) as [->|]; [|reflexivity].
      destruct (Z.eqb_spec y' y) as [->|]; [|reflexivity].
      destruct (Z.eqb_spec z' (z + 1)) as [->|]; [|reflexivity].
      exfalso; apply E; unfold i, j, idx; ring.
  Qed.

  Lemma dy_pat_idx :
    dy_pat nx ny nz i = Z.b2z (negb ((y =? ny - 1) && (z <? nz - 1))).
  Proof.
    unfold dy_pat, dy_deleted, dy_bound.
    fold (cz nx ny i). unfold i. rewrite cz_idx by assumption. unfold idx.
    destruct (Z.eqb_spec y (ny - 1)) as [Ey|Ey]; cbn [andb negb].
    - assert (((z + 1) * (nx * ny) - 1 - (x + nx * (y + ny * z)) <? nx) = true) as ->.
      { apply Z.ltb_lt. subst y. nia. }
      cbn [andb].
      destruct (Z.ltb_spec z (nz - 1)) as [Lz|Lz]; cbn [negb Z.b2z].
      + assert (((z + 1) * (nx * ny) - 1 <? nx * (ny * nz - 1)) = true) as ->; [|reflexivity].
        apply Z.ltb_lt. assert (z + 2 <= nz) by lia. nia.
      + assert (((z + 1) * (nx * ny) - 1 <? nx * (ny * nz - 1)) = false) as ->; [|reflexivity].
        apply Z.ltb_ge. assert (z = nz - 1) by lia. subst z. nia.
    - assert (((z + 1) * (nx * ny) - 1 - (x + nx * (y + ny * z)) <? nx) = false) as ->; [|reflexivity].
      apply Z.ltb_ge. assert (y + 2 <= ny) by lia. nia.
  Qed.

  Lemma half_dy_sq :
    (if j - i =? nx then dy_pat nx ny nz i else 0)
    = Z.b2z ((x' =? x) && (y' =? y + 1) && (z' =? z)).
  Proof.
    rewrite dy_pat_idx.
    destruct (Z.eqb_spec (j - i) nx) as [E|E].
    - destruct (Z.eqb_spec y (ny - 1)) as [Ey|Ey]; cbn [andb negb].
      + assert (J : j = idx nx ny x 0 (z + 1)) by (unfold i, j, idx in *; subst y; lia).
        apply idx_inj in J; try lia. destruct J as (-> & -> & ->).
        assert ((z <? nz - 1) = true) as -> by (apply Z.ltb_lt; lia). cbn [negb Z.b2z].
        destruct (Z.eqb_spec 0 (y + 1)); [lia|]. now rewrite andb_false_r.
      + assert (J : j = idx nx ny x (y + 1) z) by (unfold i, j, idx in *; lia).
        apply idx_inj in J; try lia. destruct J as (-> & -> & ->).
        now rewrite !Z.eqb_refl.
    - destruct (Z.eqb_spec x' x) as [->|]; [|reflexivity].
      destruct (Z.eqb_spec y' (y + 1)) as [->|]; [|reflexivity].
      destruct (Z.eqb_spec z' z) as [->|]; [|reflexivity].
      exfalso; apply E; unfold i, j, idx; ring.
  Qed.

  (* hexagonal layer, local indices *)
  Let il := x + nx * y.
  Let jl := x' + nx * y'.

  Lemma half_hex_center :
    (if jl - il =? nx then hex_center il else 0) = Z.b2z ((x' =? x) && (y' =? y + 1)).
  Proof.
    unfold hex_center.
    destruct (Z.eqb_spec (jl - il) nx) as [E|E].
    - assert (J : jl = x + nx * (y + 1)) by (unfold il, jl in *; lia).
      apply loc_inj in J; try lia. destruct J as (-> & ->). now rewrite !Z.eqb_refl.
    - destruct (Z.eqb_spec x' x) as [->|]; [|reflexivity].
      destruct (Z.eqb_spec y' (y + 1)) as [->|]; [|reflexivity].
      exfalso; apply E; unfold il, jl; ring.
  Qed.

  Lemma half_hex_upper :
    (if jl - il =? nx + 1 then hex_upper nx il else 0)
    = Z.b2z (Z.odd y && (x' =? x + 1) && (y' =? y + 1)).
  Proof.
    unfold hex_upper, il. rewrite mod_lin, div_lin by assumption. fold il.
    destruct (Z.eqb_spec (jl - il) (nx + 1)) as [E|E].
    - destruct (Z.eqb_spec x (nx - 1)) as [Ex|Ex]; cbn [negb].
      + rewrite andb_false_r. destruct (Z.eqb_spec x' (x + 1)); [lia|].
        now rewrite andb_false_r.
      + assert (J : jl = (x + 1) + nx * (y + 1)) by (unfold il, jl in *; lia).
        apply loc_inj in J; try lia. destruct J as (-> & ->).
        rewrite !Z.eqb_refl, !andb_true_r. now destruct (Z.odd y).
    - destruct (Z.eqb_spec x' (x + 1)) as [->|]; [|now rewrite andb_false_r].
      destruct (Z.eqb_spec y' (y + 1)) as [->|]; [|now rewrite andb_false_r].
      exfalso; apply E; unfold il, jl; ring.
  Qed.

  Lemma half_hex_lower :
    (if jl - il =? nx - 1 then hex_lower nx il else 0)
    = Z.b2z (Z.even y && (x' =? x - 1) && (y' =? y + 1)).
  Proof.
    unfold hex_lower, il. rewrite mod_lin, div_lin by assumption. fold il.
    destruct (Z.eqb_spec (jl - il) (nx - 1)) as [E|E].
    - destruct (Z.eqb_spec x 0) as [Ex|Ex]; cbn [negb].
      + rewrite andb_false_r. destruct (Z.eqb_spec x' (x - 1)); [lia|].
        now rewrite andb_false_r.
      + assert (J : jl = (x - 1) + nx * (y + 1)) by (unfold il, jl in *; lia).
        apply loc_inj in J; try lia. destruct J as (-> & ->).
        rewrite !Z.eqb_refl, !andb_true_r. now destruct (Z.even y).
    - destruct (Z.eqb_spec x' (x - 1)) as [->|]; [|now rewrite andb_false_r].
      destruct (Z.eqb_spec y' (y + 1)) as [->|]; [|now rewrite andb_false_r].
      exfalso; apply E; unfold il, jl; ring.
  Qed.
End Halves.

From Coq Require Import ZifyBool.

Lemma even_adjacent y y' : Z.abs (y - y') = 1 -> Z.even y' = negb (Z.even y).
Proof.
  intros H. assert (y' = Z.succ y \/ y' = Z.pred y) as [->| ->] by lia.
  - rewrite Z.even_succ. symmetry; apply Z.negb_even.
  - rewrite Z.even_pred. symmetry; apply Z.negb_even.
Qed.

Ltac split_eqb :=
  repeat match goal with
  | |- context [Z.eqb ?a ?b] =>
      destruct (Z.eqb_spec a b); try (exfalso; lia)
  end.

Section Main.
  Variables nx ny nz : Z.
  Hypothesis Hnx : 0 < nx.
  Hypothesis Hny : 0 < ny.
  Hypothesis Hnz : 0 < nz.

  Lemma adj_coords a x y z x' y' z' :
    0 <= x < nx -> 0 <= y < ny -> 0 <= z < nz ->
    0 <= x' < nx -> 0 <= y' < ny -> 0 <= z' < nz ->
    adj a nx ny nz (idx nx ny x y z) (idx nx ny x' y' z')
    = Z.b2z (nbr_coords a x y z x' y' z').
  Proof.
    intros Hx Hy Hz Hx' Hy' Hz'.
    unfold adj, DX, DZ, sym.
    rewrite (half_dx nx ny nz Hnx Hny x y z x' y' z') by assumption.
    rewrite (half_dx nx ny nz Hnx Hny x' y' z' x y z) by assumption.
    assert (EDZ : (if 1 <? nz
                   then (if idx nx ny x' y' z' - idx nx ny x y z =? nx * ny then 1 else 0)
                        + (if idx nx ny x y z - idx nx ny x' y' z' =? nx * ny then 1 else 0)
                   else 0)
                  = Z.b2z ((x' =? x) && (y' =? y) && (z' =? z + 1))
                    + Z.b2z ((x =? x') && (y =? y') && (z =? z' + 1))).
    { destruct (Z.ltb_spec 1 nz).
      - rewrite (half_dz nx ny nz Hnx Hny x y z x' y' z') by assumption.
        rewrite (half_dz nx ny nz Hnx Hny x' y' z' x y z) by assumption. reflexivity.
      - lia. }
    rewrite EDZ; clear EDZ.
    destruct a; unfold DY, nbr_coords.
    - unfold sym.
      rewrite (half_dy_sq nx ny nz Hnx Hny x y z x' y' z') by assumption.
      rewrite (half_dy_sq nx ny nz Hnx Hny x' y' z' x y z) by assumption.
      clear. split_eqb; reflexivity.
    - fold (cz nx ny (idx nx ny x y z)). fold (cz nx ny (idx nx ny x' y' z')).
      rewrite !cz_idx, !layer_mod by assumption.
      unfold hex_layer, sym.
      rewrite (half_hex_center nx ny Hnx x y z x' y' z') by assumption.
      rewrite (half_hex_center nx ny Hnx x' y' z' x y z) by assumption.
      rewrite (half_hex_upper nx ny Hnx x y z x' y' z') by assumption.
      rewrite (half_hex_upper nx ny Hnx x' y' z' x y z) by assumption.
      rewrite (half_hex_lower nx ny Hnx x y z x' y' z') by assumption.
      rewrite (half_hex_lower nx ny Hnx x' y' z' x y z) by assumption.
      rewrite <- !Z.negb_even.
      assert (HE := even_adjacent y y').
      generalize dependent (Z.even y). generalize dependent (Z.even y'). intros e' e HE.
      destruct (Z.ltb_spec 0 (nx * (ny - 1))) as [L|L].
      + clear - HE. destruct e, e'; cbn [negb] in HE; cbn iota; split_eqb;
          cbn [andb orb negb Z.b2z Z.add]; try reflexivity;
          exfalso; assert (HE' := HE ltac:(lia)); discriminate.
      + assert (ny = 1) by nia. assert (y = 0 /\ y' = 0) as [-> ->] by lia.
        destruct e, e'; cbn iota; split_eqb; reflexivity.
  Qed.
End Main.

(* ---- lifted to vial indices ------------------------------------------------------ *)
Lemma In_zrange n j : In j (zrange n) <-> 0 <= j < Z.of_nat n.
Proof.
  induction n as [|n IH]; cbn [zrange].
  - split; [intros []|lia].
  - rewrite in_app_iff, IH. cbn [In]. lia.
Qed.

Lemma zsum_app l1 l2 : zsum (l1 ++ l2) = zsum l1 + zsum l2.
Proof. induction l1 as [|a l IH]; cbn; [reflexivity|]. unfold zsum in *. lia. Qed.

Lemma zsum_map_ext (f g : Z -> Z) l :
  (forall j, In j l -> f j = g j) -> zsum (map f l) = zsum (map g l).
Proof.
  induction l as [|a l IH]; intros H; cbn; [reflexivity|].
  rewrite (H a) by (left; reflexivity). f_equal. apply IH. intros; apply H; right; assumption.
Qed.

Lemma zsum_map_add (f g : Z -> Z) l :
  zsum (map (fun j => f j + g j) l) = zsum (map f l) + zsum (map g l).
Proof. induction l as [|a l IH]; cbn; [reflexivity|]. unfold zsum in *. lia. Qed.

Lemma zsum_zero (l : list Z) : zsum (map (fun _ => 0) l) = 0.
Proof. induction l as [|a l IH]; [reflexivity|]. cbn [map]. unfold zsum in *. cbn [fold_right]. lia. Qed.

Lemma zsum_indicator n i c : 0 <= i < Z.of_nat n ->
  zsum (map (fun j => if i =? j then c else 0) (zrange n)) = c.
Proof.
  induction n as [|n IH]; intros Hi; [lia|].
  cbn [zrange]. rewrite map_app, zsum_app. cbn [map zsum fold_right].
  destruct (Z.eqb_spec i (Z.of_nat n)) as [E|E].
  - rewrite (zsum_map_ext _ (fun _ => 0)).
    + rewrite zsum_zero. subst i. destruct (Z.eqb_spec (Z.of_nat n) (Z.of_nat n)); lia.
    + intros j Hj. apply In_zrange in Hj. destruct (Z.eqb_spec i j); [lia|reflexivity].
  - rewrite IH by lia. destruct (Z.eqb_spec i (Z.of_nat n)); lia.
Qed.

Section Lifted.
  Variables (a : arrangement) (nx ny nz : Z).
  Hypothesis Hnx : 0 < nx.
  Hypothesis Hny : 0 < ny.
  Hypothesis Hnz : 0 < nz.
  Let N := nvials nx ny nz.

  Lemma adj_is_nbr i j : 0 <= i < N -> 0 <= j < N ->
    adj a nx ny nz i j = Z.b2z (nbr a nx ny nz i j).
  Proof.
    intros Hi Hj. unfold N, nvials in *.
    destruct (decompose nx ny Hnx Hny nz i Hi) as (Ei & ? & ? & ?).
    destruct (decompose nx ny Hnx Hny nz j Hj) as (Ej & ? & ? & ?).
    unfold nbr. rewrite Ei at 1. rewrite Ej at 1.
    apply adj_coords; assumption.
  Qed.

  Lemma adj_sym i j : adj a nx ny nz i j = adj a nx ny nz j i.
  Proof.
    unfold adj, DX, DY, DZ, sym. destruct a.
    - destruct (1 <? nz); lia.
    - rewrite (Z.eqb_sym (i / (nx * ny))). unfold hex_layer, sym.
      destruct (1 <? nz), (j / (nx * ny) =? i / (nx * ny)), (0 <? nx * (ny - 1)); lia.
  Qed.

  Lemma nbr_irrefl i : nbr a nx ny nz i i = false.
  Proof.
    unfold nbr, nbr_coords. rewrite !Z.sub_diag. cbn [Z.abs].
    change (0 =? 1) with false. now rewrite !andb_false_r, ?andb_false_l.
  Qed.

  Lemma vial_int_is_nbr_count i : 0 <= i < N ->
    vial_int a nx ny nz i = nbr_count a nx ny nz i.
  Proof.
    intros Hi. unfold vial_int, nbr_count. apply zsum_map_ext.
    intros j Hj. apply In_zrange in Hj.
    assert (0 <= N) by (unfold N, nvials; nia).
    fold N in Hj. rewrite Z2Nat.id in Hj by assumption.
    rewrite adj_is_nbr by assumption. reflexivity.
  Qed.

  Lemma vial_ext_spec i : 0 <= i < N ->
    vial_ext a nx ny nz i = max_int a nz - nbr_count a nx ny nz i.
  Proof. intros; unfold vial_ext; now rewrite vial_int_is_nbr_count. Qed.

  Lemma IA_offdiag i j : 0 <= i < N -> 0 <= j < N -> i <> j ->
    IA a nx ny nz i j = Z.b2z (nbr a nx ny nz i j).
  Proof.
    intros Hi Hj Hne. unfold IA. destruct (Z.eqb_spec i j); [contradiction|].
    rewrite adj_is_nbr by assumption. lia.
  Qed.

  Lemma IA_diag i : 0 <= i < N -> IA a nx ny nz i i = - nbr_count a nx ny nz i.
  Proof.
    intros Hi. unfold IA. rewrite Z.eqb_refl, adj_is_nbr, nbr_irrefl by assumption.
    rewrite vial_int_is_nbr_count by assumption. cbn; lia.
  Qed.

  Lemma IA_sym i j : 0 <= i < N -> 0 <= j < N ->
    IA a nx ny nz i j = IA a nx ny nz j i.
  Proof.
    intros Hi Hj. unfold IA. rewrite adj_sym, (Z.eqb_sym i j).
    destruct (Z.eqb_spec j i) as [->|]; reflexivity.
  Qed.

  Lemma IA_row_sum i : 0 <= i < N ->
    zsum (map (IA a nx ny nz i) (zrange (Z.to_nat N))) = 0.
  Proof.
    intros Hi. unfold IA.
    rewrite (zsum_map_add (adj a nx ny nz i) (fun j => - (if i =? j then vial_int a nx ny nz i else 0))).
    rewrite (zsum_map_ext (fun j => - (if i =? j then vial_int a nx ny nz i else 0))
                          (fun j => if i =? j then - vial_int a nx ny nz i else 0)).
    - rewrite zsum_indicator by (rewrite Z2Nat.id; lia). unfold vial_int. fold N. lia.
    - intros j _. destruct (i =? j); lia.
  Qed.
End Lifted.
