(* Proofs about the 1D / 0D Snowing step models over R (C02, C07, C15, C20). *)
From Coq Require Import Reals ZArith Lra Lia List Bool Psatz.
From Coquelicot Require Import Coquelicot.
From Snow Require Import Num NumR Sn1D.
Import ListNotations.
Local Open Scope R_scope.

Fixpoint lsum (l : list R) : R := match l with [] => 0 | x :: r => x + lsum r end.
Lemma lsum_app a b : lsum (a ++ b) = lsum a + lsum b.
Proof. induction a as [|x a IH]; cbn [app lsum]; [lra|]. rewrite IH. lra. Qed.

Lemma Forall_last (Q : R -> Prop) : forall l d, l <> [] -> List.Forall Q l -> Q (last l d).
Proof.
  induction l as [|x r IH]; intros d Hne H; [contradiction|]. inversion H; subst.
  destruct r as [|y r']; [assumption|]. change (last (x :: y :: r') d) with (last (y :: r') d). apply IH; [discriminate|assumption].
Qed.

Section Cool.
  Variable P : @p1d R.
  Notation dz := (q_dz P). Notation dt := (q_dt P). Notation K := (q_K P). Notation lam := (q_lam0 P).
  Notation alpha := (q_alpha0 P).
  Let c := alpha * dt / (dz * dz).
  Let f (a b d : R) : R := b + c * (d - 2 * b + a).

  (* telescoping sum of the interior stencil *)
  Lemma interior_sum : forall l prev, l <> [] ->
    lsum (interior f prev l) = lsum (removelast l) + c * ((last l 0 - lbo prev l) - (hd 0 l - prev)).
  Proof.
    induction l as [|x r IH]; intros prev Hne; [contradiction|].
    destruct r as [|y r'].
    - cbn. lra.
    - change (interior f prev (x :: y :: r')) with (f prev x y :: interior f x (y :: r')).
      change (removelast (x :: y :: r')) with (x :: removelast (y :: r')).
      change (last (x :: y :: r') 0) with (last (y :: r') 0).
      change (lbo prev (x :: y :: r')) with (lbo x (y :: r')).
      cbn [lsum hd].
      rewrite (IH x) by discriminate. cbn [hd]. unfold f. lra.
  Qed.

  Lemma removelast_sum l : l <> [] -> lsum l = lsum (removelast l) + last l 0.
  Proof.
    induction l as [|x r IH]; intros Hne; [contradiction|]. destruct r as [|y r'].
    - cbn. lra.
    - change (removelast (x :: y :: r')) with (x :: removelast (y :: r')).
      change (last (x :: y :: r') 0) with (last (y :: r') 0). cbn [lsum]. cbn [lsum] in IH. rewrite IH by discriminate. lra.
  Qed.

  (* the cooling step in explicit form *)
  Lemma cool_step_unfold T0 T1 r Tsh qe :
    let T := T0 :: T1 :: r in
    let Tb := T0 + K * (Tsh - T0) * dz / lam in
    let Tn := last T 0 in
    let Ttop := Tn + qe * dz / lam in
    cool_step Rops P T Tsh qe
    = (T0 + c * (T1 - 2 * T0 + Tb)) :: interior f T0 (T1 :: r) ++ [Tn + c * (Ttop - 2 * Tn + lbo T0 (T1 :: r))].
  Proof. reflexivity. Qed.

  (* C02: exact energy balance of the cooling step: the heat content changes by exactly the heat that
     crossed the bottom (shelf) and the top (evaporation) boundaries; interior fluxes cancel *)
  Theorem cool_step_energy_exact T0 T1 r Tsh qe rho cp :
    dz <> 0 -> lam <> 0 -> rho * cp <> 0 -> alpha = lam / (cp * rho) ->
    let T := T0 :: T1 :: r in
    rho * cp * dz * (lsum (cool_step Rops P T Tsh qe) - lsum T)
    = dt * (K * (Tsh - T0) + qe).
  Proof.
    intros Hdz Hlam Hrc Ha T. unfold T. rewrite cool_step_unfold. cbn zeta.
    cbn [lsum]. rewrite lsum_app, interior_sum by discriminate.
    cbn [lsum]. change (T1 + lsum r) with (lsum (T1 :: r)).
    rewrite (removelast_sum (T1 :: r)) by discriminate.
    change (last (T0 :: T1 :: r) 0) with (last (T1 :: r) 0). cbn [hd].
    set (Tn := last (T1 :: r) 0). set (L := lbo T0 (T1 :: r)). set (S := lsum (removelast (T1 :: r))).
    unfold c. rewrite Ha. field. repeat split; try assumption; intros E; apply Hrc; rewrite E; ring.
  Qed.

  (* C07: discrete maximum principle of the cooling step (no evaporation): every new value is a convex
     combination of old values and the shelf temperature *)
  Lemma interior_bounds lo hi : 0 <= c -> 2 * c <= 1 -> forall l prev,
    lo <= prev <= hi -> List.Forall (fun x => lo <= x <= hi) l ->
    List.Forall (fun x => lo <= x <= hi) (interior f prev l).
  Proof.
    intros Hc0 Hc. induction l as [|x r IH]; intros prev Hp Hl; [constructor|].
    destruct r as [|y r']; [constructor|].
    change (interior f prev (x :: y :: r')) with (f prev x y :: interior f x (y :: r')).
    inversion Hl as [|? ? Hx Hr]; subst. inversion Hr as [|? ? Hy _]; subst.
    constructor; [|apply IH; assumption].
    unfold f. split; nra.
  Qed.

  Theorem cool_step_max_principle T0 T1 r Tsh lo hi :
    0 < dz -> 0 < lam -> 0 <= K -> 0 <= c -> 2 * c <= 1 -> c * (1 + K * dz / lam) <= 1 ->
    List.Forall (fun x => lo <= x <= hi) (T0 :: T1 :: r) -> lo <= Tsh <= hi ->
    List.Forall (fun x => lo <= x <= hi) (cool_step Rops P (T0 :: T1 :: r) Tsh 0).
  Proof.
    intros Hdz Hlam HK Hc0 Hc Hb HT HTs. rewrite cool_step_unfold. cbn zeta.
    inversion HT as [|? ? H0 HT1]; subst.
    assert (Hlast : lo <= last (T0 :: T1 :: r) 0 <= hi) by (apply (Forall_last (fun x => lo <= x <= hi)); [discriminate|exact HT]).
    assert (Hlbo : lo <= lbo T0 (T1 :: r) <= hi).
    { clear - HT. revert T0 HT. induction (T1 :: r) as [|x l IH]; intros p Hp.
      - inversion Hp; assumption.
      - destruct l as [|y l']; [inversion Hp; assumption|]. change (lbo p (x :: y :: l')) with (lbo x (y :: l')).
        apply IH. inversion Hp; assumption. }
    set (Bi := K * dz / lam) in *. assert (HBi : 0 <= Bi) by (unfold Bi; apply Rmult_le_pos; [apply Rmult_le_pos; lra|left; apply Rinv_0_lt_compat; lra]).
    constructor.
    - (* bottom: (1 - c - c Bi) T0 + c T1 + c Bi Tsh *)
      inversion HT1 as [|? ? H1 _]; subst.
      replace (T0 + c * (T1 - 2 * T0 + (T0 + K * (Tsh - T0) * dz / lam))) with ((1 - c - c * Bi) * T0 + c * T1 + (c * Bi) * Tsh) by (unfold Bi; field; lra).
      assert (0 <= c * Bi) by (apply Rmult_le_pos; assumption). assert (0 <= 1 - c - c * Bi) by lra.
      split; nra.
    - apply Forall_app. split; [apply interior_bounds; assumption|]. constructor; [|constructor].
      replace (0 * dz / lam) with 0 by (field; lra).
      set (Tn := last (T0 :: T1 :: r) 0) in *. set (L := lbo T0 (T1 :: r)) in *.
      replace (Tn + c * (Tn + 0 - 2 * Tn + L)) with ((1 - c) * Tn + c * L) by ring. split; nra.
  Qed.
End Cool.

(* ---- adiabatic nucleation (quadratic enthalpy balance) ------------------------------------------------ *)
Section Nucleation.
  Variable P : @p1d R.
  Notation Dh := (q_Dh P). Notation mw := (q_mw P). Notation ms := (q_ms P). Notation cp := (q_cp0 P).
  Notation m := (q_mass P). Notation Tm := (q_Tm P). Notation kf := (q_kf P). Notation Ms := (q_Ms P).
  Hypothesis Hcpm : cp * m <> 0.
  Hypothesis HMs : Ms <> 0.
  Variable Tn : R.
  Ltac nz := repeat split; try assumption; try (intros E0; apply Hcpm; rewrite E0; ring).
  Let g := Dh * mw / (cp * m).
  Let h := ms * (kf / Ms) * Dh / (cp * m).
  Let x := nuc_Teq Rops P Tn.
  Let disc := (Tm - Tn - g) * (Tm - Tn - g) + 4 * h.

  Lemma nuc_Teq_closed : 0 <= disc -> x = ((Tm + Tn + g) - sqrt disc) / 2.
  Proof.
    intros Hd. unfold x, nuc_Teq. cbn [nadd nsub nmul ndiv nopp nsqrt nofZ Rops].
    fold g.
    replace ((- Tm - Tn - g) * (- Tm - Tn - g) - 4 * (Dh * mw * Tm / (cp * m) - ms * (kf / Ms) * Dh / (cp * m) + Tm * Tn)) with disc.
    - field.
    - unfold disc, h, g. field. nz.
  Qed.

  (* the root satisfies the quadratic, i.e. (x - Tn)(Tm - x) = g (Tm - x) - h *)
  Lemma nuc_quadratic : 0 <= disc -> (x - Tn) * (Tm - x) = g * (Tm - x) - h.
  Proof.
    intros Hd. rewrite (nuc_Teq_closed Hd). assert (E := sqrt_sqrt disc Hd). set (s := sqrt disc) in *.
    assert (E' : s * s = (Tm - Tn - g) * (Tm - Tn - g) + 4 * h) by (rewrite E; reflexivity).
    field_simplify_eq. nra.
  Qed.

  (* nucleation neither adds nor removes energy: sensible heat released by warming from Tn to x equals the
     latent heat of the ice formed,  cp m (x - Tn) = Dh m_i(x)  with  m_i(x) = mw - ms (kf/Ms) / (Tm - x) *)
  Theorem nucleation_is_adiabatic : 0 <= disc -> Tm - x <> 0 ->
    cp * m * (x - Tn) = Dh * (mw - ms * (kf / Ms) / (Tm - x)).
  Proof.
    intros Hd Hx. assert (Q := nuc_quadratic Hd).
    apply Rmult_eq_reg_r with (Tm - x); [|exact Hx].
    replace (cp * m * (x - Tn) * (Tm - x)) with (cp * m * ((x - Tn) * (Tm - x))) by ring. rewrite Q.
    unfold g, h. field. nz.
  Qed.

  (* for a supercooled point (ice would be stable at Tn) the new temperature lies strictly between Tn and
     the equilibrium freezing temperature T_eq_l (where the equilibrium ice mass vanishes) *)
  Theorem nucleation_root_between Teql : 0 < h -> 0 < g ->
    Tn < Teql -> Teql < Tm -> g * (Tm - Teql) = h ->         (* m_i(Teql) = 0 *)
    Tn < x < Teql.
  Proof.
    intros Hh Hg HT HTe Hzero.
    assert (Hd : 0 <= disc) by (unfold disc; assert (0 <= (Tm - Tn - g) * (Tm - Tn - g)) by apply Rle_0_sqr; lra).
    assert (Q := nuc_quadratic Hd). rewrite (nuc_Teq_closed Hd) in *.
    assert (E := sqrt_sqrt disc Hd). assert (Hs : 0 <= sqrt disc) by apply sqrt_pos. set (s := sqrt disc) in *.
    assert (E' : s * s = (Tm - Tn - g) * (Tm - Tn - g) + 4 * h) by (rewrite E; reflexivity).
    (* p(y) = (y - x1)(y - x2) with x1 = (S - s)/2, x2 = (S + s)/2, S = Tm + Tn + g;  p(Tn) = h + ... *)
    set (S := Tm + Tn + g) in *.
    assert (Fac : forall y, (y - (S - s) / 2) * (y - (S + s) / 2) = y * y - S * y + (S * S - s * s) / 4) by (intros; field).
    assert (PTn : (Tn - (S - s) / 2) * (Tn - (S + s) / 2) = g * (Tm - Tn) - h).
    { rewrite Fac, E'. unfold S. field. }
    assert (PTe : (Teql - (S - s) / 2) * (Teql - (S + s) / 2) = (Teql - Tn) * (Teql - Tm)).
    { rewrite Fac, E'. unfold S. assert (Hh' : h = g * (Tm - Teql)) by lra. rewrite Hh'. field. }
    assert (N1 : 0 < g * (Tm - Tn) - h) by nra.
    assert (N2 : (Teql - Tn) * (Teql - Tm) < 0) by nra.
    assert (Hx12 : (S - s) / 2 <= (S + s) / 2) by lra.
    (* p(Tn) > 0 and p(Teql) < 0 with Tn < Teql: the smaller root x1 lies strictly between them *)
    set (x1 := (S - s) / 2) in *. set (x2 := (S + s) / 2) in *.
    rewrite <- PTn in N1. rewrite <- PTe in N2.
    assert (Teql_mid : x1 < Teql < x2).
    { destruct (Rle_lt_dec Teql x1) as [H1|H1].
      - exfalso. assert (0 <= (Teql - x1) * (Teql - x2)) by (assert (Teql - x2 <= 0) by lra; nra). lra.
      - destruct (Rle_lt_dec x2 Teql) as [H2|H2]; [|lra].
        exfalso. assert (0 <= (Teql - x1) * (Teql - x2)) by (apply Rmult_le_pos; lra). lra. }
    split; [|lra].
    destruct (Rle_lt_dec x1 Tn) as [H1|H1]; [|lra].
    exfalso. assert ((Tn - x1) * (Tn - x2) <= 0) by (assert (Tn - x2 <= 0) by lra; assert (0 <= Tn - x1) by lra; nra). lra.
  Qed.
End Nucleation.

(* ---- apparent heat capacity = derivative of the equilibrium enthalpy ---------------------------------- *)
Section Enthalpy.
  Variables Dh kf Ms ms m cp Tm : R.
  Hypothesis Hm : m <> 0. Hypothesis HMs : Ms <> 0. Hypothesis Hcp : cp <> 0.
  (* equilibrium ice mass fraction on the liquidus and specific enthalpy (sensible minus latent) *)
  Definition w_ice (T : R) : R := ((m - ms) - ms * (kf / Ms) / (Tm - T)) / m.
  Definition enthalpy (T : R) : R := cp * T - Dh * w_ice T.
  (* BETA of the solidification scheme:  1 + beta / (T - Tm)^2  with  beta = Dh kf ms / (Ms m cp) *)
  Definition BETA (T : R) : R := 1 + (Dh * kf * ms / (Ms * m * cp)) / ((T - Tm) * (T - Tm)).

  Theorem apparent_capacity_is_enthalpy_derivative T : T <> Tm ->
    is_derive enthalpy T (cp * BETA T).
  Proof.
    intros HT. unfold enthalpy, w_ice, BETA. auto_derive.
    - repeat split; try assumption. intros E. apply HT. lra.
    - field. repeat split; try assumption; intros E; apply HT; lra.
  Qed.
End Enthalpy.

(* ---- vacuum window (C20) --------------------------------------------------------------------------------- *)
Section Window.
  Variable P : @p1d R.
  (* outside the open window (and always for shelf / jacket) the evaporative flux is exactly zero ... *)
  Lemma q_evap_outside visf t ts td flux dHe :
    visf = false \/ t <= ts * 3600 \/ (ts + td) * 3600 <= t -> q_evap Rops visf t ts td flux dHe = 0.
  Proof.
    intros H. unfold q_evap, in_window. cbn [nltb nmul nadd nofZ Rops].
    destruct H as [->|[H|H]]; [reflexivity| |].
    - assert (Rltb (ts * 3600) t = false) as -> by (apply Rltb_false; exact H). now rewrite andb_false_r.
    - assert (Rltb t ((ts + td) * 3600) = false) as -> by (apply Rltb_false; exact H). now rewrite !andb_false_r.
  Qed.
  Lemma q_evap_inside t ts td flux dHe : ts * 3600 < t < (ts + td) * 3600 ->
    q_evap Rops true t ts td flux dHe = - flux * dHe.
  Proof.
    intros [H1 H2]. unfold q_evap, in_window. cbn [nltb nmul nadd nopp nofZ Rops].
    assert (Rltb (ts * 3600) t = true) as -> by (apply Rltb_true; exact H1).
    assert (Rltb t ((ts + td) * 3600) = true) as -> by (apply Rltb_true; exact H2). reflexivity.
  Qed.
  (* ... so a VISF step outside the window IS the shelf step, in both stages *)
  Theorem visf_step_equals_shelf_step_outside_window T W Tsh t ts td flux dHe :
    t <= ts * 3600 \/ (ts + td) * 3600 <= t ->
    cool_step Rops P T Tsh (q_evap Rops true t ts td flux dHe) = cool_step Rops P T Tsh (q_evap Rops false t ts td flux dHe)
    /\ solid_step Rops P T W Tsh (q_evap Rops true t ts td flux dHe) = solid_step Rops P T W Tsh (q_evap Rops false t ts td flux dHe).
  Proof. intros H. rewrite !q_evap_outside by tauto. split; reflexivity. Qed.
End Window.

(* ---- model hierarchy (C15): homogeneous Snowing model vs an isolated single-vial Snowflake ----------------- *)
From Snow Require Import Flake FlakeProofs.
Section Hierarchy.
  Variable P1 : @p1d R.
  Variable PF : @params R.
  Variable area : R.
  (* same vial: hl = m cp, shelf coefficient H_shelf = K A, equal time step *)
  Hypothesis Hhl : p_hl PF = q_mass P1 * q_cp0 P1.
  Hypothesis Hdt : p_dt PF = q_dt P1.
  Hypothesis Hnz : q_cp0 P1 * q_mass P1 <> 0.

  Theorem cooling_0D_equals_isolated_snowflake_vial T Tsh :
    cool0 Rops P1 area Tsh T
    = rliquid_T PF (heat Rops PF [T] [] T 0 (q_K P1 * area) Tsh Tsh) T.
  Proof.
    unfold cool0, rliquid_T, liquid_T, heat, qint. cbn [nsum map length nadd nsub nmul ndiv nofZ Rops Z.of_nat Z.opp].
    unfold n0. cbn [nofZ Rops]. rewrite Hhl, Hdt. field. split; intros E; apply Hnz; rewrite E; ring.
  Qed.

  (* both nucleation states satisfy the same two equations: the temperature lies on the freezing-point-depression
     curve of the ice formed, and the sensible heat released equals the latent heat of that ice *)
  Theorem nucleation_0D_satisfies_the_snowflake_direct_balance Tn :
    let x := fst (nuc0 Rops P1 Tn) in
    let sigma := (q_mw P1 - q_ms P1 * (q_kf P1 / q_Ms P1) / (q_Tm P1 - x)) / q_mw P1 in
    let D := q_kf P1 / q_Ms P1 * (q_ms P1 / q_mw P1) in
    let gamma := q_Dh P1 * (q_mw P1 / q_mass P1) / q_cp0 P1 in
    q_Ms P1 <> 0 -> q_mw P1 <> 0 -> q_Tm P1 - x <> 0 -> q_ms P1 <> 0 -> q_kf P1 <> 0 ->
    0 <= (q_Tm P1 - Tn - q_Dh P1 * q_mw P1 / (q_cp0 P1 * q_mass P1)) * (q_Tm P1 - Tn - q_Dh P1 * q_mw P1 / (q_cp0 P1 * q_mass P1))
         + 4 * (q_ms P1 * (q_kf P1 / q_Ms P1) * q_Dh P1 / (q_cp0 P1 * q_mass P1)) ->
    x = q_Tm P1 - D / (1 - sigma) /\ x - Tn = sigma * gamma.
  Proof.
    intros x sigma D gamma HMs Hmw Hx Hms Hkf Hd.
    assert (Ex : x = nuc_Teq Rops P1 Tn) by reflexivity.
    assert (Ad : q_cp0 P1 * q_mass P1 * (x - Tn) = q_Dh P1 * (q_mw P1 - q_ms P1 * (q_kf P1 / q_Ms P1) / (q_Tm P1 - x))).
    { rewrite Ex. apply nucleation_is_adiabatic; try assumption; try (rewrite <- Ex; exact Hx). }
    assert (Hcp : q_cp0 P1 <> 0) by (intros E; apply Hnz; rewrite E; ring).
    assert (Hm : q_mass P1 <> 0) by (intros E; apply Hnz; rewrite E; ring).
    clearbody x. unfold D, gamma, sigma. split.
    - field. repeat split; try assumption.
      replace (q_Ms P1 * (q_Tm P1 - x) * q_mw P1 - (q_mw P1 * (q_Ms P1 * (q_Tm P1 - x)) - q_ms P1 * q_kf P1)) with (q_ms P1 * q_kf P1) by ring.
      apply Rmult_integral_contrapositive_currified; assumption.
    - apply Rmult_eq_reg_l with (q_cp0 P1 * q_mass P1); [|exact Hnz]. rewrite Ad. field. repeat split; assumption.
  Qed.
End Hierarchy.

(* ---- ice / temperature relation and the solidification stencil (C07) ---------------------------------------- *)
Section Solid.
  Variable P : @p1d R.
  Notation mw := (q_mw P). Notation ms := (q_ms P). Notation m := (q_mass P). Notation Tm := (q_Tm P).
  Notation kf := (q_kf P). Notation Ms := (q_Ms P). Notation Teql := (q_Teql P).

  (* wherever ice is reported the ice fraction is the liquidus value; it is positive below T_eq_l, below the
     water fraction, and zero at or above T_eq_l *)
  Theorem ice_relation T : 0 < m -> 0 < ms * (kf / Ms) -> 0 < mw ->
    Teql = Tm - ms * (kf / Ms) / mw ->
    (T < Teql -> ice_of Rops P T = (mw - ms * (kf / Ms) / (Tm - T)) / m /\ 0 < ice_of Rops P T < mw / m)
    /\ (Teql <= T -> ice_of Rops P T = 0).
  Proof.
    intros Hm Hk Hmw HT. unfold ice_of. cbn [nltb nsub nmul ndiv nofZ Rops]. split.
    - intros Hlt. assert (Rltb T Teql = true) as -> by (apply Rltb_true; exact Hlt). split; [reflexivity|].
      assert (Hd : ms * (kf / Ms) / mw < Tm - T) by lra.
      assert (Hpos : 0 < Tm - T) by (assert (0 < ms * (kf / Ms) / mw) by (apply Rdiv_lt_0_compat; assumption); lra).
      assert (Hq : ms * (kf / Ms) / (Tm - T) < mw).
      { apply Rmult_lt_reg_r with (Tm - T); [exact Hpos|]. unfold Rdiv at 1. rewrite Rmult_assoc, Rinv_l by lra.
        apply Rmult_lt_reg_r with (/ mw); [apply Rinv_0_lt_compat; exact Hmw|].
        replace (mw * (Tm - T) * / mw) with (Tm - T) by (field; lra). unfold Rdiv in Hd. lra. }
      assert (0 < ms * (kf / Ms) / (Tm - T)) by (apply Rdiv_lt_0_compat; assumption).
      split.
      + apply Rdiv_lt_0_compat; lra.
      + unfold Rdiv. apply Rmult_lt_compat_r; [apply Rinv_0_lt_compat; exact Hm|]. lra.
    - intros Hge. assert (Rltb T Teql = false) as -> by (apply Rltb_false; exact Hge). reflexivity.
  Qed.

  (* interior point of the solidification step: a convex combination of the point and its two neighbours when
     the diagonal weight is non-negative and the conductivity does not vary too fast (hypotheses evaluated per run) *)
  Theorem solid_point_convex a b d la lb ld w lo hi :
    let F := q_dt P / (cp_of Rops P w * q_rho P) / (q_dz P * q_dz P) * (1 / BETA_of Rops P b w) in
    0 <= F -> 2 * F * lb <= 1 -> Rabs (ld - la) <= 4 * lb ->
    q_dz P <> 0 -> cp_of Rops P w <> 0 -> q_rho P <> 0 -> BETA_of Rops P b w <> 0 ->
    lo <= a <= hi -> lo <= b <= hi -> lo <= d <= hi ->
    lo <= solid_point Rops P a b d la lb ld w <= hi.
  Proof.
    intros F HF Hdiag Hvar Hdz Hcp Hrho HB Ha Hb Hd.
    assert (E : solid_point Rops P a b d la lb ld w
                = (1 - 2 * F * lb) * b + (F * (lb + (ld - la) / 4)) * d + (F * (lb - (ld - la) / 4)) * a).
    { unfold solid_point, F. cbn [nadd nsub nmul ndiv nofZ Rops]. field. repeat split; assumption. }
    rewrite E. assert (Hv2 : - (4 * lb) <= ld - la <= 4 * lb) by (unfold Rabs in Hvar; destruct (Rcase_abs (ld - la)); lra). clear Hvar.
    assert (0 <= F * (lb + (ld - la) / 4)) by (apply Rmult_le_pos; lra).
    assert (0 <= F * (lb - (ld - la) / 4)) by (apply Rmult_le_pos; lra).
    assert (0 <= 1 - 2 * F * lb) by lra.
    set (c0 := 1 - 2 * F * lb) in *. set (c1 := F * (lb + (ld - la) / 4)) in *. set (c2 := F * (lb - (ld - la) / 4)) in *.
    assert (c0 + c1 + c2 = 1) by (unfold c0, c1, c2; ring).
    split; nra.
  Qed.

  (* ghost points carry exactly the boundary fluxes (C02) *)
  Lemma ghost_bottom_flux T0 Tsh lam : lam <> 0 -> q_dz P <> 0 ->
    lam * ((T0 + q_K P * (Tsh - T0) * q_dz P / lam) - T0) / q_dz P = q_K P * (Tsh - T0).
  Proof. intros. field. split; assumption. Qed.
  Lemma ghost_top_flux Tn qe lam : lam <> 0 -> q_dz P <> 0 ->
    lam * ((Tn + qe * q_dz P / lam) - Tn) / q_dz P = qe.
  Proof. intros. field. split; assumption. Qed.
End Solid.
