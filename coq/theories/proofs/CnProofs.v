(* Controlled-nucleation trigger: cnt is the last index of the 1 s profile at or above cnTemp;
   k_CN is the first simulation step at or after it. *)
From Coq Require Import Reals ZArith Lra Lia List Bool.
From Snow Require Import Num NumR OpCond OpCondProofs.
Import ListNotations.
Local Open Scope R_scope.

Lemma last_ge_from_spec cn d : forall l i acc,
  match last_ge_from Rops cn l i acc with
  | r =>
    (r = acc /\ Forall (fun x => x < cn) l)
    \/ exists k, r = Some (i + Z.of_nat k)%Z /\ (k < length l)%nat /\ cn <= nth k l d
                 /\ forall j, (k < j < length l)%nat -> nth j l d < cn
  end.
Proof.
  induction l as [|x l IH]; intros i acc; cbn [last_ge_from].
  - left. split; [reflexivity|constructor].
  - cbn [nleb Rops]. destruct (Rleb cn x) eqn:E.
    + apply Rleb_true in E.
      destruct (IH (i + 1)%Z (Some i)) as [[Hr HF]|(k & Hr & Hk & Hn & Hj)].
      * right. exists 0%nat. rewrite Hr. repeat split.
        -- f_equal; lia. -- cbn; lia. -- exact E.
        -- intros j Hj. destruct j as [|j]; [lia|]. cbn [nth].
           rewrite Forall_forall in HF. apply HF, nth_In. cbn in Hj. lia.
      * right. exists (S k). rewrite Hr. repeat split.
        -- f_equal; lia. -- cbn; lia. -- exact Hn.
        -- intros j Hj'. destruct j as [|j]; [lia|]. cbn [nth]. apply Hj. cbn in Hj'. lia.
    + apply Rleb_false in E.
      destruct (IH (i + 1)%Z acc) as [[Hr HF]|(k & Hr & Hk & Hn & Hj)].
      * left. split; [exact Hr|constructor; assumption].
      * right. exists (S k). rewrite Hr. repeat split.
        -- f_equal; lia. -- cbn; lia. -- exact Hn.
        -- intros j Hj'. destruct j as [|j]; [lia|]. cbn [nth]. apply Hj. cbn in Hj'. lia.
Qed.

(* if some sample is at or above cnTemp, cnt is the LAST such index *)
Theorem cnt_is_last_ge cn prof d : Exists (fun x => cn <= x) prof ->
  let c := Z.to_nat (cnt Rops cn prof) in
  (cnt Rops cn prof = Z.of_nat c) /\ (c < length prof)%nat /\ cn <= nth c prof d
  /\ forall j, (c < j < length prof)%nat -> nth j prof d < cn.
Proof.
  intros HE. unfold cnt.
  destruct (last_ge_from_spec cn d prof 0%Z None) as [[Hr HF]|(k & Hr & Hk & Hn & Hj)].
  - exfalso. apply Exists_exists in HE. destruct HE as (x & Hx & Hcx).
    rewrite Forall_forall in HF. specialize (HF x Hx). lra.
  - rewrite Hr. cbn zeta. rewrite Z.add_0_l, Nat2Z.id. auto.
Qed.

(* on a non-increasing profile every sample up to cnt is at or above cnTemp as well:
   cnt is the last moment the shelf is still >= cnTemp *)
Lemma chain_nonincreasing D p l d : 0 <= D -> chain_from D p l ->
  forall i j, (i <= j < length l)%nat -> nth j l d <= nth i l d.
Proof.
  intros HD H i j [Hij Hj]. revert Hj. induction Hij as [|j Hij IH]; intros Hj.
  - lra.
  - assert (Hs := chain_from_nth D p l d H j Hj). specialize (IH ltac:(lia)). lra.
Qed.

Theorem cnt_prefix_above cn prof D p d : 0 <= D -> chain_from D p prof ->
  Exists (fun x => cn <= x) prof ->
  forall j, (j <= Z.to_nat (cnt Rops cn prof))%nat -> cn <= nth j prof d.
Proof.
  intros HD HC HE j Hj. destruct (cnt_is_last_ge cn prof d HE) as (_ & Hc & Hn & _).
  assert (H := chain_nonincreasing D p prof d HD HC j _ (conj Hj Hc)). lra.
Qed.

(* k_CN: the first step k (searching k0, k0+1, ...) whose time k dt is >= cnt *)
Lemma first_step_ge_spec dt c : forall fuel k0,
  match first_step_ge Rops dt c k0 fuel with
  | Some k => (k0 <= k < k0 + Z.of_nat fuel)%Z /\ IZR c <= IZR k * dt
              /\ forall j, (k0 <= j < k)%Z -> IZR j * dt < IZR c
  | None => forall j, (k0 <= j < k0 + Z.of_nat fuel)%Z -> IZR j * dt < IZR c
  end.
Proof.
  induction fuel as [|f IH]; intros k0; cbn [first_step_ge].
  - intros j Hj; lia.
  - cbn [nleb nofZ nmul Rops]. destruct (Rleb (IZR c) (IZR k0 * dt)) eqn:E.
    + apply Rleb_true in E. repeat split; try lia; try exact E.
    + apply Rleb_false in E. specialize (IH (k0 + 1)%Z).
      destruct (first_step_ge Rops dt c (k0 + 1) f) as [k|].
      * destruct IH as (R1 & R2 & R3). repeat split; try lia; try exact R2.
        intros j Hj. destruct (Z.eq_dec j k0) as [->|]; [exact E|apply R3; lia].
      * intros j Hj. destruct (Z.eq_dec j k0) as [->|]; [exact E|apply IH; lia].
Qed.
