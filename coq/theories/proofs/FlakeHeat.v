(* The heat flow of the step model is the sum over geometric neighbours, the surroundings and
   the shelf; the inter-vial part cancels over the batch. *)
From Coq Require Import Reals ZArith Lra Lia List Bool.
From Snow Require Import Num NumR Topology TopologyProofs HeatCancel Flake.
Import ListNotations.
Local Open Scope R_scope.

Section Heat.
  Variable P : @params R.
  Notation kA := (p_kintA P).

  Lemma nsum_R l : nsum Rops l = fold_right Rplus 0 l.
  Proof. induction l as [|a l IH]; [reflexivity|]. cbn [nsum fold_right]. rewrite IH. reflexivity. Qed.

  (* sum over a neighbour list *)
  Definition nbsum (f : nat -> R) (nb : list nat) : R := fold_right Rplus 0 (map f nb).

  Lemma qint_neighbour_sum T nb Ti :
    qint Rops P T nb Ti = kA * nbsum (fun j => nth j T 0 - Ti) nb.
  Proof.
    unfold qint, nbsum. rewrite nsum_R. cbn [nadd nmul nofZ Rops].
    change (nth ?j T (nofZ Rops 0)) with (nth j T 0).
    induction nb as [|j nb IH].
    - cbn. lra.
    - cbn [map fold_right length]. rewrite Nat2Z.inj_succ, Z.opp_succ, <- Z.sub_1_r, minus_IZR.
      assert (E : fold_right Rplus 0 (map (fun j0 => kA * nth j0 T 0) nb)
                  = kA * fold_right Rplus 0 (map (fun j0 => nth j0 T 0 - Ti) nb)
                    - IZR (- Z.of_nat (length nb)) * kA * Ti) by lra.
      rewrite E. ring.
  Qed.

  Theorem heat_is_neighbour_sum T nb Ti hext hsh Text Tshelf :
    heat Rops P T nb Ti hext hsh Text Tshelf
    = kA * nbsum (fun j => nth j T 0 - Ti) nb + hext * (Text - Ti) + hsh * (Tshelf - Ti).
  Proof. unfold heat. rewrite qint_neighbour_sum. reflexivity. Qed.

  (* neighbour lists taken from the arrangement's geometry *)
  Variables (a : arrangement) (nx ny nz : Z).
  Hypothesis Hnx : (0 < nx)%Z.
  Hypothesis Hny : (0 < ny)%Z.
  Hypothesis Hnz : (0 < nz)%Z.
  Let vials := zrange (Z.to_nat (nvials nx ny nz)).

  Lemma nbsum_filter (f : nat -> R) (p : Z -> bool) l :
    nbsum f (map Z.to_nat (filter p l)) = rsum l (fun j => if p j then f (Z.to_nat j) else 0).
  Proof.
    unfold nbsum. induction l as [|x l IH]; [reflexivity|].
    cbn [filter rsum fold_right]. destruct (p x); cbn [map fold_right].
    - unfold rsum in IH. rewrite IH. reflexivity.
    - unfold rsum in IH. rewrite IH. lra.
  Qed.

  Variable T : list R.
  Let Tf (j : Z) : R := nth (Z.to_nat j) T 0.

  Lemma model_qint_is_matrix_qint i : (0 <= i < nvials nx ny nz)%Z ->
    qint Rops P T (nbr_list a nx ny nz i) (Tf i) = kA * HeatCancel.qint a nx ny nz Tf i.
  Proof.
    intros Hi. rewrite qint_neighbour_sum. f_equal. unfold nbr_list. rewrite nbsum_filter.
    rewrite (qint_is_neighbour_sum a nx ny nz Hnx Hny Hnz Tf i Hi). reflexivity.
  Qed.

  (* energy exchanged between vials cancels exactly over the batch, for every temperature vector *)
  Theorem model_intervial_heat_cancels :
    rsum vials (fun i => qint Rops P T (nbr_list a nx ny nz i) (Tf i)) = 0.
  Proof.
    rewrite (rsum_ext _ _ (fun i => HeatCancel.qint a nx ny nz Tf i * kA)).
    - rewrite rsum_scal. unfold vials.
      rewrite (intervial_heat_cancels a nx ny nz Hnx Hny Hnz Tf). lra.
    - intros i Hi. rewrite model_qint_is_matrix_qint; [lra|].
      unfold vials in Hi. apply In_zrange in Hi.
      rewrite Z2Nat.id in Hi by (unfold nvials; nia). exact Hi.
  Qed.
End Heat.
