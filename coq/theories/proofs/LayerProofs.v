(* C19: a custom configuration overrides exactly the entries it names. *)
From Coq Require Import List Bool String ZArith Lia.
From Snow Require Import Layer.
Import ListNotations.

Definition step_upd (d : list (string * cfg)) (k : string) (v : cfg) : list (string * cfg) :=
  match v with
  | Node _ => set k (Node (upd (match get k d with Some (Node dl) => dl | _ => [] end) v)) d
  | Leaf _ => set k v d
  end.
Fixpoint upd_list (ul d : list (string * cfg)) : list (string * cfg) :=
  match ul with [] => d | (k, v) :: r => upd_list r (step_upd d k v) end.

Lemma upd_Node ul : forall d, upd d (Node ul) = upd_list ul d.
Proof.
  induction ul as [|[k v] r IH]; intros d; [reflexivity|].
  cbn [upd_list]. rewrite <- IH. destruct v; reflexivity.
Qed.

Lemma get_set_same k v l : get k (set k v l) = Some v.
Proof.
  induction l as [|[k' v'] r IH]; cbn [set get].
  - now rewrite String.eqb_refl.
  - destruct (String.eqb k k') eqn:E; cbn [get]; [now rewrite String.eqb_refl|now rewrite E].
Qed.
Lemma get_set_other k k' v l : k <> k' -> get k' (set k v l) = get k' l.
Proof.
  intros Hne. induction l as [|[k2 v2] r IH]; cbn [set get].
  - destruct (String.eqb_spec k' k); [congruence|reflexivity].
  - destruct (String.eqb_spec k k2) as [->|Hk]; cbn [get].
    + destruct (String.eqb_spec k' k2); [congruence|reflexivity].
    + destruct (String.eqb_spec k' k2); [reflexivity|exact IH].
Qed.
Lemma get_step_same d k v :
  get k (step_upd d k v)
  = Some (match v with
          | Leaf _ => v
          | Node _ => Node (upd (match get k d with Some (Node dl) => dl | _ => [] end) v)
          end).
Proof. unfold step_upd. destruct v; apply get_set_same. Qed.
Lemma get_step_other d k k' v : k <> k' -> get k' (step_upd d k v) = get k' d.
Proof. intros. unfold step_upd. destruct v; apply get_set_other; assumption. Qed.

Lemma get_None_notin k l : get k l = None <-> ~ In k (map fst l).
Proof.
  induction l as [|[k' v] r IH]; cbn [get map fst In]; [tauto|].
  destruct (String.eqb_spec k k') as [->|Hne]; [split; [discriminate|tauto]|].
  rewrite IH. split; [intros H [E|E]; [congruence|tauto]|tauto].
Qed.

(* one level: what the merged dictionary holds under key k *)
Theorem get_upd ul : NoDup (map fst ul) -> forall d k,
  get k (upd d (Node ul))
  = match get k ul with
    | None => get k d
    | Some (Leaf v) => Some (Leaf v)
    | Some (Node n) => Some (Node (upd (match get k d with Some (Node dl) => dl | _ => [] end) (Node n)))
    end.
Proof.
  intros ND d k. rewrite upd_Node. revert d. induction ul as [|[k1 v1] r IH]; intros d; [reflexivity|].
  cbn [map fst] in ND. inversion ND as [|? ? Hnin ND']; subst.
  cbn [upd_list get]. rewrite (IH ND').
  destruct (String.eqb_spec k k1) as [->|Hne].
  - assert (get k1 r = None) as -> by (apply get_None_notin; exact Hnin).
    rewrite get_step_same. destruct v1; reflexivity.
  - rewrite (get_step_other d k1 k v1) by congruence. reflexivity.
Qed.

(* well-formed: keys unique in every dictionary (YAML mappings) *)
Fixpoint wf (c : cfg) : Prop :=
  match c with
  | Leaf _ => True
  | Node l => NoDup (map fst l) /\ (fix all (l : list (string * cfg)) : Prop :=
                                      match l with [] => True | (_, v) :: r => wf v /\ all r end) l
  end.

Lemma wf_get k l c : wf (Node l) -> get k l = Some c -> wf c.
Proof.
  intros [_ H]. induction l as [|[k' v] r IH]; cbn [get]; [discriminate|].
  destruct H as [Hv Hr]. destruct (String.eqb k k'); [intros E; inversion E; subst; exact Hv|apply IH; exact Hr].
Qed.

(* (a) an entry named by the custom file holds the custom value afterwards *)
Theorem named_entries_are_overridden : forall p u d v,
  wf u -> lookup p u = Some (Leaf v) -> p <> [] ->
  lookup p (Node (upd d u)) = Some (Leaf v).
Proof.
  induction p as [|k p IH]; intros u d v Hwf Hl Hne; [congruence|].
  destruct u as [x|ul]; [discriminate|]. cbn [lookup] in Hl |- *.
  destruct (get k ul) as [c|] eqn:Eg; [|discriminate].
  rewrite (get_upd ul (proj1 Hwf) d k), Eg.
  destruct c as [x|n].
  - destruct p; cbn [lookup] in Hl |- *; [exact Hl|discriminate].
  - destruct p as [|k2 p2]; [cbn in Hl; discriminate|].
    apply (IH (Node n)); [eapply wf_get; eassumption|exact Hl|discriminate].
Qed.

(* a path is untouched by the custom file if the file names neither it nor one of its prefixes *)
Fixpoint untouched (p : list string) (u : cfg) : Prop :=
  match p, u with
  | [], _ => True
  | k :: r, Node ul => match get k ul with None => True | Some (Leaf _) => False | Some (Node n) => untouched r (Node n) end
  | _ :: _, Leaf _ => False
  end.

(* (b) every other entry keeps its default *)
Theorem other_entries_keep_default : forall p u d v,
  wf u -> untouched p u -> compatible d u = true -> lookup p (Node d) = Some (Leaf v) ->
  lookup p (Node (upd d u)) = Some (Leaf v).
Proof.
  induction p as [|k p IH]; intros u d v Hwf Hun Hc Hl; [cbn in Hl; discriminate|].
  destruct u as [x|ul]; [cbn [upd]; exact Hl|].
  cbn [lookup] in Hl |- *. cbn [untouched] in Hun.
  rewrite (get_upd ul (proj1 Hwf) d k).
  destruct (get k ul) as [c|] eqn:Eg; [|exact Hl].
  destruct c as [x|n]; [contradiction|].
  destruct (get k d) as [dc|] eqn:Ed; [|discriminate].
  (* compatibility at key k *)
  assert (Hck : match dc with Node dl => compatible dl (Node n) = true | Leaf _ => False end).
  { clear - Hc Eg Ed. cbn [compatible] in Hc.
    induction ul as [|[k' v'] r IHr]; cbn [get] in Eg; [discriminate|].
    apply andb_true_iff in Hc. destruct Hc as [H1 H2].
    destruct (String.eqb_spec k k') as [->|Hne].
    - inversion Eg; subst. rewrite Ed in H1. destruct dc; [discriminate|exact H1].
    - apply IHr; assumption. }
  destruct dc as [x|dl]; [contradiction|].
  apply (IH (Node n) dl v); [eapply wf_get; eassumption|exact Hun|exact Hck|exact Hl].
Qed.
