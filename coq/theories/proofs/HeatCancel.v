(* Real-valued consequences of the topology theorem: the inter-vial heat flow of each
   vial is the sum over its geometric neighbours, and it cancels over the batch. *)
From Coq Require Import ZArith Reals Lra Lia List.
From Snow Require Import Topology TopologyProofs.
Import ListNotations.
Local Open Scope R_scope.

Definition rsum (l : list Z) (f : Z -> R) : R := fold_right (fun j acc => f j + acc) 0 l.

Lemma rsum_ext l f g : (forall j, In j l -> f j = g j) -> rsum l f = rsum l g.
Proof.
  induction l as [|a l IH]; intros H; cbn; [reflexivity|].
  rewrite (H a) by (left; reflexivity). f_equal. apply IH; intros; apply H; right; assumption.
Qed.
Lemma rsum_plus l f g : rsum l (fun j => f j + g j) = rsum l f + rsum l g.
Proof. induction l as [|a l IH]; cbn; [lra|]. unfold rsum in *. rewrite IH. lra. Qed.
Lemma rsum_scal l c f : rsum l (fun j => f j * c) = rsum l f * c.
Proof. induction l as [|a l IH]; cbn; [lra|]. unfold rsum in *. rewrite IH. lra. Qed.
Lemma rsum_zero l : rsum l (fun _ => 0) = 0.
Proof. induction l as [|a l IH]; cbn; [reflexivity|]. unfold rsum in *. rewrite IH. lra. Qed.
Lemma rsum_swap l l' (g : Z -> Z -> R) :
  rsum l (fun i => rsum l' (fun j => g i j)) = rsum l' (fun j => rsum l (fun i => g i j)).
Proof.
  induction l as [|a l IH]; cbn.
  - symmetry; apply rsum_zero.
  - unfold rsum in *. rewrite IH. symmetry. apply (rsum_plus l' (g a)).
Qed.
Lemma rsum_IZR l (f : Z -> Z) : rsum l (fun j => IZR (f j)) = IZR (zsum (map f l)).
Proof.
  induction l as [|a l IH]; cbn; [reflexivity|]. unfold rsum, zsum in *.
  rewrite IH, <- plus_IZR. reflexivity.
Qed.

Section Heat.
  Variables (a : arrangement) (nx ny nz : Z).
  Hypothesis Hnx : (0 < nx)%Z.
  Hypothesis Hny : (0 < ny)%Z.
  Hypothesis Hnz : (0 < nz)%Z.
  Let N := nvials nx ny nz.
  Let vials := zrange (Z.to_nat N).
  Variable T : Z -> R.

  (* (H_int @ T)_i / (k_int A) *)
  Definition qint (i : Z) : R := rsum vials (fun j => IZR (IA a nx ny nz i j) * T j).

  Lemma in_vials j : In j vials <-> (0 <= j < N)%Z.
  Proof.
    unfold vials. rewrite In_zrange. assert (0 <= N)%Z by (unfold N, nvials; nia).
    rewrite Z2Nat.id by assumption. reflexivity.
  Qed.

  Lemma qint_is_neighbour_sum i : (0 <= i < N)%Z ->
    qint i = rsum vials (fun j => if nbr a nx ny nz i j then T j - T i else 0).
  Proof.
    intros Hi. unfold qint.
    assert (Hrow : zsum (map (IA a nx ny nz i) vials) = 0%Z) by (apply IA_row_sum; assumption).
    assert (E : rsum vials (fun j => IZR (IA a nx ny nz i j) * T j)
              = rsum vials (fun j => IZR (IA a nx ny nz i j) * (T j - T i))).
    { transitivity (rsum vials (fun j => IZR (IA a nx ny nz i j) * (T j - T i)
                                         + IZR (IA a nx ny nz i j) * T i)).
      - apply rsum_ext; intros; lra.
      - rewrite rsum_plus, rsum_scal, rsum_IZR, Hrow. lra. }
    rewrite E. apply rsum_ext. intros j Hj. apply in_vials in Hj.
    destruct (Z.eq_dec i j) as [<-|Hne].
    - rewrite (nbr_irrefl a nx ny nz i). lra.
    - rewrite IA_offdiag by assumption.
      destruct (nbr a nx ny nz i j); cbn; lra.
  Qed.

  Theorem intervial_heat_cancels : rsum vials qint = 0.
  Proof.
    unfold qint. rewrite rsum_swap.
    rewrite (rsum_ext _ _ (fun _ => 0)); [apply rsum_zero|].
    intros j Hj. rewrite rsum_scal.
    rewrite (rsum_ext _ _ (fun i => IZR (IA a nx ny nz j i))).
    - rewrite rsum_IZR. apply in_vials in Hj.
      unfold vials, N. rewrite IA_row_sum by assumption. lra.
    - intros i Hi. apply in_vials in Hi, Hj. rewrite (IA_sym a nx ny nz i j) by assumption. reflexivity.
  Qed.
End Heat.
