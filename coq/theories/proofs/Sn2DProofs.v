(* 2D step model: what the update order does to a radially uniform field.
   - a SIMULTANEOUS (Jacobi) sweep evaluates every cell on the start-of-step grid  (sweep_false_spec)
     and therefore keeps a radially uniform field radially uniform when no heat enters or leaves
     radially                                                                       (jacobi_keeps_uniform)
   - the IN-PLACE sweep of the implementation does not: a concrete 3x3 field over R on which one
     cooling step of [cool_step2] creates a radial gradient                          (inplace_breaks_uniformity) *)
From Coq Require Import Reals ZArith List Bool Arith Lia Lra.
From Snow Require Import Num NumR Sn1D SnProofs Sn2D.
Import ListNotations.

Section Generic.
  Context {A : Type} (o : NumOps A).

  Lemma mapi_from_length {X Y} (f : nat -> X -> Y) l : forall k, length (mapi_from f k l) = length l.
  Proof. induction l as [|x l IH]; intros k; cbn; [reflexivity|]. now rewrite IH. Qed.

  Lemma nth_mapi_from {X Y} (f : nat -> X -> Y) dx dy l : forall k j, j < length l ->
    nth j (mapi_from f k l) dy = f (k + j) (nth j l dx).
  Proof.
    induction l as [|x l IH]; intros k j Hj; [cbn in Hj; lia|].
    destruct j as [|j]; cbn [mapi_from nth].
    - now rewrite Nat.add_0_r.
    - rewrite IH by (cbn in Hj; lia). f_equal. lia.
  Qed.

  Definition shape (g : grid (A:=A)) (Nz Nr : nat) : Prop :=
    length g = Nz /\ forall i, i < Nz -> length (nth i g []) = Nr.

  Lemma gget_gmapi f g Nz Nr i j : shape g Nz Nr -> i < Nz -> j < Nr ->
    gget o (gmapi f g) i j = f i j (gget o g i j).
  Proof.
    intros [HL HR] Hi Hj. unfold gget, gmapi.
    rewrite (nth_mapi_from _ [] []) by lia. cbn [Nat.add].
    rewrite (nth_mapi_from _ (nofZ o 0) (nofZ o 0)) by (rewrite HR; lia). reflexivity.
  Qed.

  Lemma shape_gmapi f g Nz Nr : shape g Nz Nr -> shape (gmapi f g) Nz Nr.
  Proof.
    intros [HL HR]. split.
    - unfold gmapi. now rewrite mapi_from_length.
    - intros i Hi. unfold gmapi. rewrite (nth_mapi_from _ [] []) by lia. rewrite mapi_from_length. now apply HR.
  Qed.

  (* the nine regions cover the grid *)
  Lemma region_cover Nz Nr i j : existsb (fun k => region Nz Nr k i j) (seq 0 9) = true.
  Proof.
    cbn [seq existsb region].
    destruct (Nat.eqb i (Nz - 1)), (Nat.eqb i 0), (Nat.eqb j 0), (Nat.eqb j (Nr - 1)); reflexivity.
  Qed.

  (* a simultaneous sweep: every cell is the cell update evaluated on the start-of-step grid *)
  Lemma sweep_false_aux cell g0 Nz Nr i j : shape g0 Nz Nr -> i < Nz -> j < Nr ->
    forall ks g, shape g Nz Nr ->
      gget o (fold_left (fun g k => gmapi (fun i j x => if region Nz Nr k i j then cell g0 i j else x) g) ks g) i j
      = if existsb (fun k => region Nz Nr k i j) ks then cell g0 i j else gget o g i j.
  Proof.
    intros H0 Hi Hj. induction ks as [|k ks IH]; intros g Hg; [reflexivity|].
    cbn [fold_left existsb]. rewrite IH by (now apply shape_gmapi).
    rewrite (gget_gmapi _ g Nz Nr) by assumption.
    destruct (region Nz Nr k i j); cbn [orb]; [now destruct (existsb _ ks)|reflexivity].
  Qed.

  Theorem sweep_false_spec cell g0 Nz Nr i j : shape g0 Nz Nr -> i < Nz -> j < Nr ->
    gget o (sweep Nz Nr false cell g0) i j = cell g0 i j.
  Proof.
    intros H0 Hi Hj. unfold sweep.
    rewrite (sweep_false_aux cell g0 Nz Nr i j H0 Hi Hj (seq 0 9) g0 H0).
    now rewrite region_cover.
  Qed.
End Generic.

Local Open Scope R_scope.

Definition runiform (Nz Nr : nat) (g : grid (A:=R)) : Prop :=
  forall i j, (i < Nz)%nat -> (j < Nr)%nat -> gget Rops g i j = gget Rops g i 0.

Lemma nth_map_lt' {X Y} (f : X -> Y) l i d d' : (i < length l)%nat -> nth i (map f l) d' = f (nth i l d).
Proof. intros H. rewrite (nth_indep _ d' (f d)) by (rewrite map_length; exact H). apply map_nth. Qed.

Section Uniform.
  Variable P : p2d (A:=R).
  Variables (Nz Nr : nat) (rr : list R).
  Hypothesis HNz : (3 <= Nz)%nat.
  Hypothesis HNr : (3 <= Nr)%nat.
  Variables (g : grid (A:=R)) (Tsh q : R) (qe : list R).
  Hypothesis Hshape : shape g Nz Nr.
  Hypothesis Hu : runiform Nz Nr g.
  Hypothesis HKw : s_Kw P = 0.                       (* no heat through the side wall *)
  Hypothesis Hq : length qe = Nr /\ forall j, (j < Nr)%nat -> nth j qe 0 = q.   (* uniform top flux *)

  Theorem jacobi_keeps_uniform : runiform Nz Nr (cool_step2_gen Rops P Nz Nr rr false g Tsh qe).
  Proof.
    destruct Hshape as [HL HR]. destruct Hq as [Hql Hqv].
    assert (U : exists c, forall i j, (i < Nz)%nat -> (j < Nr)%nat -> gget Rops g i j = c i)
      by (exists (fun i => gget Rops g i 0%nat); exact Hu).
    destruct U as [c U].
    intros i j Hi Hj. unfold cool_step2_gen.
    rewrite !(sweep_false_spec Rops _ g Nz Nr) by (assumption || lia || (split; assumption)).
    unfold cool_cell.
    (* ghost values *)
    assert (Eb : forall j', (j' < Nr)%nat ->
              nth j' (map (fun x => nadd Rops x (ndiv Rops (nmul Rops (nmul Rops (s_K P) (nsub Rops Tsh x)) (s_dz P)) (s_lam0 P))) (nth 0 g [])) (nofZ Rops 0)
              = c 0%nat + s_K P * (Tsh - c 0%nat) * s_dz P / s_lam0 P).
    { intros j' Hj'. rewrite (nth_map_lt' _ _ _ (nofZ Rops 0)) by (rewrite HR; lia).
      change (nth j' (nth 0 g []) (nofZ Rops 0)) with (gget Rops g 0 j'). rewrite U by lia. reflexivity. }
    assert (Et : forall j', (j' < Nr)%nat ->
              nth j' (map (fun xq : R * R => nadd Rops (fst xq) (ndiv Rops (nmul Rops (snd xq) (s_dz P)) (s_lam0 P))) (combine (nth (Nz - 1) g []) qe)) (nofZ Rops 0)
              = c (Nz - 1)%nat + q * s_dz P / s_lam0 P).
    { intros j' Hj'. rewrite (nth_map_lt' _ _ _ (nofZ Rops 0, 0)) by (rewrite combine_length, HR, Hql; lia).
      rewrite combine_nth by (rewrite HR, Hql; lia). cbn [fst snd].
      change (nth j' (nth (Nz - 1) g []) (nofZ Rops 0)) with (gget Rops g (Nz - 1) j'). rewrite U, Hqv by lia. reflexivity. }
    assert (Ee : forall i', (i' < Nz)%nat ->
              nth i' (map (fun row => let x := nth (Nr - 1) row (nofZ Rops 0) in
                                      nadd Rops x (ndiv Rops (nmul Rops (nmul Rops (s_Kw P) (nsub Rops Tsh x)) (s_dr P)) (s_lam0 P))) g) (nofZ Rops 0)
              = c i').
    { intros i' Hi'. rewrite (nth_map_lt' _ _ _ []) by lia. cbv zeta.
      change (nth (Nr - 1) (nth i' g []) (nofZ Rops 0)) with (gget Rops g i' (Nr - 1)). rewrite U by lia.
      cbn [nadd ndiv nmul nsub Rops]. rewrite HKw. unfold Rdiv. ring. }
    cbv zeta. rewrite !Eb, !Et, !Ee by lia.
    cbn [nadd ndiv nmul nsub nofZ Rops].
    replace (Nat.eqb 0 0) with true by reflexivity.
    replace (Nat.eqb 0 (Nr - 1)) with false by (symmetry; apply Nat.eqb_neq; lia).
    destruct (Nat.eqb j 0) eqn:Ej0; [apply Nat.eqb_eq in Ej0; subst j; reflexivity|].
    apply Nat.eqb_neq in Ej0.
    destruct (Nat.eqb i 0) eqn:Ei0; [|destruct (Nat.eqb i (Nz - 1)) eqn:EiN];
      rewrite ?Nat.eqb_eq, ?Nat.eqb_neq in *;
      (destruct (Nat.eqb j (Nr - 1)) eqn:EjN; rewrite ?Nat.eqb_eq, ?Nat.eqb_neq in *;
       repeat rewrite U by lia; unfold Rdiv; ring).
  Qed.
End Uniform.

(* the in-place sweep of the implementation: a radially uniform field, no radial heat exchange, and still a
   radial gradient after one step *)
Definition Pw : p2d (A:=R) :=
  MkP2 1 1 (1/10) 0 0 1 1  1 1 1 0 1 1  1 1 1 1 1 1 1  0 0.
Definition gw : grid (A:=R) := [[0; 0; 0]; [1; 1; 1]; [0; 0; 0]].
Definition rw : list R := [0; 1; 2].

Theorem inplace_breaks_uniformity :
  runiform 3 3 gw /\ s_Kw Pw = 0 /\ shape gw 3 3 /\
  ~ runiform 3 3 (cool_step2 Rops Pw 3 3 rw gw 0 [0; 0; 0]).
Proof.
  split; [|split; [reflexivity|split]].
  - intros i j Hi Hj. destruct i as [|[|[|i]]]; [| | |lia]; destruct j as [|[|[|j]]]; try lia; reflexivity.
  - split; [reflexivity|]. intros i Hi. destruct i as [|[|[|i]]]; [reflexivity|reflexivity|reflexivity|lia].
  - intros H. specialize (H 0%nat 1%nat ltac:(lia) ltac:(lia)). revert H.
    cbv [cool_step2 cool_step2_gen sweep seq fold_left gmapi mapi_from region gget nth Nat.eqb Nat.sub andb negb
         cool_cell rj Pw gw rw map combine fst snd
         s_dz s_dr s_dt s_K s_Kw s_lam0 s_alpha0 nadd nsub nmul ndiv nofZ Rops].
    intros H. lra.
Qed.

(* ---- vacuum window, 2D (C20): outside the open window every column's evaporative flux is zero, so a VISF step IS the
   shelf step, in the cooling and in the solidification stage ------------------------------------------------------- *)
Lemma qe2_outside visf t ts td dHe fl :
  visf = false \/ t <= ts * 3600 \/ (ts + td) * 3600 <= t -> qe2 Rops visf t ts td dHe fl = map (fun _ => 0) fl.
Proof. intros H. unfold qe2. apply map_ext. intros f. now apply q_evap_outside. Qed.
Lemma qe2_inside t ts td dHe fl : ts * 3600 < t < (ts + td) * 3600 ->
  qe2 Rops true t ts td dHe fl = map (fun f => - f * dHe) fl.
Proof. intros H. unfold qe2. apply map_ext. intros f. now apply q_evap_inside. Qed.

Theorem visf2_step_equals_shelf_step_outside_window (P : p2d (A:=R)) Nz Nr rr ip g w Tsh t ts td dHe fl :
  t <= ts * 3600 \/ (ts + td) * 3600 <= t ->
  cool_step2_t Rops P Nz Nr rr true t ts td dHe g Tsh fl = cool_step2_t Rops P Nz Nr rr false t ts td dHe g Tsh fl
  /\ solid_step2_t Rops P Nz Nr rr ip true t ts td dHe g w Tsh fl = solid_step2_t Rops P Nz Nr rr ip false t ts td dHe g w Tsh fl.
Proof. intros H. unfold cool_step2_t, solid_step2_t. rewrite !qe2_outside by tauto. split; reflexivity. Qed.
