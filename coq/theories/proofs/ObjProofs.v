(* C04: the outcome of a run depends on configuration and seed only. *)
From Coq Require Import ZArith List Bool Lia.
From Snow Require Import FlakeObj.
Import ListNotations.
Local Open Scope Z_scope.

(* the batch size and the variability flag are configuration: no operation changes them *)
Definition same_config (o o' : obj) : Prop := o_N o' = o_N o /\ o_var o' = o_var o.

Lemma build_shelf_cfg o : same_config o (build_shelf o) /\ o_seed (build_shelf o) = o_seed o.
Proof. unfold build_shelf, same_config. destruct (o_var o); cbn; auto. Qed.

Lemma run_outcome d o : snd (run d o) = expected (o_seed o) (o_N o) (o_var o).
Proof.
  unfold run, expected, read_hint, build_matrices, build_shelf.
  destruct (o_built o), (o_var o); cbn; reflexivity.
Qed.

Lemma run_keeps d o : same_config o (fst (run d o)) /\ o_seed (fst (run d o)) = o_seed o.
Proof.
  unfold run, read_hint, build_matrices, build_shelf, same_config.
  destruct (o_built o), (o_var o); cbn; auto.
Qed.

Lemma op_keeps runf o p :
  (forall d x, same_config x (fst (runf d x)) /\ o_seed (fst (runf d x)) = o_seed x) ->
  same_config o (fst (apply_op runf o p))
  /\ (o_seed (fst (apply_op runf o p)) = match p with SetSeed s => s | _ => o_seed o end).
Proof.
  intros Hr. destruct p; cbn [apply_op fst].
  - unfold set_seed, read_hshelf, build_shelf, same_config. cbn.
    destruct (s =? o_seedUsed o), (o_stale o), (o_var o); cbn; auto.
  - unfold read_hshelf, build_shelf, same_config. destruct (o_seed o =? o_seedUsed o), (o_stale o), (o_var o) eqn:Hv; cbn; auto.
  - unfold read_hint, build_matrices, build_shelf, same_config. destruct (o_built o), (o_var o); cbn; auto.
  - unfold build_matrices, build_shelf, same_config. destruct (o_var o); cbn; auto.
  - unfold record_random, same_config. cbn; auto.
  - specialize (Hr d o). destruct (runf d o) as [o' r]. cbn [fst] in *. exact Hr.
  - unfold set_config, same_config. cbn; auto.
Qed.

(* the seed in force after a history: the last one assigned *)
Fixpoint seed_after (s : Z) (h : list op) : Z :=
  match h with [] => s | SetSeed s' :: r => seed_after s' r | _ :: r => seed_after s r end.

(* every run of every history yields what configuration and the seed in force at that moment determine *)
Theorem every_run_depends_on_config_and_seed_only : forall h o,
  Forall2 (fun (x : outcome) (s : Z) => x = expected s (o_N o) (o_var o))
          (snd (history run o h))
          ((fix seeds (s : Z) (h : list op) : list Z :=
              match h with
              | [] => []
              | SetSeed s' :: r => seeds s' r
              | Run _ :: r => s :: seeds s r
              | _ :: r => seeds s r
              end) (o_seed o) h).
Proof.
  induction h as [|p h IH]; intros o; [constructor|].
  cbn [history].
  destruct (op_keeps run o p run_keeps) as [[HN Hv] Hs].
  destruct (apply_op run o p) as [o1 x] eqn:E. cbn [fst] in HN, Hv, Hs.
  specialize (IH o1). destruct (history run o1 h) as [o2 xs]. cbn [snd] in *.
  rewrite HN, Hv, Hs in IH.
  destruct p; cbn [apply_op] in E; try (inversion E; subst; exact IH).
  destruct (run d o) as [o' r] eqn:Er. inversion E; subst.
  constructor; [|exact IH].
  assert (H := run_outcome d o). rewrite Er in H. exact H.
Qed.

(* in particular: the last run of any history ending in Run *)
Corollary last_run_history_independent h d o :
  snd (run d (fst (history run o h))) = expected (seed_after (o_seed o) h) (o_N o) (o_var o).
Proof.
  rewrite run_outcome. revert o. induction h as [|p h IH]; intros o; [reflexivity|].
  cbn [history]. destruct (op_keeps run o p run_keeps) as [[HN Hv] Hs].
  destruct (apply_op run o p) as [o1 x]. cbn [fst] in *.
  specialize (IH o1). destruct (history run o1 h) as [o2 xs]. cbn [fst] in *.
  rewrite IH, HN, Hv, Hs. destruct p; reflexivity.
Qed.

(* Snowfall: whatever the partition of the repetitions into worker chunks and the order inside a chunk,
   repetition s yields the outcome of the stand-alone run with seed s *)
Lemma run_chunk_spec dice : forall seeds o,
  Forall (fun kx => snd kx = expected (fst kx) (o_N o) (o_var o)) (run_chunk run dice o seeds)
  /\ map fst (run_chunk run dice o seeds) = seeds.
Proof.
  induction seeds as [|s r IH]; intros o; [split; [constructor|reflexivity]|].
  cbn [run_chunk].
  destruct (op_keeps run o (SetSeed s) run_keeps) as [[HN Hv] Hs]. cbn [apply_op fst] in HN, Hv, Hs.
  assert (Ho := run_outcome (dice s) (set_seed s o)).
  destruct (run_keeps (dice s) (set_seed s o)) as [[HN' Hv'] _].
  destruct (run (dice s) (set_seed s o)) as [o1 x]. cbn [fst snd] in *.
  destruct (IH o1) as [IH1 IH2]. split.
  - constructor; [cbn [fst snd]; rewrite Ho, Hs, HN, Hv; reflexivity|].
    rewrite HN', HN, Hv', Hv in IH1. exact IH1.
  - cbn [map fst]. rewrite IH2. reflexivity.
Qed.

Theorem snowfall_repetition_is_standalone_run dice tmpl chunks :
  Forall (fun kx => snd kx = expected (fst kx) (o_N tmpl) (o_var tmpl)) (snowfall run dice tmpl chunks)
  /\ map fst (snowfall run dice tmpl chunks) = concat chunks.
Proof.
  unfold snowfall. induction chunks as [|c r [IH1 IH2]]; [split; [constructor|reflexivity]|].
  cbn [flat_map concat]. destruct (run_chunk_spec dice c tmpl) as [H1 H2]. split.
  - apply Forall_app; split; assumption.
  - rewrite map_app, H2, IH2. reflexivity.
Qed.

(* the stand-alone object with seed s gives the same outcome *)
Lemma standalone_run s N var d : snd (run d (new_obj s N var)) = expected s N var.
Proof.
  rewrite run_outcome. unfold new_obj, build_shelf. destruct var; reflexivity.
Qed.

(* the configuration re-declared on a used object (configPath setter, as repaired): the next run is the run of a fresh object *)
Lemma seed_after_set_config h : forall s, seed_after s (h ++ [SetConfig]) = seed_after s h.
Proof. induction h as [|p h IH]; intros s; [reflexivity|]. destruct p; cbn [app seed_after]; apply IH. Qed.

Lemma history_snoc_set_config h : forall o, fst (history run o (h ++ [SetConfig])) = set_config (fst (history run o h)).
Proof.
  induction h as [|p h IH]; intros o; [reflexivity|].
  cbn [app history]. destruct (apply_op run o p) as [o1 x]. specialize (IH o1).
  destruct (history run o1 h) as [o2 xs]. destruct (history run o1 (h ++ [SetConfig])) as [o3 ys]. cbn [fst] in *. exact IH.
Qed.

Lemma run_after_set_config h d o :
  snd (run d (set_config (fst (history run o h)))) = expected (seed_after (o_seed o) h) (o_N o) (o_var o).
Proof. rewrite <- history_snoc_set_config, last_run_history_independent, seed_after_set_config. reflexivity. Qed.

(* ---- the pinned revision violated the property (witnesses by computation) ----------------------- *)
Example pinned_fresh_vs_template_refuted :
  snd (run_pinned 100 (new_obj 3 9 true)) <> snd (run_pinned 100 (set_seed 3 (template 0 9 true))).
Proof. vm_compute. discriminate. Qed.

Example pinned_rerun_refuted :
  let o := new_obj 5 4 false in
  snd (run_pinned 10 o) <> snd (run_pinned 10 (fst (run_pinned 10 o))).
Proof. vm_compute. discriminate. Qed.

Example pinned_random_recording_refuted :
  snd (run_pinned 10 (new_obj 5 4 false)) <> snd (run_pinned 10 (record_random 2 (new_obj 5 4 false))).
Proof. vm_compute. discriminate. Qed.
