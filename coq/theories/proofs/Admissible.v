(* C06: one-step admissibility lemmas of the shelf-scale model over R. *)
From Coq Require Import Reals ZArith Lra Lia List Bool Psatz.
From Snow Require Import Num NumR Flake FlakeProofs FlakeHeat.
Import ListNotations.
Local Open Scope R_scope.

(* ---- liquid step: a convex combination ------------------------------------------------ *)
Lemma nbsum_bounds (f : nat -> R) (nb : list nat) lo hi :
  (forall j, In j nb -> lo <= f j <= hi) ->
  INR (length nb) * lo <= nbsum f nb <= INR (length nb) * hi.
Proof.
  unfold nbsum. induction nb as [|j nb IH]; intros H.
  - cbn. lra.
  - cbn [map fold_right length]. rewrite S_INR.
    assert (lo <= f j <= hi) by (apply H; left; reflexivity).
    assert (INR (length nb) * lo <= fold_right Rplus 0 (map f nb) <= INR (length nb) * hi)
      by (apply IH; intros; apply H; right; assumption).
    lra.
Qed.

Section Liquid.
  Variable P : @params R.
  Notation kA := (p_kintA P). Notation hl := (p_hl P). Notation dt := (p_dt P).

  (* total exchange coefficient of a vial times dt/hl: the stability number of the explicit step *)
  Definition lam (nb : list nat) (hext hsh : R) : R := (INR (length nb) * kA + hext + hsh) * dt / hl.

  Theorem liquid_step_convex T nb Ti hext hsh Tsh lo hi :
    0 < hl -> 0 <= dt -> 0 <= kA -> 0 <= hext -> 0 <= hsh ->
    lam nb hext hsh <= 1 ->
    (forall j, In j nb -> lo <= nth j T 0 <= hi) -> lo <= Ti <= hi -> lo <= Tsh <= hi ->
    lo <= rliquid_T P (heat Rops P T nb Ti hext hsh Tsh Tsh) Ti <= hi.
  Proof.
    intros Hhl Hdt HkA Hhe Hhs Hlam Hnb HTi HTs.
    rewrite liquid_T_eq, heat_is_neighbour_sum.
    assert (HB := nbsum_bounds (fun j => nth j T 0 - Ti) nb (lo - Ti) (hi - Ti)
                    ltac:(intros j Hj; specialize (Hnb j Hj); lra)).
    set (S := nbsum (fun j => nth j T 0 - Ti) nb) in *.
    set (n := INR (length nb)) in *.
    assert (Hn : 0 <= n) by (unfold n; apply pos_INR).
    set (c := dt / hl). assert (Hc : 0 <= c) by (unfold c; apply Rmult_le_pos; [lra|left; apply Rinv_0_lt_compat; lra]).
    replace (Ti + (kA * S + hext * (Tsh - Ti) + hsh * (Tsh - Ti)) / hl * dt)
      with (Ti + c * (kA * S + hext * (Tsh - Ti) + hsh * (Tsh - Ti))) by (unfold c; field; lra).
    assert (HL : lam nb hext hsh = c * (n * kA + hext + hsh)) by (unfold lam, c, n; field; lra).
    rewrite HL in Hlam.
    (* lower and upper estimates of the bracket *)
    assert (L1 : (n * kA + hext + hsh) * (lo - Ti) <= kA * S + hext * (Tsh - Ti) + hsh * (Tsh - Ti)).
    { assert (kA * (n * (lo - Ti)) <= kA * S) by (apply Rmult_le_compat_l; lra).
      assert (hext * (lo - Ti) <= hext * (Tsh - Ti)) by (apply Rmult_le_compat_l; lra).
      assert (hsh * (lo - Ti) <= hsh * (Tsh - Ti)) by (apply Rmult_le_compat_l; lra). lra. }
    assert (U1 : kA * S + hext * (Tsh - Ti) + hsh * (Tsh - Ti) <= (n * kA + hext + hsh) * (hi - Ti)).
    { assert (kA * S <= kA * (n * (hi - Ti))) by (apply Rmult_le_compat_l; lra).
      assert (hext * (Tsh - Ti) <= hext * (hi - Ti)) by (apply Rmult_le_compat_l; lra).
      assert (hsh * (Tsh - Ti) <= hsh * (hi - Ti)) by (apply Rmult_le_compat_l; lra). lra. }
    set (G := n * kA + hext + hsh) in *.
    assert (HG : 0 <= G) by (unfold G; assert (0 <= n * kA) by (apply Rmult_le_pos; lra); lra).
    set (Br := kA * S + hext * (Tsh - Ti) + hsh * (Tsh - Ti)) in *.
    assert (c * (G * (lo - Ti)) <= c * Br) by (apply Rmult_le_compat_l; lra).
    assert (c * Br <= c * (G * (hi - Ti))) by (apply Rmult_le_compat_l; lra).
    assert (0 <= c * G) by (apply Rmult_le_pos; lra).
    split.
    - (* Ti + cG (lo - Ti) = (1 - cG) Ti + cG lo >= lo *)
      assert ((c * G) * (lo - Ti) >= 1 * (lo - Ti)).
      { assert (lo - Ti <= 0) by lra. nra. }
      nra.
    - assert ((c * G) * (hi - Ti) <= 1 * (hi - Ti)).
      { assert (0 <= hi - Ti) by lra. nra. }
      nra.
  Qed.
End Liquid.

(* ---- solidifying step ---------------------------------------------------------------------- *)
Section Solid.
  Variable P : @params R.
  Notation alpha := (p_alpha P). Notation Dp := (p_depr P). Notation mass := (p_mass P).
  Notation Teq := (p_Teq P). Notation dt := (p_dt P).

  Lemma quad_nonneg a c B u : 0 < a -> c * c <= 4 * a * B -> 0 <= a * u * u - c * u + B.
  Proof.
    intros Ha Hd.
    assert (E : a * (a * u * u - c * u + B) = (a * u - c / 2) * (a * u - c / 2) + (a * B - c * c / 4)) by field.
    assert (0 <= (a * u - c / 2) * (a * u - c / 2)) by apply Rle_0_sqr.
    assert (0 <= a * (a * u * u - c * u + B)) by lra.
    destruct (Rle_lt_dec 0 (a * u * u - c * u + B)); [assumption|].
    exfalso. assert (0 < a * (- (a * u * u - c * u + B))) by (apply Rmult_lt_0_compat; lra). lra.
  Qed.

  (* q: heat flow; every temperature the vial exchanges heat with is >= lo, total coefficient H:
     q >= - H (T - lo).  Under the step condition (H dt (Teq - lo))^2 <= 4 (-alpha) D m cp(sigma)
     the new ice fraction stays below 1 and the new temperature stays at or above lo. *)
  Theorem solid_step_lower s q lo H :
    alpha < 0 -> 0 < Dp -> 0 < mass -> 0 < rcp_sigma P s -> 0 <= dt -> 0 <= H ->
    0 < s < 1 -> lo < Teq -> lo <= ron_curve P s ->
    - H * (ron_curve P s - lo) <= q ->
    (H * dt * (Teq - lo)) * (H * dt * (Teq - lo)) <= 4 * (- alpha) * (Dp * mass * rcp_sigma P s) ->
    let s' := s + rdsigma P q s in
    s' < 1 /\ lo <= ron_curve P s'.
  Proof.
    intros Ha HD Hm Hcp Hdt HH Hs Hlo HT Hq Hstep. cbv zeta.
    rewrite dsigma_eq. rewrite on_curve_eq in HT, Hq. cbn [nofZ Rops] in HT, Hq.
    set (B := Dp * mass * rcp_sigma P s) in *. assert (HB : 0 < B) by (unfold B; repeat apply Rmult_lt_0_compat; assumption).
    set (a := - alpha) in *. assert (Haa : 0 < a) by (unfold a; lra).
    set (u := 1 - s) in *. assert (Hu : 0 < u <= 1) by (unfold u; lra).
    set (De := Teq - lo) in *. assert (HDe : 0 < De) by (unfold De; lra).
    assert (Hiu : 1 / u * u = 1) by (field; lra).
    (* T >= lo  <=>  Dp <= De u *)
    assert (HuC : Dp <= De * u).
    { assert (Dp * (1 / u) <= De) by (unfold De; lra).
      assert (Dp * (1 / u) * u <= De * u) by (apply Rmult_le_compat_r; lra).
      replace (Dp * (1 / u) * u) with (Dp * (1 / u * u)) in H1 by ring. rewrite Hiu in H1. lra. }
    assert (Hden : alpha - B / (u * u) = - ((a * u * u + B) / (u * u))) by (unfold a; field; lra).
    assert (Hpos : 0 < a * u * u + B) by nra.
    set (ds := q / (alpha - B / (u * u)) * dt).
    assert (Eds : ds = - q * dt * (u * u) / (a * u * u + B)).
    { unfold ds. rewrite Hden. field. split; lra. }
    (* - q <= H (De u - Dp) / u *)
    assert (Hq' : - q * u <= H * (De * u - Dp)).
    { assert (- q <= H * (Teq - Dp * (1 / u) - lo)) by lra.
      assert (- q * u <= H * (Teq - Dp * (1 / u) - lo) * u) by (apply Rmult_le_compat_r; lra).
      replace (H * (Teq - Dp * (1 / u) - lo) * u) with (H * ((Teq - lo) * u - Dp * (1 / u * u))) in H1 by ring.
      rewrite Hiu in H1. unfold De. lra. }
    (* the key estimate: ds * De <= De u - Dp, i.e. u' = u - ds >= Dp / De *)
    assert (Hkey : ds * De <= De * u - Dp).
    { rewrite Eds.
      assert (Q := quad_nonneg a (H * dt * De) B u Haa Hstep).
      (* (-q dt u^2) De <= (De u - Dp)(a u^2 + B) *)
      assert (- q * dt * (u * u) * De <= (De * u - Dp) * (a * u * u + B)).
      { assert (- q * u * (dt * u * De) <= H * (De * u - Dp) * (dt * u * De)).
        { apply Rmult_le_compat_r; [|exact Hq']. apply Rmult_le_pos; [apply Rmult_le_pos; lra|lra]. }
        assert (0 <= De * u - Dp) by lra.
        assert (H * (De * u - Dp) * (dt * u * De) = (De * u - Dp) * (H * dt * De * u)) by ring.
        assert ((De * u - Dp) * (H * dt * De * u) <= (De * u - Dp) * (a * u * u + B)).
        { apply Rmult_le_compat_l; [assumption|]. lra. }
        replace (- q * dt * (u * u) * De) with (- q * u * (dt * u * De)) by ring. lra. }
      apply Rmult_le_reg_r with (a * u * u + B); [exact Hpos|].
      replace (- q * dt * (u * u) / (a * u * u + B) * De * (a * u * u + B))
        with (- q * dt * (u * u) * De) by (field; lra). lra. }
    set (u' := u - ds).
    assert (Hu' : Dp <= De * u') by (unfold u'; lra).
    assert (Hu'pos : 0 < u') by (destruct (Rle_lt_dec u' 0); [|assumption]; assert (De * u' <= 0) by nra; lra).
    replace (s + ds) with (1 - u') by (unfold u', u; ring).
    split; [lra|].
    rewrite on_curve_eq. cbn [nofZ Rops]. replace (1 - (1 - u')) with u' by ring.
    assert (Hiu' : 1 / u' * u' = 1) by (field; lra).
    assert (Dp * (1 / u') <= De).
    { apply Rmult_le_reg_r with u'; [assumption|]. replace (Dp * (1 / u') * u') with (Dp * (1 / u' * u')) by ring.
      rewrite Hiu'. lra. }
    unfold De in *. lra.
  Qed.

  (* net cooling (q <= 0) only grows the ice fraction *)
  Theorem solid_step_monotone s q :
    alpha < 0 -> 0 < Dp -> 0 < mass -> 0 < rcp_sigma P s -> 0 <= dt -> s < 1 -> q <= 0 ->
    s <= s + rdsigma P q s.
  Proof.
    intros Ha HD Hm Hcp Hdt Hs Hq. rewrite dsigma_eq.
    assert (Hd := den_neg P s Ha HD Hm Hcp Hs).
    set (den := alpha - Dp * mass * rcp_sigma P s / ((1 - s) * (1 - s))) in *.
    assert (0 <= q / den).
    { unfold Rdiv. replace (q * / den) with ((- q) * (- / den)) by ring.
      apply Rmult_le_pos; [lra|]. assert (/ den < 0) by (apply Rinv_lt_0_compat; assumption). lra. }
    assert (0 <= q / den * dt) by (apply Rmult_le_pos; assumption). lra.
  Qed.
End Solid.

(* ---- the whole run ----------------------------------------------------------------------- *)
From Snow Require Import StatsProofs.

Section VialCases.
  Variable P : @params R.
  Notation vu := (vial_update_q Rops P).

  Lemma vu_liquid_T k q v dec : vS v = 0 ->
    let v' := vu k q v dec in
    (vS v' = 0 /\ vT v' = rliquid_T P q (vT v))
    \/ (rliquid_T P q (vT v) < p_Teql P /\ vS v' = rsigma_init P (rliquid_T P q (vT v))
        /\ vT v' = ron_curve P (vS v')).
  Proof.
    intros Hs. unfold vial_update_q, vial_step. cbn [neqb Rops]. change (nofZ Rops 0) with 0.
    rewrite Hs. assert (E : Reqb 0 0 = true) by (apply Reqb_true; reflexivity). rewrite E.
    destruct (candidate Rops P 0 (liquid_T Rops P q (vT v)) && dec) eqn:Ec; cbv beta iota zeta.
    - right. apply andb_true_iff in Ec. destruct Ec as [Ec _]. unfold candidate in Ec.
      apply andb_true_iff in Ec. destruct Ec as [_ Ec]. cbn [nltb Rops] in Ec. apply Rltb_true in Ec.
      cbn [vS vT]. repeat split; try reflexivity. exact Ec.
    - left. cbn [vS vT]. split; reflexivity.
  Qed.

  Lemma vu_solid_T k q v dec : vS v <> 0 ->
    let v' := vu k q v dec in
    vS v' = vS v + rdsigma P q (vS v) /\ vT v' = ron_curve P (vS v').
  Proof.
    intros Hs. unfold vial_update_q, vial_step. cbn [neqb Rops]. change (nofZ Rops 0) with 0.
    assert (E : Reqb (vS v) 0 = false).
    { unfold Reqb. destruct (Req_EM_T (vS v) 0); [contradiction|reflexivity]. }
    rewrite E. unfold solid_step. cbv beta iota zeta. cbn [vS vT]. split; reflexivity.
  Qed.
End VialCases.

Section RunAdmissible.
  Variable P : @params R.
  Variable cs : list (@vconst R).
  Variables (n : nat) (T0 : R) (shelf : list R) (decs : list (list bool)).
  Variables (hist : list (list (@vstate R))) (fin : list (@vstate R)).
  Hypothesis Hrun : run_from Rops P cs 0%Z shelf decs (init Rops n T0) = (hist, fin).
  Hypothesis Hcs : length cs = n.
  Hypothesis Hlen : length shelf = length decs.
  Hypothesis Hrows : forall m, (m < length decs)%nat -> length (nth m decs []) = n.
  Let N := length decs.
  Let cols := hist ++ [fin].
  Let dv : @vstate R := MkV 0 0 stat0.
  Let dc : @vconst R := MkC [] 0 0.
  Notation alpha := (p_alpha P). Notation Dp := (p_depr P). Notation mass := (p_mass P).
  Notation Teq := (p_Teq P). Notation dt := (p_dt P). Notation hl := (p_hl P). Notation kA := (p_kintA P).
  Let vc (i m : nat) : @vstate R := vcol hist fin i m.

  (* physical parameter ranges *)
  Hypothesis Hhl : 0 < hl. Hypothesis Hdt : 0 <= dt. Hypothesis HkA : 0 <= kA.
  Hypothesis Ha : alpha < 0. Hypothesis HD : 0 < Dp. Hypothesis Hm : 0 < mass.
  Hypothesis Hcp : forall s, 0 < s < 1 -> 0 < rcp_sigma P s.
  Hypothesis HTeql : p_Teql P = Teq - Dp.
  (* per-vial coefficients non-negative, neighbour indices inside the batch, stability number <= 1 *)
  Hypothesis Hcoef : forall i, (i < n)%nat ->
    0 <= c_hext (nth i cs dc) /\ 0 <= c_hsh (nth i cs dc)
    /\ (forall j, In j (c_nb (nth i cs dc)) -> (j < n)%nat)
    /\ lam P (c_nb (nth i cs dc)) (c_hext (nth i cs dc)) (c_hsh (nth i cs dc)) <= 1.
  (* cooling process: shelf never rises, vials start no colder than the shelf, everything below hi *)
  Variable hi Tmin : R.
  Hypothesis Hshelf_mono : forall m, (S m < N)%nat -> nth (S m) shelf 0 <= nth m shelf 0.
  Hypothesis Hshelf_rng : forall m, (m < N)%nat -> Tmin <= nth m shelf 0 <= hi.
  Hypothesis HT0 : nth 0 shelf 0 <= T0 <= hi.
  Hypothesis Hhi : Teq - Dp <= hi.
  Hypothesis HTmin : Tmin < Teq.
  (* the initial-ice formulation is admissible over the range of supercooled temperatures that can occur *)
  Hypothesis Hjump : forall Ts, Tmin <= Ts < Teq - Dp ->
    0 < rsigma_init P Ts < 1 /\ Ts < ron_curve P (rsigma_init P Ts).
  (* step condition of the solidifying update *)
  Hypothesis Hstepc : forall i s, (i < n)%nat -> 0 < s < 1 ->
    let H := INR (length (c_nb (nth i cs dc))) * kA + c_hext (nth i cs dc) + c_hsh (nth i cs dc) in
    (H * dt * (Teq - Tmin)) * (H * dt * (Teq - Tmin)) <= 4 * (- alpha) * (Dp * mass * rcp_sigma P s).
  (* observed on the trajectory: the ice fraction of an iced vial stays positive *)
  Hypothesis NoRemelt : forall i m, (i < n)%nat -> (m < N)%nat -> vS (vc i m) <> 0 -> 0 < vS (vc i (S m)).

  Definition vial_ok (lo : R) (v : @vstate R) : Prop :=
    lo <= vT v <= hi /\ (vS v = 0 \/ (0 < vS v < 1 /\ vT v = ron_curve P (vS v))).
  (* coldest shelf temperature applied before column m *)
  Definition lo_of (m : nat) : R := match m with O => nth 0 shelf 0 | S k => nth k shelf 0 end.

  Lemma shelf_le_lo m : (m < N)%nat -> nth m shelf 0 <= lo_of m.
  Proof. destruct m as [|m]; intros Hm'; cbn [lo_of]; [lra|]. apply Hshelf_mono. exact Hm'. Qed.

  Lemma vial_ok_weaken lo lo' v : lo' <= lo -> vial_ok lo v -> vial_ok lo' v.
  Proof. intros Hle [[H1 H2] H3]. split; [lra|exact H3]. Qed.

  Theorem run_admissible m : (m <= N)%nat -> forall i, (i < n)%nat -> vial_ok (lo_of m) (vc i m).
  Proof.
    induction m as [|m IH]; intros Hm' i Hi.
    - destruct (vcol_0 P cs n T0 shelf decs hist fin Hrun i Hi) as [Hs _].
      assert (HT : vT (vc i 0) = T0).
      { unfold vc, vcol. destruct (run_from_cols P cs _ _ _ _ _ _ Hrun) as (_ & Z0 & _).
        rewrite Z0. unfold init. rewrite nth_repeat_lt by assumption. reflexivity. }
      split; [rewrite HT; cbn [lo_of]; lra|left; exact Hs].
    - assert (Hm1 : (m < N)%nat) by lia. specialize (IH ltac:(lia)).
      set (Ts := nth m shelf 0).
      assert (HTs : Ts <= lo_of m) by (apply shelf_le_lo; assumption).
      assert (HTsr : Tmin <= Ts <= hi) by (apply Hshelf_rng; assumption).
      (* every vial of column m is ok with the weaker bound Ts *)
      assert (IH' : forall j, (j < n)%nat -> vial_ok Ts (vc j m)) by (intros j Hj; eapply vial_ok_weaken; [exact HTs|apply IH; exact Hj]).
      unfold vc at 1. rewrite (vcol_step P cs n T0 shelf decs hist fin Hrun Hcs Hlen Hrows i Hi m Hm1).
      fold (vc i m). cbn [lo_of]. fold Ts.
      destruct (Hcoef i Hi) as (Hhe & Hhs & Hnb & Hlam).
      set (q := vq P cs shelf hist fin i m).
      (* temperatures of the neighbours in column m *)
      assert (Hnbr : forall j, In j (c_nb (nth i cs dc)) -> Ts <= nth j (map (@vT R) (nth m cols [])) 0 <= hi).
      { intros j Hj. specialize (Hnb j Hj).
        change 0 with (vT dv). rewrite map_nth. apply (IH' j Hnb). }
      destruct (IH' i Hi) as [HTi Hphase].
      destruct (Req_EM_T (vS (vc i m)) 0) as [Ez|Enz].
      + (* liquid *)
        assert (Hconv : Ts <= rliquid_T P q (vT (vc i m)) <= hi).
        { unfold q, vq. fold (vc i m). fold Ts.
          apply (liquid_step_convex P); try assumption. lra. }
        destruct (vu_liquid_T P (Z.of_nat m) q (vc i m) (vdec decs i m) Ez) as [[Hs' HT']|(Hsc & Hs' & HT')].
        * split; [rewrite HT'; exact Hconv|left; exact Hs'].
        * rewrite HTeql in Hsc.
          destruct (Hjump (rliquid_T P q (vT (vc i m))) ltac:(lra)) as [Hsg Hwarm].
          rewrite <- Hs' in Hsg, Hwarm.
          assert (Hc : ron_curve P (vS (vial_update_q Rops P (Z.of_nat m) q (vc i m) (vdec decs i m))) <= Teq - Dp)
            by (apply on_curve_below_Teql; [assumption|lra]).
          split; [rewrite HT'; lra|right; split; [exact Hsg|exact HT']].
      + (* solidifying *)
        destruct Hphase as [Hz|[Hsr Hcurve]]; [contradiction|].
        destruct (vu_solid_T P (Z.of_nat m) q (vc i m) (vdec decs i m) Enz) as [Hs' HT'].
        assert (Hpos : 0 < vS (vc i (S m))) by (apply NoRemelt; assumption).
        unfold vc at 1 in Hpos. rewrite (vcol_step P cs n T0 shelf decs hist fin Hrun Hcs Hlen Hrows i Hi m Hm1) in Hpos.
        fold (vc i m) in Hpos. fold q in Hpos.
        set (H := INR (length (c_nb (nth i cs dc))) * kA + c_hext (nth i cs dc) + c_hsh (nth i cs dc)).
        assert (HH : 0 <= H).
        { unfold H. assert (0 <= INR (length (c_nb (nth i cs dc))) * kA) by (apply Rmult_le_pos; [apply pos_INR|assumption]). lra. }
        (* q >= - H (T - Ts): every partner temperature is >= Ts *)
        assert (Hq : - H * (ron_curve P (vS (vc i m)) - Ts) <= q).
        { unfold q, vq. fold (vc i m). fold Ts. rewrite heat_is_neighbour_sum. rewrite <- Hcurve.
          set (Ti := vT (vc i m)) in *.
          assert (HB := nbsum_bounds (fun j => nth j (map (@vT R) (nth m cols [])) 0 - Ti) (c_nb (nth i cs dc)) (Ts - Ti) (hi - Ti)
                          ltac:(intros j Hj; specialize (Hnbr j Hj); lra)).
          destruct HB as [HB _].
          assert (kA * (INR (length (c_nb (nth i cs dc))) * (Ts - Ti)) <= kA * nbsum (fun j => nth j (map (@vT R) (nth m cols [])) 0 - Ti) (c_nb (nth i cs dc)))
            by (apply Rmult_le_compat_l; assumption).
          unfold H. unfold dc, cols in *. lra. }
        assert (HTslt : Ts < Teq).
        { rewrite Hcurve, on_curve_eq in HTi. cbn [nofZ Rops] in HTi.
          assert (0 < 1 / (1 - vS (vc i m))) by (apply Rdiv_lt_0_compat; lra).
          assert (0 < Dp * (1 / (1 - vS (vc i m)))) by (apply Rmult_lt_0_compat; assumption). lra. }
        assert (Hsc : (H * dt * (Teq - Ts)) * (H * dt * (Teq - Ts)) <= 4 * (- alpha) * (Dp * mass * rcp_sigma P (vS (vc i m)))).
        { eapply Rle_trans; [|apply (Hstepc i (vS (vc i m)) Hi Hsr)]. fold H.
          assert (0 <= H * dt * (Teq - Ts) <= H * dt * (Teq - Tmin)).
          { split; [apply Rmult_le_pos; [apply Rmult_le_pos|]; lra|]. apply Rmult_le_compat_l; [apply Rmult_le_pos; lra|lra]. }
          nra. }
        destruct (solid_step_lower P (vS (vc i m)) q Ts H Ha HD Hm (Hcp _ Hsr) Hdt HH Hsr HTslt
                    ltac:(rewrite <- Hcurve; lra) Hq Hsc) as [Hlt1 Hlow].
        rewrite <- Hs' in Hlt1, Hlow.
        assert (Hc : ron_curve P (vS (vial_update_q Rops P (Z.of_nat m) q (vc i m) (vdec decs i m))) <= Teq - Dp)
          by (apply on_curve_below_Teql; [assumption|lra]).
        split; [rewrite HT'; lra|right; split; [lra|exact HT']].
  Qed.
End RunAdmissible.
