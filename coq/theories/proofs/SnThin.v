(* C15, 1D -> 0D: an EXACT discrete form of the thermally-thin limit.  For any field with N >= 2 points the mean temperature
   of the 1D cooling step (no evaporation) follows the homogeneous (0D) law applied to the mean, except for a term
   proportional to the difference between the mean and the bottom temperature (the only temperature the shelf sees in 1D):

       mean(cool_step T) - cool0(mean T) = dt K / (rho cp N dz) * (mean T - T_bottom)

   so the two models coincide on every uniform field and differ by at most dt K/(rho cp N dz) * max|T_i - T_bottom| otherwise
   - the quantity that vanishes as the vial becomes thermally thin (K N dz / lambda -> 0 makes the field uniform).  The product
   mass of the 0D model is rho * area * (N dz); the implementation sets dz = height / N, so N dz is the product height and
   the hypothesis is the relation mass = rho * volume of the configuration (C19). *)
From Coq Require Import Reals ZArith List Bool Lra.
From Snow Require Import Num NumR Sn1D SnProofs.
Import ListNotations.
Local Open Scope R_scope.

Lemma lsum_repeat x m : lsum (repeat x m) = INR m * x.
Proof. induction m as [|k IH]; cbn [repeat lsum]; [cbn; ring|]. rewrite IH, S_INR. ring. Qed.

Section Thin.
  Variable P : @p1d R.

  Theorem thin_limit_identity T0 T1 r Tsh area rho cp :
    let T := T0 :: T1 :: r in
    let n := INR (length T) in
    q_dz P <> 0 -> q_lam0 P <> 0 -> rho * cp <> 0 -> area <> 0 -> q_alpha0 P = q_lam0 P / (cp * rho) ->
    q_cp0 P = cp -> q_mass P = rho * (area * (n * q_dz P)) ->
    lsum (cool_step Rops P T Tsh 0) / n - cool0 Rops P area Tsh (lsum T / n)
    = q_dt P * q_K P / (rho * cp * (n * q_dz P)) * (lsum T / n - T0).
  Proof.
    intros T n Hdz Hlam Hrc Har Ha Hcp Hm.
    assert (Hn : n <> 0) by (unfold n; apply not_0_INR; cbn [length]; discriminate).
    pose proof (cool_step_energy_exact P T0 T1 r Tsh 0 rho cp Hdz Hlam Hrc Ha) as E. cbn zeta in E. fold T in E.
    assert (Hr : rho <> 0) by (intros ->; apply Hrc; ring).
    assert (Hc : cp <> 0) by (intros ->; apply Hrc; ring).
    assert (E2 : lsum (cool_step Rops P T Tsh 0) = lsum T + q_dt P * (q_K P * (Tsh - T0)) / (rho * cp * q_dz P)).
    { apply Rmult_eq_reg_l with (rho * cp * q_dz P).
      - replace (rho * cp * q_dz P * (lsum T + q_dt P * (q_K P * (Tsh - T0)) / (rho * cp * q_dz P)))
          with (rho * cp * q_dz P * lsum T + q_dt P * (q_K P * (Tsh - T0))) by (field; repeat split; assumption).
        lra.
      - apply Rmult_integral_contrapositive_currified; [exact Hrc|exact Hdz]. }
    rewrite E2. unfold cool0. cbn [nadd nsub nmul ndiv Rops]. rewrite Hcp, Hm. field. repeat split; assumption.
  Qed.

  (* on a uniform field the 1D mean and the 0D model coincide exactly *)
  Corollary thin_limit_uniform x m Tsh area rho cp :
    let T := x :: x :: repeat x m in
    let n := INR (length T) in
    q_dz P <> 0 -> q_lam0 P <> 0 -> rho * cp <> 0 -> area <> 0 -> q_alpha0 P = q_lam0 P / (cp * rho) ->
    q_cp0 P = cp -> q_mass P = rho * (area * (n * q_dz P)) ->
    lsum (cool_step Rops P T Tsh 0) / n = cool0 Rops P area Tsh x.
  Proof.
    intros T n Hdz Hlam Hrc Har Ha Hcp Hm.
    assert (Hn : n <> 0) by (unfold n; apply not_0_INR; cbn [length]; discriminate).
    assert (Hs : lsum T = n * x).
    { unfold n, T. cbn [length lsum]. rewrite repeat_length, !S_INR.
      rewrite lsum_repeat. ring. }
    assert (Hmean : lsum T / n = x) by (rewrite Hs; field; exact Hn).
    pose proof (thin_limit_identity x x (repeat x m) Tsh area rho cp Hdz Hlam Hrc Har Ha Hcp Hm) as E.
    cbn zeta in E. fold T in E. fold n in E. rewrite Hmean in E.
    replace (x - x) with 0 in E by ring. rewrite Rmult_0_r in E. lra.
  Qed.
End Thin.

(* the hypotheses are satisfiable and the identity is not 0 = 0: a three-point field colder at the bottom *)
Example thin_limit_nonvacuous :
  let P := MkP1 1 (1/10) 1  1 1  1 1 1 0  1 1  1 1 1 1 1  3 1 1  0 0 1 in
  q_dz P <> 0 /\ q_lam0 P <> 0 /\ 1 * 1 <> 0 /\ q_alpha0 P = q_lam0 P / (1 * 1) /\ q_cp0 P = 1
  /\ q_mass P = 1 * (1 * (INR 3 * q_dz P))
  /\ q_dt P * q_K P / (1 * 1 * (INR 3 * q_dz P)) * (lsum [0; 3; 3] / INR 3 - 0) = 1 / 15.
Proof.
  cbn [q_dz q_lam0 q_alpha0 q_cp0 q_mass q_dt q_K lsum INR]. repeat split; try lra.
Qed.
