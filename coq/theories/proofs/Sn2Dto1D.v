(* C15, 2D -> 1D: with no heat through the side wall, a radially uniform field and a uniform top flux, every column of the
   SIMULTANEOUSLY evaluated 2D cooling step is the 1D cooling step of that column (same dz, dt, K, lambda, alpha).
   (For the in-place sweep of the implementation this is refuted: Sn2DProofs.inplace_breaks_uniformity.) *)
From Coq Require Import Reals ZArith List Bool Arith Lia Lra.
From Snow Require Import Num NumR Sn1D SnProofs Sn2D Sn2DProofs.
Import ListNotations.
Local Open Scope R_scope.

(* index form of the 1D interior stencil *)
Lemma nth_interior (f : R -> R -> R -> R) : forall l p k, (S k < length l)%nat ->
  nth k (interior f p l) 0 = f (nth k (p :: l) 0) (nth k l 0) (nth (S k) l 0).
Proof.
  induction l as [|x r IH]; intros p k Hk; [cbn in Hk; lia|].
  destruct r as [|y r']; [cbn in Hk; lia|].
  change (interior f p (x :: y :: r')) with (f p x y :: interior f x (y :: r')).
  destruct k as [|k]; [reflexivity|].
  cbn [nth]. rewrite IH by (cbn [length] in *; lia). reflexivity.
Qed.

Lemma lbo_nth : forall l p, lbo p l = nth (length l - 1) (p :: l) 0.
Proof.
  induction l as [|x r IH]; intros p; [reflexivity|]. cbn [lbo]. destruct r as [|y r']; [reflexivity|].
  rewrite IH. cbn [length]. replace (S (S (length r')) - 1)%nat with (S (length r')) by lia.
  replace (S (length r') - 1)%nat with (length r') by lia. reflexivity.
Qed.
Lemma last_nth' : forall (l : list R) d, l <> [] -> last l d = nth (length l - 1) l d.
Proof.
  induction l as [|x r IH]; intros d H; [contradiction|]. destruct r as [|y r']; [reflexivity|].
  change (last (x :: y :: r') d) with (last (y :: r') d). rewrite IH by discriminate.
  cbn [length]. replace (S (S (length r')) - 1)%nat with (S (length r')) by lia. replace (S (length r') - 1)%nat with (length r') by lia. reflexivity.
Qed.

Section CoolNth.
  Variable P : @p1d R.
  Let c := q_alpha0 P * q_dt P / (q_dz P * q_dz P).
  (* the 1D cooling step, point by point *)
  Lemma cool_step_nth T Tsh q i : (2 <= length T)%nat -> (i < length T)%nat ->
    nth i (cool_step Rops P T Tsh q) 0 =
      let n := length T in
      let Ti := nth i T 0 in
      if Nat.eqb i 0 then Ti + c * (nth 1 T 0 - 2 * Ti + (Ti + q_K P * (Tsh - Ti) * q_dz P / q_lam0 P))
      else if Nat.eqb i (n - 1) then Ti + c * ((Ti + q * q_dz P / q_lam0 P) - 2 * Ti + nth (n - 2) T 0)
      else Ti + c * (nth (S i) T 0 - 2 * Ti + nth (i - 1) T 0).
  Proof.
    intros H2 Hi. destruct T as [|T0 [|T1 r]]; [cbn in H2; lia|cbn in H2; lia|].
    rewrite cool_step_unfold. cbv zeta. fold c.
    set (T := T0 :: T1 :: r) in *. set (n := length T).
    destruct i as [|i]; [reflexivity|].
    cbn [nth Nat.eqb].
    assert (Hlen : length (interior (fun a b d : R => b + c * (d - 2 * b + a)) T0 (T1 :: r)) = length r).
    { clear. revert T0 T1. induction r as [|y r IH]; intros T0 T1; [reflexivity|].
      change (interior (fun a b d : R => b + c * (d - 2 * b + a)) T0 (T1 :: y :: r))
        with ((fun a b d : R => b + c * (d - 2 * b + a)) T0 T1 y :: interior (fun a b d : R => b + c * (d - 2 * b + a)) T1 (y :: r)).
      cbn [length]. rewrite IH. reflexivity. }
    assert (Hn : n = S (S (length r))) by reflexivity.
    change (match (n - 1)%nat with 0%nat => false | S m' => Nat.eqb i m' end) with (Nat.eqb i (length r)).
    destruct (Nat.eqb i (length r)) eqn:E.
    - apply Nat.eqb_eq in E. subst i.
      rewrite app_nth2 by (rewrite Hlen; lia). rewrite Hlen, Nat.sub_diag. cbn [nth].
      rewrite (last_nth' T 0) by discriminate. fold n. rewrite lbo_nth.
      replace (n - 1)%nat with (S (length r)) by lia. replace (n - 2)%nat with (length r) by lia.
      change (length (T1 :: r)) with (S (length r)). replace (S (length r) - 1)%nat with (length r) by lia.
      change (nth (S (length r)) T 0) with (nth (length r) (T1 :: r) 0).
      change (nth (length r) T 0) with (nth (length r) (T0 :: T1 :: r) 0). reflexivity.
    - apply Nat.eqb_neq in E. cbn [length] in Hi. fold n in Hi.
      rewrite app_nth1 by (rewrite Hlen; lia).
      rewrite nth_interior by (cbn [length]; lia).
      change (nth (S i) T 0) with (nth i (T1 :: r) 0). change (nth (S (S i)) T 0) with (nth (S i) (T1 :: r) 0).
      replace (S i - 1)%nat with i by lia. change (nth i T 0) with (nth i (T0 :: T1 :: r) 0). reflexivity.
  Qed.
End CoolNth.

Section Columns.
  Variable P2 : p2d (A:=R).
  Variable P1 : @p1d R.
  Hypothesis Edz : q_dz P1 = s_dz P2.
  Hypothesis Edt : q_dt P1 = s_dt P2.
  Hypothesis EK : q_K P1 = s_K P2.
  Hypothesis El : q_lam0 P1 = s_lam0 P2.
  Hypothesis Ea : q_alpha0 P1 = s_alpha0 P2.
  Variables (Nz Nr : nat) (rr : list R).
  Hypothesis HNz : (3 <= Nz)%nat.
  Hypothesis HNr : (3 <= Nr)%nat.
  Variables (g : grid (A:=R)) (Tsh q : R) (qe : list R).
  Hypothesis Hshape : shape g Nz Nr.
  Hypothesis Hu : runiform Nz Nr g.
  Hypothesis HKw : s_Kw P2 = 0.
  Hypothesis Hq : length qe = Nr /\ forall j, (j < Nr)%nat -> nth j qe 0 = q.
  Hypothesis Hdz : s_dz P2 <> 0.
  Hypothesis Hdr : s_dr P2 <> 0.
  Hypothesis Hl0 : s_lam0 P2 <> 0.

  Definition column (g : grid (A:=R)) : list R := map (fun row => nth 0 row 0) g.

  Theorem jacobi_column_is_1D_step i j : (i < Nz)%nat -> (j < Nr)%nat ->
    gget Rops (cool_step2_gen Rops P2 Nz Nr rr false g Tsh qe) i j = nth i (cool_step Rops P1 (column g) Tsh q) 0.
  Proof.
    intros Hi Hj. destruct Hshape as [HL HR]. destruct Hq as [Hql Hqv].
    assert (Hcol : forall k, (k < Nz)%nat -> nth k (column g) 0 = gget Rops g k 0).
    { intros k Hk. unfold column. rewrite (nth_map_lt' _ _ _ []) by lia. reflexivity. }
    assert (Hclen : length (column g) = Nz) by (unfold column; rewrite map_length; exact HL).
    (* the 2D value does not depend on j: use column 0, then compute *)
    rewrite (jacobi_keeps_uniform P2 Nz Nr rr HNz HNr g Tsh q qe (conj HL HR) Hu HKw (conj Hql Hqv) i j Hi Hj).
    rewrite (cool_step_nth P1 (column g) Tsh q i) by (rewrite Hclen; lia). cbv zeta. rewrite Hclen.
    unfold cool_step2_gen. rewrite (sweep_false_spec Rops _ g Nz Nr) by (try split; assumption || lia).
    unfold cool_cell. cbv zeta.
    replace (Nat.eqb 0 0) with true by reflexivity.
    (* ghost values at column 0 *)
    rewrite (nth_map_lt' _ _ _ (nofZ Rops 0)) by (rewrite HR; lia).
    rewrite (nth_map_lt' _ _ _ (nofZ Rops 0, 0)) by (rewrite combine_length, HR, Hql; lia).
    rewrite combine_nth by (rewrite HR, Hql; lia). cbn [fst snd]. rewrite Hqv by lia.
    change (nth 0 (nth 0 g []) (nofZ Rops 0)) with (gget Rops g 0 0).
    change (nth 0 (nth (Nz - 1) g []) (nofZ Rops 0)) with (gget Rops g (Nz - 1) 0).
    rewrite !Hcol by lia. cbn [nadd nsub nmul ndiv nofZ Rops].
    rewrite Edz, Edt, EK, El, Ea.
    destruct (Nat.eqb i 0) eqn:E0; [apply Nat.eqb_eq in E0; subst i|destruct (Nat.eqb i (Nz - 1)) eqn:EN];
      rewrite ?Nat.eqb_eq, ?Nat.eqb_neq in *.
    - repeat (rewrite Hcol by lia). rewrite (Hu 0%nat 1%nat) by lia. unfold Rdiv. field. repeat split; assumption.
    - subst i. repeat (rewrite Hcol by lia). rewrite (Hu (Nz - 1)%nat 1%nat) by lia. unfold Rdiv. field. repeat split; assumption.
    - repeat (rewrite Hcol by lia). rewrite (Hu i 1%nat) by lia. unfold Rdiv. field. repeat split; assumption.
  Qed.
End Columns.
