(* C12: the statistics recorded inside the loop are exactly those visible in the trajectory. *)
From Coq Require Import Reals ZArith Lra Lia List Bool.
From Snow Require Import Num NumR Flake FlakeProofs.
Import ListNotations.
Local Open Scope R_scope.

Section Vial.
  Variable P : @params R.
  Notation vu := (vial_update_q Rops P).
  Notation thr := (p_thr P).
  Notation dt := (p_dt P).
  Definition rtk (k : nat) : R := INR k * dt.

  Lemma tk_rtk k : tk Rops P (Z.of_nat k) = rtk k.
  Proof. unfold tk, rtk. cbn [nmul nofZ Rops]. now rewrite INR_IZR_INZ. Qed.

  (* what one step does to the bookkeeping *)
  Lemma vu_liquid k q v dec : vS v = 0 ->
    let v' := vu k q v dec in
    (vS v' = 0 /\ vst v' = vst v)
    \/ (rliquid_T P q (vT v) < p_Teql P /\ vS v' = rsigma_init P (rliquid_T P q (vT v))
        /\ st_tnuc (vst v') = Some (tk Rops P k + dt)
        /\ st_Tnuc (vst v') = Some (rliquid_T P q (vT v))
        /\ st_tsol (vst v') = st_tsol (vst v)).
  Proof.
    intros Hs. unfold vial_update_q, vial_step. cbn [neqb Rops]. change (nofZ Rops 0) with 0.
    rewrite Hs. assert (E : Reqb 0 0 = true) by (apply Reqb_true; reflexivity). rewrite E.
    destruct (candidate Rops P 0 (liquid_T Rops P q (vT v)) && dec) eqn:Ec; cbv beta iota zeta.
    - right. apply andb_true_iff in Ec. destruct Ec as [Ec _]. unfold candidate in Ec.
      apply andb_true_iff in Ec. destruct Ec as [_ Ec]. cbn [nltb Rops] in Ec. apply Rltb_true in Ec.
      cbn [vS vst st_tnuc st_Tnuc st_tsol]. repeat split; try reflexivity. exact Ec.
    - left. cbn [vS vst]. split; reflexivity.
  Qed.

  Lemma vu_solid k q v dec : vS v <> 0 ->
    let v' := vu k q v dec in
    vS v' = vS v + rdsigma P q (vS v)
    /\ st_tnuc (vst v') = st_tnuc (vst v) /\ st_Tnuc (vst v') = st_Tnuc (vst v)
    /\ st_tsol (vst v') =
       match st_tsol (vst v), st_tnuc (vst v) with
       | None, Some tn => if Rltb thr (vS v) then Some (tk Rops P k - tn) else None
       | x, _ => x
       end.
  Proof.
    intros Hs. unfold vial_update_q, vial_step. cbn [neqb nltb Rops]. change (nofZ Rops 0) with 0.
    assert (E : Reqb (vS v) 0 = false).
    { unfold Reqb. destruct (Req_EM_T (vS v) 0); [contradiction|reflexivity]. }
    rewrite E. unfold solid_step. cbv beta iota zeta. cbn [vS vst].
    destruct (st_tsol (vst v)) as [ts|] eqn:Ets, (st_tnuc (vst v)) as [tn|] eqn:Etn;
      try (repeat split; try reflexivity; try assumption; fail).
    destruct (Rltb thr (vS v)); cbn [st_tnuc st_Tnuc st_tsol]; repeat split; try reflexivity; assumption.
  Qed.

  (* a vial's trace: column m is its state at the start of step m *)
  Variables (c : nat -> @vstate R) (q : nat -> R) (d : nat -> bool) (N : nat).
  Hypothesis H0 : vS (c 0%nat) = 0 /\ vst (c 0%nat) = stat0.
  Hypothesis Hstep : forall m, (m < N)%nat -> c (S m) = vu (Z.of_nat m) (q m) (c m) (d m).
  (* once a vial contains ice it keeps containing ice, and a nucleation jump creates ice
     (both follow from admissibility, C06; the harness evaluates them on every run) *)
  Hypothesis NZ : forall m, (m < N)%nat -> vS (c m) <> 0 -> vS (c (S m)) <> 0.
  Hypothesis NZJ : forall T, T < p_Teql P -> rsigma_init P T <> 0.

  Definition tsol_spec (j k : nat) (o : option R) : Prop :=
    (o = None /\ forall m, (j < m < k)%nat -> ~ thr < vS (c m))
    \/ exists m, (j < m < k)%nat /\ thr < vS (c m) /\ (forall m', (j < m' < m)%nat -> ~ thr < vS (c m'))
                 /\ o = Some (rtk m - (rtk j + dt)).

  Definition stats_match (k : nat) : Prop :=
    (vS (c k) = 0 -> vst (c k) = stat0 /\ forall m, (m <= k)%nat -> vS (c m) = 0)
    /\ (vS (c k) <> 0 ->
        exists j, (j < k)%nat /\ (forall m, (m <= j)%nat -> vS (c m) = 0)
                  /\ (forall m, (j < m <= k)%nat -> vS (c m) <> 0)
                  /\ st_tnuc (vst (c k)) = Some (rtk j + dt)
                  /\ st_Tnuc (vst (c k)) = Some (rliquid_T P (q j) (vT (c j)))
                  /\ rliquid_T P (q j) (vT (c j)) < p_Teql P
                  /\ tsol_spec j k (st_tsol (vst (c k)))).

  Theorem stats_match_all k : (k <= N)%nat -> stats_match k.
  Proof.
    induction k as [|k IH]; intros Hk.
    - split.
      + intros _. split; [apply H0|]. intros m Hm. replace m with 0%nat by lia. apply H0.
      + intros Hne. exfalso. apply Hne, H0.
    - assert (Hk' : (k < N)%nat) by lia. specialize (IH ltac:(lia)). destruct IH as [IHz IHn].
      unfold stats_match. rewrite (Hstep k Hk').
      destruct (Req_EM_T (vS (c k)) 0) as [Ez|Enz].
      + (* liquid at column k *)
        destruct (IHz Ez) as [Hst Hall].
        destruct (vu_liquid (Z.of_nat k) (q k) (c k) (d k) Ez) as [[Hs' Hst']|(Hsc & Hs' & Htn & HTn & Hts)].
        * split.
          -- intros _. split; [rewrite Hst', Hst; reflexivity|].
             intros m Hm. destruct (Nat.eq_dec m (S k)) as [->|]; [rewrite (Hstep k Hk'); exact Hs'|apply Hall; lia].
          -- intros Hne. exfalso. apply Hne. exact Hs'.
        * split.
          -- intros Hz. exfalso. rewrite Hs' in Hz. exact (NZJ _ Hsc Hz).
          -- intros _. exists k. repeat split.
             ++ lia.
             ++ intros m Hm. apply Hall. lia.
             ++ intros m Hm. replace m with (S k) by lia. rewrite (Hstep k Hk'), Hs'. apply NZJ; assumption.
             ++ rewrite Htn, tk_rtk. reflexivity.
             ++ exact HTn.
             ++ exact Hsc.
             ++ left. split; [rewrite Hts, Hst; reflexivity|]. intros m Hm. lia.
      + (* iced at column k *)
        destruct (IHn Enz) as (j & Hj & Hzero & Hice & Htn & HTn & Hsc & Hts).
        destruct (vu_solid (Z.of_nat k) (q k) (c k) (d k) Enz) as (Hs' & Htn' & HTn' & Hts').
        assert (Hnz' : vS (c (S k)) <> 0) by (apply NZ; assumption).
        rewrite (Hstep k Hk') in Hnz'.
        split; [intros Hz; contradiction|].
        intros _. exists j. repeat split.
        * lia.
        * exact Hzero.
        * intros m Hm. destruct (Nat.eq_dec m (S k)) as [->|]; [rewrite (Hstep k Hk'); exact Hnz'|apply Hice; lia].
        * rewrite Htn'. exact Htn.
        * rewrite HTn'. exact HTn.
        * exact Hsc.
        * rewrite Hts', Htn. destruct Hts as [[Hnone Hno]|(m & Hm & Hgt & Hfirst & Hsome)].
          -- rewrite Hnone. destruct (Rltb thr (vS (c k))) eqn:Et.
             ++ apply Rltb_true in Et. right. exists k. repeat split; try lia; try assumption.
                rewrite tk_rtk. reflexivity.
             ++ apply Rltb_false in Et. left. split; [reflexivity|].
                intros m Hm. destruct (Nat.eq_dec m k) as [->|]; [lra|apply Hno; lia].
          -- rewrite Hsome. right. exists m. repeat split; try lia; assumption.
  Qed.
End Vial.

(* ---- from the whole-batch run to one vial's trace ------------------------------------ *)
Lemma map3_length {X Y Z W} (f : X -> Y -> Z -> W) l1 l2 l3 :
  length (map3 f l1 l2 l3) = Nat.min (length l1) (Nat.min (length l2) (length l3)).
Proof.
  revert l2 l3; induction l1 as [|a l1 IH]; intros [|b l2] [|c l3]; cbn; try reflexivity.
  rewrite IH. reflexivity.
Qed.

Lemma map3_nth {X Y Z W} (f : X -> Y -> Z -> W) l1 l2 l3 i dx dy dz dw :
  (i < length l1)%nat -> (i < length l2)%nat -> (i < length l3)%nat ->
  nth i (map3 f l1 l2 l3) dw = f (nth i l1 dx) (nth i l2 dy) (nth i l3 dz).
Proof.
  revert l2 l3 i; induction l1 as [|a l1 IH]; intros [|b l2] [|c l3] i H1 H2 H3; cbn in *; try lia.
  destruct i as [|i]; [reflexivity|]. apply IH; lia.
Qed.

Section Run.
  Variable P : @params R.
  Variable cs : list (@vconst R).
  Notation rstep := (step Rops P cs).

  Lemma run_from_cols : forall shelf decs k vs hist fin,
    run_from Rops P cs k shelf decs vs = (hist, fin) ->
    length hist = Nat.min (length shelf) (length decs)
    /\ nth 0 (hist ++ [fin]) [] = vs
    /\ forall m, (m < length hist)%nat ->
         nth (S m) (hist ++ [fin]) []
         = rstep (k + Z.of_nat m)%Z (nth m shelf 0) (nth m decs []) (nth m (hist ++ [fin]) []).
  Proof.
    induction shelf as [|Ts shelf IH]; intros decs k vs hist fin H.
    - cbn in H. inversion H; subst. cbn. repeat split; auto. intros m Hm; lia.
    - destruct decs as [|d decs].
      + cbn in H. inversion H; subst. cbn. repeat split; auto. intros m Hm; lia.
      + cbn [run_from] in H.
        destruct (run_from Rops P cs (k + 1)%Z shelf decs (rstep k Ts d vs)) as [h f] eqn:E.
        inversion H; subst. destruct (IH _ _ _ _ _ E) as (L & Z0 & St). cbn [length app].
        repeat split.
        * rewrite L. reflexivity.
        * intros [|m] Hm.
          -- cbn [nth]. rewrite Z.add_0_r. destruct h; cbn in Z0 |- *; exact Z0.
          -- cbn [nth]. cbn [length] in Hm. rewrite (St m ltac:(lia)).
             replace (k + 1 + Z.of_nat m)%Z with (k + Z.of_nat (S m))%Z by lia. reflexivity.
  Qed.

  Lemma step_length k Ts d vs n : length cs = n -> length vs = n -> length d = n ->
    length (rstep k Ts d vs) = n.
  Proof. intros. unfold step. rewrite map3_length. lia. Qed.

  Lemma step_nth k Ts d vs i dc dv : (i < length cs)%nat -> (i < length vs)%nat -> (i < length d)%nat ->
    nth i (rstep k Ts d vs) dv
    = vial_update_q Rops P k
        (heat Rops P (map (@vT R) vs) (c_nb (nth i cs dc)) (vT (nth i vs dv)) (c_hext (nth i cs dc)) (c_hsh (nth i cs dc)) Ts Ts)
        (nth i vs dv) (nth i d false).
  Proof. intros. unfold step. rewrite (map3_nth _ _ _ _ i dc dv false dv) by assumption. reflexivity. Qed.
End Run.

Lemma nth_repeat_lt {T} (x d : T) n i : (i < n)%nat -> nth i (repeat x n) d = x.
Proof. revert i; induction n as [|n IH]; intros i Hi; [lia|]. destruct i; [reflexivity|]. cbn. apply IH. lia. Qed.

Section RunStats.
  Variable P : @params R.
  Variable cs : list (@vconst R).
  Variables (n : nat) (T0 : R) (shelf : list R) (decs : list (list bool)).
  Variables (hist : list (list (@vstate R))) (fin : list (@vstate R)).
  Hypothesis Hrun : run_from Rops P cs 0%Z shelf decs (init Rops n T0) = (hist, fin).
  Hypothesis Hcs : length cs = n.
  Hypothesis Hlen : length shelf = length decs.
  Hypothesis Hrows : forall m, (m < length decs)%nat -> length (nth m decs []) = n.
  Let cols := hist ++ [fin].
  Let dv : @vstate R := MkV 0 0 stat0.
  Let dc : @vconst R := MkC [] 0 0.
  Let N := length decs.

  Lemma hist_len : length hist = N.
  Proof. destruct (run_from_cols P cs _ _ _ _ _ _ Hrun) as (L & _ & _). rewrite L, Hlen. apply Nat.min_id. Qed.

  Lemma col_length m : (m <= N)%nat -> length (nth m cols []) = n.
  Proof.
    destruct (run_from_cols P cs _ _ _ _ _ _ Hrun) as (L & Z0 & St). fold cols in Z0, St.
    induction m as [|m IH]; intros Hm.
    - rewrite Z0. unfold init. apply repeat_length.
    - rewrite St by (rewrite hist_len; lia). apply step_length; [assumption|apply IH; lia|apply Hrows; lia].
  Qed.

  Variable i : nat.
  Hypothesis Hi : (i < n)%nat.
  (* the trace of vial i and the heat flows it received *)
  Definition vcol (m : nat) : @vstate R := nth i (nth m cols []) dv.
  Definition vq (m : nat) : R :=
    heat Rops P (map (@vT R) (nth m cols [])) (c_nb (nth i cs dc)) (vT (vcol m))
         (c_hext (nth i cs dc)) (c_hsh (nth i cs dc)) (nth m shelf 0) (nth m shelf 0).
  Definition vdec (m : nat) : bool := nth i (nth m decs []) false.

  Lemma vcol_step m : (m < N)%nat ->
    vcol (S m) = vial_update_q Rops P (Z.of_nat m) (vq m) (vcol m) (vdec m).
  Proof.
    intros Hm. destruct (run_from_cols P cs _ _ _ _ _ _ Hrun) as (L & Z0 & St). fold cols in Z0, St.
    unfold vcol at 1. rewrite St by (rewrite hist_len; lia). rewrite Z.add_0_l.
    rewrite (step_nth P cs _ _ _ _ i dc dv); [reflexivity|lia| |].
    - rewrite col_length; lia.
    - rewrite Hrows; lia.
  Qed.

  Lemma vcol_0 : vS (vcol 0) = 0 /\ vst (vcol 0) = stat0.
  Proof.
    destruct (run_from_cols P cs _ _ _ _ _ _ Hrun) as (_ & Z0 & _). fold cols in Z0.
    unfold vcol. rewrite Z0. unfold init. rewrite nth_repeat_lt by assumption. split; reflexivity.
  Qed.

  Theorem run_stats_match :
    (forall m, (m < N)%nat -> vS (vcol m) <> 0 -> vS (vcol (S m)) <> 0) ->
    (forall T, T < p_Teql P -> rsigma_init P T <> 0) ->
    stats_match P vcol vq N.
  Proof.
    intros NZ NZJ. apply (stats_match_all P vcol vq vdec N vcol_0 vcol_step NZ NZJ). lia.
  Qed.
End RunStats.
