(* C01: every vial step of the shelf-scale model is one of the three published transitions. *)
From Coq Require Import Reals ZArith Lra Lia List Bool Psatz.
From Snow Require Import Num NumR Flake.
Import ListNotations.
Local Open Scope R_scope.

Section Step.
  Variable P : @params R.
  Notation dt := (p_dt P). Notation hl := (p_hl P). Notation alpha := (p_alpha P).
  Notation beta_sol := (p_beta_sol P). Notation Dp := (p_depr P). Notation mass := (p_mass P).
  Notation cp_sol := (p_cp_sol P). Notation Teq := (p_Teq P). Notation Teql := (p_Teql P).

  Definition rliquid_T := liquid_T Rops P.
  Definition rsigma_init := sigma_init Rops P.
  Definition ron_curve := on_curve Rops P.
  Definition rcp_sigma := cp_sigma Rops P.
  Definition rdsigma := dsigma Rops P.
  Definition rvial_step := vial_step Rops P.

  Lemma on_curve_eq s : ron_curve s = Teq - Dp * (1 / (1 - s)).
  Proof. reflexivity. Qed.
  Lemma liquid_T_eq q T : rliquid_T q T = T + q / hl * dt.
  Proof. reflexivity. Qed.
  Lemma cp_sigma_eq s : rcp_sigma s = p_sf P * p_cp_s P + (1 - p_sf P) * (s * (p_cp_i P - p_cp_w P) + p_cp_w P).
  Proof. reflexivity. Qed.
  Lemma dsigma_eq q s :
    rdsigma q s = q / (alpha - Dp * mass * rcp_sigma s / ((1 - s) * (1 - s))) * dt.
  Proof. reflexivity. Qed.

  (* the three transitions *)
  Inductive transition (q T s T' s' : R) : kind -> Prop :=
  | TrLiquid : s = 0 -> s' = 0 -> hl * (T' - T) = q * dt -> transition q T s T' s' KLiquid
  | TrJump : forall Tstar, s = 0 -> hl * (Tstar - T) = q * dt -> Tstar < Teql ->
             s' = rsigma_init Tstar -> T' = ron_curve s' -> transition q T s T' s' KJump
  | TrSolid : forall ds, s <> 0 -> s' = s + ds -> T' = ron_curve s' ->
             (* latent + sensible heat absorb the net heat flow:
                q dt = alpha ds + m cp(s) dT_lin   with  dT_lin = -(D/(1-s)^2) ds  *)
             q * dt = alpha * ds + mass * rcp_sigma s * (- (Dp / ((1 - s) * (1 - s))) * ds) ->
             transition q T s T' s' KSolid.

  Hypothesis Hhl : hl <> 0.

  Theorem step_trichotomy q T s dec :
    (s <> 0 -> s <> 1 /\ alpha - Dp * mass * rcp_sigma s / ((1 - s) * (1 - s)) <> 0) ->
    let '(T', s', kd) := rvial_step q T s dec in transition q T s T' s' kd.
  Proof.
    intros Hs. unfold rvial_step, vial_step. cbn [neqb Rops].
    change (nofZ Rops 0) with 0.
    destruct (Reqb s 0) eqn:Es.
    - apply Reqb_true in Es. subst s.
      destruct (candidate Rops P 0 (liquid_T Rops P q T) && dec) eqn:Ec.
      + cbv beta iota zeta. apply andb_true_iff in Ec. destruct Ec as [Ec _].
        unfold candidate in Ec. apply andb_true_iff in Ec. destruct Ec as [_ Ec].
        cbn [nltb Rops] in Ec. apply Rltb_true in Ec.
        eapply TrJump with (Tstar := rliquid_T q T); try reflexivity.
        * rewrite liquid_T_eq. field. exact Hhl.
        * exact Ec.
      + cbv beta iota zeta. apply TrLiquid; try reflexivity. fold (rliquid_T q T). rewrite liquid_T_eq. field. exact Hhl.
    - assert (Hs0 : s <> 0) by (intros E; subst; unfold Reqb in Es; destruct (Req_EM_T 0 0); [discriminate|auto]).
      destruct (Hs Hs0) as [Hs1 Hden].
      unfold solid_step. cbv beta iota zeta. eapply TrSolid with (ds := rdsigma q s); try reflexivity; [exact Hs0|].
      rewrite dsigma_eq.
      set (den := alpha - Dp * mass * rcp_sigma s / ((1 - s) * (1 - s))) in *.
      assert (Hq : q * dt = den * (q / den * dt)) by (field; exact Hden).
      rewrite Hq at 1. set (d := q / den * dt). unfold den. field.
      intros E; apply Hs1; lra.
  Qed.

  (* indirect formulation = eq. (9) of the derivation, once the derived constants have their
     defining values (proved for the translated constants.py in props/C19.v) *)
  Theorem indirect_is_eq9 Dh ws Tstar :
    p_direct P = false ->
    alpha = - mass * Dh * (1 - ws) -> beta_sol = Dp * mass * cp_sol ->
    mass <> 0 -> cp_sol <> 0 -> Dp + Dh * (1 - ws) / cp_sol <> 0 ->
    rsigma_init Tstar = (Teql - Tstar) / (Dp + Dh / cp_sol * (1 - ws)).
  Proof.
    intros Hd Ha Hb Hm Hc Hden. unfold rsigma_init, sigma_init. rewrite Hd.
    cbn [nopp nsub nmul ndiv Rops]. rewrite Ha, Hb.
    set (K := Dp * cp_sol + Dh * (1 - ws)).
    assert (HK : K <> 0).
    { intros E. apply Hden.
      replace (Dp + Dh * (1 - ws) / cp_sol) with (K / cp_sol) by (unfold K; field; assumption).
      rewrite E. field; assumption. }
    replace (- mass * Dh * (1 - ws) - Dp * mass * cp_sol) with (- mass * K) by (unfold K; ring).
    replace (Dp + Dh / cp_sol * (1 - ws)) with (K / cp_sol) by (unfold K; field; assumption).
    field. repeat split; assumption.
  Qed.

  (* direct formulation: the coded root solves the quadratic (12) and the adiabatic balance (10)/(11),
     and is the physically admissible root *)
  Section Direct.
    Hypothesis Hdir : p_direct P = true.
    Variable gamma : R.
    Hypothesis Hgamma : gamma = - alpha / mass / cp_sol.
    Hypothesis Hg : 0 < gamma.
    Hypothesis HD : 0 < Dp.
    Variable Tstar : R.
    Hypothesis Hsc : Tstar < Teq - Dp.          (* supercooled: below T_eq_l = T_eq - D *)
    Let x := Teq - Tstar.
    Let disc := (x - gamma) * (x - gamma) + 4 * gamma * Dp.
    Let sg := rsigma_init Tstar.

    Lemma disc_pos : 0 < disc.
    Proof.
      unfold disc. apply Rplus_le_lt_0_compat.
      - apply Rle_0_sqr.
      - apply Rmult_lt_0_compat; [lra|exact HD].
    Qed.

    Lemma sigma_direct_closed : sg = (x + gamma - sqrt disc) / (2 * gamma).
    Proof.
      unfold sg, rsigma_init, sigma_init. rewrite Hdir.
      cbn [nopp nsub nmul ndiv nadd nsqrt Rops]. change (nofZ Rops 4) with 4. change (nofZ Rops 2) with 2.
      rewrite <- Hgamma.
      replace ((Teq - Tstar + gamma) * (Teq - Tstar + gamma) + 4 * gamma * (Tstar - Teq + Dp)) with disc
        by (unfold disc, x; ring).
      unfold x. field. lra.
    Qed.

    Lemma sqrt_disc_sq : sqrt disc * sqrt disc = disc.
    Proof. apply sqrt_sqrt. left; apply disc_pos. Qed.

    Theorem direct_solves_eq12 :
      sg * sg * (- gamma) + sg * (Teq - Tstar + gamma) + Dp - Teq + Tstar = 0.
    Proof.
      rewrite sigma_direct_closed. assert (E := sqrt_disc_sq). set (r := sqrt disc) in *.
      assert (E' : r * r = (x - gamma) * (x - gamma) + 4 * gamma * Dp) by (rewrite E; reflexivity).
      fold x. field_simplify_eq; [|lra]. unfold x in *. nra.
    Qed.

    Theorem direct_admissible : 0 < sg < 1.
    Proof.
      rewrite sigma_direct_closed. assert (E := sqrt_disc_sq). assert (Hp := disc_pos).
      assert (Hr : 0 < sqrt disc) by (apply sqrt_lt_R0; assumption).
      set (r := sqrt disc) in *.
      assert (E' : r * r = (x - gamma) * (x - gamma) + 4 * gamma * Dp) by (rewrite E; reflexivity).
      assert (Hx : Dp < x) by (unfold x; lra).
      split.
      - apply Rdiv_lt_0_compat; [|lra]. assert (r < x + gamma); [|lra].
        assert (0 < x + gamma) by lra. nra.
      - apply Rmult_lt_reg_r with (2 * gamma); [lra|]. unfold Rdiv. rewrite Rmult_assoc, Rinv_l by lra.
        assert (x - gamma < r); [|lra].
        destruct (Rle_lt_dec (x - gamma) 0); [lra|]. nra.
    Qed.

    (* eq. (10)/(11): the temperature on the depression curve at sg is adiabatically reached from T* *)
    Theorem direct_is_adiabatic : ron_curve sg - Tstar = sg * gamma.
    Proof.
      assert (H12 := direct_solves_eq12). destruct direct_admissible as [H0 H1].
      rewrite on_curve_eq. cbn [nofZ Rops].
      assert (Hne : 1 - sg <> 0) by lra.
      apply Rmult_eq_reg_r with (1 - sg); [|exact Hne].
      field_simplify_eq; [|exact Hne]. nra.
    Qed.

    Corollary direct_jump_warms_to_curve : Tstar < ron_curve sg <= Teq - Dp.
    Proof.
      assert (H := direct_is_adiabatic). destruct direct_admissible as [H0 H1]. split.
      - assert (0 < sg * gamma) by (apply Rmult_lt_0_compat; assumption). lra.
      - rewrite on_curve_eq. cbn [nofZ Rops]. assert (1 <= 1 / (1 - sg)).
        { apply Rmult_le_reg_r with (1 - sg); [lra|]. unfold Rdiv. rewrite Rmult_1_l, Rmult_1_l, Rinv_l by lra. lra. }
        nra.
    Qed.
  End Direct.

  (* indirect formulation is admissible while the supercooling stays below gamma *)
  Section Indirect.
    Hypothesis Hind : p_direct P = false.
    Variables gamma : R.
    Hypothesis Hg : 0 < gamma.
    Hypothesis HD : 0 < Dp.
    Variable Tstar : R.
    Hypothesis Heq9 : rsigma_init Tstar = (Teq - Dp - Tstar) / (Dp + gamma).
    Hypothesis Hsc : Tstar < Teq - Dp.
    Hypothesis Hlim : Teq - Tstar < Dp + gamma.  (* supercooling T_eq_l - T* below gamma (about 80 K) *)
    Let sg := rsigma_init Tstar.

    Theorem indirect_admissible : 0 < sg < 1.
    Proof.
      unfold sg. rewrite Heq9. split.
      - apply Rdiv_lt_0_compat; lra.
      - apply Rmult_lt_reg_r with (Dp + gamma); [lra|]. unfold Rdiv.
        rewrite Rmult_assoc, Rinv_l by lra. lra.
    Qed.

    Theorem indirect_jump_warms_to_curve : Tstar < ron_curve sg <= Teq - Dp.
    Proof.
      destruct indirect_admissible as [H0 H1]. rewrite on_curve_eq. cbn [nofZ Rops].
      assert (Es : sg * (Dp + gamma) = Teq - Dp - Tstar).
      { unfold sg. rewrite Heq9. field. lra. }
      assert (Hi : 1 / (1 - sg) * (1 - sg) = 1) by (field; lra).
      set (u := 1 / (1 - sg)) in *.
      assert (Hu0 : 0 < u) by (unfold u; apply Rdiv_lt_0_compat; lra).
      assert (Hus : 0 < u * sg) by (apply Rmult_lt_0_compat; lra).
      assert (Hu1 : 1 < u) by lra.
      split.
      - (* Teq - Dp u > Tstar: multiply the claim by (1 - sg) > 0 *)
        apply Rmult_lt_reg_r with (1 - sg); [lra|].
        replace ((Teq - Dp * u) * (1 - sg)) with (Teq * (1 - sg) - Dp * (u * (1 - sg))) by ring.
        rewrite Hi.
        assert (Ex : Teq - Tstar = Dp + sg * (Dp + gamma)) by lra.
        assert (sg * sg < sg) by nra.
        assert (0 < sg * gamma) by (apply Rmult_lt_0_compat; lra).
        assert (0 < sg * Dp) by (apply Rmult_lt_0_compat; lra).
        (* (Teq - Tstar)(1 - sg) > Dp *)
        assert ((Teq - Tstar) * (1 - sg) - Dp = sg * (Dp + gamma) * (1 - sg) - sg * Dp) by (rewrite Ex; ring).
        assert (sg * (Dp + gamma) * (1 - sg) - sg * Dp = sg * ((Dp + gamma) * (1 - sg) - Dp)) by ring.
        assert ((Dp + gamma) * (1 - sg) - Dp = gamma - sg * (Dp + gamma)) by ring.
        assert (0 < gamma - sg * (Dp + gamma)) by lra.
        assert (0 < sg * (gamma - sg * (Dp + gamma))) by (apply Rmult_lt_0_compat; lra).
        nra.
      - assert (0 < Dp * (u - 1)) by (apply Rmult_lt_0_compat; lra). lra.
    Qed.
  End Indirect.

  (* on the depression curve a vial with 0 <= sigma < 1 is at or below T_eq_l *)
  Lemma on_curve_below_Teql s : 0 < Dp -> 0 <= s < 1 -> ron_curve s <= Teq - Dp.
  Proof.
    intros HD Hs. rewrite on_curve_eq. cbn [nofZ Rops].
    assert (1 <= 1 / (1 - s)).
    { apply Rmult_le_reg_r with (1 - s); [lra|]. unfold Rdiv. rewrite Rmult_1_l, Rmult_1_l, Rinv_l by lra. lra. }
    nra.
  Qed.

  Lemma den_neg s : alpha < 0 -> 0 < Dp -> 0 < mass -> 0 < rcp_sigma s -> s < 1 ->
    alpha - Dp * mass * rcp_sigma s / ((1 - s) * (1 - s)) < 0.
  Proof.
    intros Ha HD Hm Hc Hs.
    assert (0 < (1 - s) * (1 - s)) by (apply Rmult_lt_0_compat; lra).
    assert (0 < Dp * mass * rcp_sigma s) by (repeat apply Rmult_lt_0_compat; assumption).
    assert (0 < Dp * mass * rcp_sigma s / ((1 - s) * (1 - s))) by (apply Rdiv_lt_0_compat; assumption).
    lra.
  Qed.

  Corollary step_trichotomy_physical q T s dec :
    alpha < 0 -> 0 < Dp -> 0 < mass -> 0 < rcp_sigma s -> s < 1 ->
    let '(T', s', kd) := rvial_step q T s dec in transition q T s T' s' kd.
  Proof.
    intros Ha HD Hm Hc Hs. apply step_trichotomy. intros _. split; [lra|].
    assert (H := den_neg s Ha HD Hm Hc Hs). lra.
  Qed.
End Step.
