(* C07, 2D: the ice field reported after ANY solidification step of the 2D model (any grid, any shelf temperature,
   any evaporative flux, in-place or simultaneous sweep) is the liquidus value of the new temperature field, point
   by point: between 0 and the water mass fraction, zero exactly at the points at or above T_eq_l. *)
From Coq Require Import Reals ZArith List Bool Arith Lia Lra.
From Snow Require Import Num NumR Sn2D.
Import ListNotations.
Local Open Scope R_scope.

Lemma div_swap_lt d m x : 0 < m -> 0 < d -> d / m < x -> d / x < m.
Proof.
  intros Hm Hd H. assert (Hx : 0 < x) by (assert (0 < d / m) by (apply Rdiv_lt_0_compat; assumption); lra).
  assert (H1 : d / m * m < x * m) by (apply Rmult_lt_compat_r; assumption).
  assert (H0 : d / m * m = d) by (field; lra).
  apply Rmult_lt_reg_r with x; [exact Hx|]. unfold Rdiv at 1. rewrite Rmult_assoc, Rinv_l by lra. lra.
Qed.

Section Ice2.
  Variable P : @p2d R.
  Local Notation mw := (s_mw P). Local Notation ms := (s_ms P). Local Notation Tm := (s_Tm P).
  Local Notation Teql := (s_Teql P).
  Local Notation dep := (s_ms P * (s_kf P / s_Ms P)).
  Hypothesis Hmw : 0 < mw.
  Hypothesis Hms : 0 <= ms.
  Hypothesis Hdep : 0 < dep.
  Hypothesis HTe : Teql = Tm - dep / mw.

  Lemma ice2_relation T :
    (T < Teql -> ice2 Rops P T = (mw - dep / (Tm - T)) / (mw + ms) /\ 0 < ice2 Rops P T < mw / (mw + ms))
    /\ (Teql <= T -> ice2 Rops P T = 0).
  Proof.
    unfold ice2. cbn [nltb nsub nadd nmul ndiv nofZ Rops]. split.
    - intros Hlt. assert (Rltb T Teql = true) as -> by (apply Rltb_true; exact Hlt). split; [reflexivity|].
      assert (Hq0 : 0 < dep / mw) by (apply Rdiv_lt_0_compat; assumption).
      assert (Hpos : 0 < Tm - T) by lra.
      assert (Hd : dep / mw < Tm - T) by lra.
      assert (Hq : dep / (Tm - T) < mw) by (apply div_swap_lt; assumption).
      assert (0 < dep / (Tm - T)) by (apply Rdiv_lt_0_compat; assumption).
      assert (Hm : 0 < mw + ms) by lra.
      split.
      + apply Rdiv_lt_0_compat; lra.
      + unfold Rdiv. apply Rmult_lt_compat_r; [apply Rinv_0_lt_compat; exact Hm|]. lra.
    - intros Hge. assert (Rltb T Teql = false) as -> by (apply Rltb_false; exact Hge). reflexivity.
  Qed.

  Definition ice_ok (T w : R) : Prop :=
    0 <= w < mw / (mw + ms) /\ (Teql <= T -> w = 0) /\ (T < Teql -> 0 < w /\ w = (mw - dep / (Tm - T)) / (mw + ms)).

  Lemma ice2_ok T : ice_ok T (ice2 Rops P T).
  Proof.
    destruct (ice2_relation T) as [A B]. unfold ice_ok.
    assert (0 < mw / (mw + ms)) by (apply Rdiv_lt_0_compat; lra).
    destruct (Rlt_le_dec T Teql) as [Hl|Hg].
    - destruct (A Hl) as [E [L U]]. repeat split; intros; try lra; try exact E.
    - rewrite (B Hg). repeat split; intros; try lra.
  Qed.

  (* two grids related point by point *)
  Definition grids_rel (R2 : R -> R -> Prop) (g w : @grid R) : Prop := Forall2 (Forall2 R2) g w.

  Lemma map_map_rel (f : R -> R) (R2 : R -> R -> Prop) (g : @grid R) :
    (forall x, R2 x (f x)) -> grids_rel R2 g (map (map f) g).
  Proof.
    intros Hf. unfold grids_rel. induction g as [|row g IH]; cbn [map]; constructor; [|exact IH].
    induction row as [|x row IHr]; cbn [map]; constructor; [apply Hf|exact IHr].
  Qed.

  Variables (Nz Nr : nat) (rr : list R).

  Theorem solid_step2_ice_field inplace g w Tsh qe :
    grids_rel ice_ok (fst (solid_step2 Rops P Nz Nr rr inplace g w Tsh qe))
                     (snd (solid_step2 Rops P Nz Nr rr inplace g w Tsh qe)).
  Proof. unfold solid_step2. cbn [fst snd]. apply map_map_rel. exact ice2_ok. Qed.

  Theorem solid_step2_t_ice_field inplace visf t tstart tdur dHe g w Tsh fluxes :
    grids_rel ice_ok (fst (solid_step2_t Rops P Nz Nr rr inplace visf t tstart tdur dHe g w Tsh fluxes))
                     (snd (solid_step2_t Rops P Nz Nr rr inplace visf t tstart tdur dHe g w Tsh fluxes)).
  Proof. unfold solid_step2_t. apply solid_step2_ice_field. Qed.
End Ice2.

(* the hypotheses are met by a concrete solution (5 % solute), and the relation is not trivially empty: one point below
   and one at T_eq_l *)
Example ice2_nonvacuous :
  let P := MkP2 1 1 1 1 1 1 1  1 1 1 0 1 1  1 2 1 1 1 19 1  0 (- (2 / 19)) in
  0 < s_mw P /\ 0 <= s_ms P /\ 0 < s_ms P * (s_kf P / s_Ms P) /\ s_Teql P = s_Tm P - s_ms P * (s_kf P / s_Ms P) / s_mw P
  /\ ice2 Rops P (-1) = 17 / 20 /\ ice2 Rops P (- (2 / 19)) = 0.
Proof.
  cbn [s_mw s_ms s_kf s_Ms s_Tm s_Teql]. repeat split; try lra.
  - unfold ice2. cbn [nltb nsub nadd nmul ndiv nofZ Rops s_mw s_ms s_kf s_Ms s_Tm s_Teql].
    assert (Rltb (-1) (- (2 / 19)) = true) as -> by (apply Rltb_true; lra). field.
  - unfold ice2. cbn [nltb nsub nadd nmul ndiv nofZ Rops s_mw s_ms s_kf s_Ms s_Tm s_Teql].
    assert (Rltb (- (2 / 19)) (- (2 / 19)) = false) as -> by (apply Rltb_false; lra). reflexivity.
Qed.
