(* C03: the stochastic nucleation rate law of the shelf-scale model, over R. *)
From Coq Require Import Reals ZArith Lra Lia List Bool.
From Snow Require Import Num NumR Flake FlakeProofs.
Local Open Scope R_scope.

(* k_v = 10^-(a + c xi_v) *)
Definition kbv (a c xi : R) : R := Rpower 10 (- (a + xi * c)).
(* step probability of a supercooled vial:  k_v V (T_eq_l - T)^b dt *)
Definition prob (a b c xi V Teql Tstar dt : R) : R := kbv a c xi * V * Rpower (Teql - Tstar) b * dt.
(* the dice decision of one vial in one step; at the controlled-nucleation step P is forced to 1 *)
Definition decision (cn_step : bool) (u P : R) : bool := Rltb u (if cn_step then 1 else P).

Lemma kbv_pos a c xi : 0 < kbv a c xi.
Proof. unfold kbv, Rpower. apply exp_pos. Qed.

Lemma prob_pos a b c xi V Teql Tstar dt : 0 < V -> 0 < dt -> 0 < prob a b c xi V Teql Tstar dt.
Proof.
  intros HV Hdt. unfold prob. repeat apply Rmult_lt_0_compat; try assumption.
  - apply kbv_pos. - unfold Rpower; apply exp_pos.
Qed.

(* proportional to the time step and to the volume *)
Lemma prob_linear_dt a b c xi V Teql Tstar dt : prob a b c xi V Teql Tstar dt = dt * prob a b c xi V Teql Tstar 1.
Proof. unfold prob. ring. Qed.
Lemma prob_linear_V a b c xi V Teql Tstar dt : prob a b c xi V Teql Tstar dt = V * prob a b c xi 1 Teql Tstar dt.
Proof. unfold prob. ring. Qed.

(* increasing in the supercooling *)
Lemma prob_mono a b c xi V Teql T1 T2 dt : 0 < V -> 0 < dt -> 0 < b -> T1 < T2 -> T2 < Teql ->
  prob a b c xi V Teql T2 dt < prob a b c xi V Teql T1 dt.
Proof.
  intros HV Hdt Hb H12 H2. unfold prob.
  apply Rmult_lt_compat_r; [assumption|]. apply Rmult_lt_compat_l.
  - apply Rmult_lt_0_compat; [apply kbv_pos|assumption].
  - unfold Rpower. apply exp_increasing. apply Rmult_lt_compat_l; [assumption|]. apply ln_increasing; lra.
Qed.

Section Law.
  Variable P : @params R.

  (* a vial nucleates in a step iff it is liquid, its temperature after the liquid update is below
     T_eq_l, and its decision is positive *)
  Theorem jump_iff q T s dec :
    snd (rvial_step P q T s dec) = KJump
    <-> s = 0 /\ rliquid_T P q T < p_Teql P /\ dec = true.
  Proof.
    unfold rvial_step, vial_step. cbn [neqb Rops]. change (nofZ Rops 0) with 0.
    destruct (Reqb s 0) eqn:Es.
    - apply Reqb_true in Es. subst s. unfold candidate. cbn [neqb nltb Rops]. change (nofZ Rops 0) with 0.
      assert (E0 : Reqb 0 0 = true) by (apply Reqb_true; reflexivity). rewrite E0. cbn [andb].
      fold (rliquid_T P q T).
      destruct (Rltb (rliquid_T P q T) (p_Teql P)) eqn:El; cbn [andb].
      + apply Rltb_true in El. destruct dec; cbn [snd]; split; intros H; try discriminate; try tauto.
        destruct H as (_ & _ & H); discriminate.
      + apply Rltb_false in El. cbn [snd]. split; [discriminate|]. intros (_ & H & _). lra.
    - unfold solid_step. cbn [snd]. split; [discriminate|]. intros (H & _). subst.
      unfold Reqb in Es. destruct (Req_EM_T 0 0); [discriminate|contradiction].
  Qed.

  (* with the dice: exactly when the uniform draw is below the step probability *)
  Corollary nucleates_iff_draw_below_probability q T s a b c xi V u :
    snd (rvial_step P q T s (decision false u (prob a b c xi V (p_Teql P) (rliquid_T P q T) (p_dt P)))) = KJump
    <-> s = 0 /\ rliquid_T P q T < p_Teql P /\ u < prob a b c xi V (p_Teql P) (rliquid_T P q T) (p_dt P).
  Proof. rewrite jump_iff. unfold decision. rewrite Rltb_true. tauto. Qed.

  (* certain once the probability reaches 1 (the draw lies in [0,1)) *)
  Corollary certain_when_probability_reaches_one q T a b c xi V u :
    0 <= u < 1 -> rliquid_T P q T < p_Teql P ->
    1 <= prob a b c xi V (p_Teql P) (rliquid_T P q T) (p_dt P) ->
    snd (rvial_step P q T 0 (decision false u (prob a b c xi V (p_Teql P) (rliquid_T P q T) (p_dt P)))) = KJump.
  Proof. intros Hu Hsc HP. apply nucleates_iff_draw_below_probability. repeat split; try assumption; lra. Qed.

  (* a vial that is not supercooled, or already contains ice, never nucleates -- whatever the draw,
     also at the controlled-nucleation step *)
  Corollary never_if_not_supercooled_or_iced q T s dec :
    s <> 0 \/ p_Teql P <= rliquid_T P q T -> snd (rvial_step P q T s dec) <> KJump.
  Proof. intros H E. apply jump_iff in E. destruct E as (E1 & E2 & _). destruct H; [contradiction|lra]. Qed.

  (* at the controlled-nucleation step every liquid supercooled vial nucleates (draws lie in [0,1)) *)
  Corollary controlled_nucleation_forces_candidates q T u Pv :
    0 <= u < 1 -> rliquid_T P q T < p_Teql P ->
    snd (rvial_step P q T 0 (decision true u Pv)) = KJump.
  Proof.
    intros Hu Hsc. apply jump_iff. repeat split; try assumption. unfold decision. apply Rltb_true. lra.
  Qed.
End Law.
