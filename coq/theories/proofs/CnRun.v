(* C10: up to the controlled-nucleation step a run is identical to the run without controlled
   nucleation (same shelf profile, same decisions before that step).  Generic in the number type:
   pure list reasoning about run_from. *)
From Coq Require Import ZArith List Bool Lia.
From Snow Require Import Num Flake.
Import ListNotations.

Section Prefix.
  Context {A : Type} (o : NumOps A) (P : @params A) (cs : list (@vconst A)).

  Definition columns (k : Z) (shelf : list A) (decs : list (list bool)) (vs : list (@vstate A)) : list (list (@vstate A)) :=
    let '(h, f) := run_from o P cs k shelf decs vs in h ++ [f].

  Lemma columns_nil_decs k shelf vs : columns k shelf [] vs = [vs].
  Proof. unfold columns. destruct shelf; reflexivity. Qed.
  Lemma columns_nil_shelf k decs vs : columns k [] decs vs = [vs].
  Proof. reflexivity. Qed.
  Lemma columns_cons k Ts shelf d decs vs :
    columns k (Ts :: shelf) (d :: decs) vs = vs :: columns (k + 1)%Z shelf decs (step o P cs k Ts d vs).
  Proof.
    unfold columns. cbn [run_from].
    destruct (run_from o P cs (k + 1)%Z shelf decs (step o P cs k Ts d vs)) as [h f]. reflexivity.
  Qed.

  (* the first K+1 columns depend only on the first K decision vectors *)
  Theorem columns_prefix : forall K k shelf decs1 decs2 vs,
    firstn K decs1 = firstn K decs2 ->
    firstn (S K) (columns k shelf decs1 vs) = firstn (S K) (columns k shelf decs2 vs).
  Proof.
    induction K as [|K IH]; intros k shelf decs1 decs2 vs H.
    - destruct shelf as [|Ts shelf]; [reflexivity|].
      destruct decs1 as [|d1 r1], decs2 as [|d2 r2];
        rewrite ?columns_nil_decs, ?columns_cons; reflexivity.
    - destruct shelf as [|Ts shelf]; [reflexivity|].
      destruct decs1 as [|d1 r1], decs2 as [|d2 r2]; cbn [firstn] in H; try discriminate.
      + reflexivity.
      + inversion H; subst. rewrite !columns_cons. cbn [firstn]. f_equal. apply IH. assumption.
  Qed.
End Prefix.
