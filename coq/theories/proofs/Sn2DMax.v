(* C07, 2D: discrete maximum principle of the cooling step of the 2D model FOR THE IN-PLACE SWEEP the
   implementation performs.  Each cell update is a convex combination of values of the grid as it stands when the
   cell is visited and of ghost values computed from the start-of-step grid; every intermediate grid therefore stays
   between the bounds.  Conditions: the explicit-scheme restriction 4a/dr^2 + 2a/dz^2 <= 1 (a = alpha dt; the axis
   stencil has weight 4a/dr^2), dr <= 2 r_j off the axis, Biot-type numbers K dz/lambda, Kw dr/lambda in [0,1],
   no evaporative flux (q_e = 0). *)
From Coq Require Import Reals ZArith List Bool Arith Lia Lra.
From Snow Require Import Num NumR Sn2D Sn2DProofs.
Import ListNotations.
Local Open Scope R_scope.

Definition gbounded (Nz Nr : nat) (lo hi : R) (g : grid (A:=R)) : Prop :=
  forall i j, (i < Nz)%nat -> (j < Nr)%nat -> lo <= gget Rops g i j <= hi.

(* the in-place sweep keeps any box that every single cell update keeps *)
Lemma sweep_true_bounded Nz Nr lo hi cell g0 :
  shape g0 Nz Nr -> gbounded Nz Nr lo hi g0 ->
  (forall g i j, shape g Nz Nr -> gbounded Nz Nr lo hi g -> (i < Nz)%nat -> (j < Nr)%nat -> lo <= cell g i j <= hi) ->
  shape (sweep Nz Nr true cell g0) Nz Nr /\ gbounded Nz Nr lo hi (sweep Nz Nr true cell g0).
Proof.
  intros Hs Hb Hc. unfold sweep. generalize (seq 0 9). intros ks. revert g0 Hs Hb.
  induction ks as [|k ks IH]; intros g Hs Hb; [split; assumption|].
  cbn [fold_left]. apply IH.
  - now apply shape_gmapi.
  - intros i j Hi Hj. rewrite (gget_gmapi Rops _ g Nz Nr) by assumption.
    destruct (region Nz Nr k i j); [apply Hc; assumption|apply Hb; assumption].
Qed.

Lemma convex5 lo hi T w1 x1 w2 x2 w3 x3 w4 x4 :
  0 <= w1 -> 0 <= w2 -> 0 <= w3 -> 0 <= w4 -> w1 + w2 + w3 + w4 <= 1 ->
  lo <= T <= hi -> lo <= x1 <= hi -> lo <= x2 <= hi -> lo <= x3 <= hi -> lo <= x4 <= hi ->
  lo <= T * (1 - (w1 + w2 + w3 + w4)) + w1 * x1 + w2 * x2 + w3 * x3 + w4 * x4 <= hi.
Proof.
  intros H1 H2 H3 H4 Hs [HT1 HT2] [A1 A2] [B1 B2] [C1 C2] [D1 D2].
  assert (0 <= 1 - (w1 + w2 + w3 + w4)) by lra.
  assert (0 <= (1 - (w1 + w2 + w3 + w4)) * (T - lo)) by (apply Rmult_le_pos; lra).
  assert (0 <= (1 - (w1 + w2 + w3 + w4)) * (hi - T)) by (apply Rmult_le_pos; lra).
  assert (0 <= w1 * (x1 - lo)) by (apply Rmult_le_pos; lra).
  assert (0 <= w1 * (hi - x1)) by (apply Rmult_le_pos; lra).
  assert (0 <= w2 * (x2 - lo)) by (apply Rmult_le_pos; lra).
  assert (0 <= w2 * (hi - x2)) by (apply Rmult_le_pos; lra).
  assert (0 <= w3 * (x3 - lo)) by (apply Rmult_le_pos; lra).
  assert (0 <= w3 * (hi - x3)) by (apply Rmult_le_pos; lra).
  assert (0 <= w4 * (x4 - lo)) by (apply Rmult_le_pos; lra).
  assert (0 <= w4 * (hi - x4)) by (apply Rmult_le_pos; lra).
  split; nra.
Qed.

Section Max2D.
  Variable P : p2d (A:=R).
  Variables (Nz Nr : nat) (rr : list R).
  Hypothesis HNz : (3 <= Nz)%nat.
  Hypothesis HNr : (3 <= Nr)%nat.
  Variables lo hi : R.
  Let a := s_alpha0 P * s_dt P.
  Let dr := s_dr P.
  Let dz := s_dz P.
  Hypothesis Ha : 0 <= a.
  Hypothesis Hdr : 0 < dr.
  Hypothesis Hdz : 0 < dz.
  Hypothesis Hcfl : 4 * (a / (dr * dr)) + 2 * (a / (dz * dz)) <= 1.
  Hypothesis Hr : forall j, (1 <= j < Nr)%nat -> dr <= 2 * rj Rops rr j.

  Lemma axis_bound T E zn zs :
    lo <= T <= hi -> lo <= E <= hi -> lo <= zn <= hi -> lo <= zs <= hi ->
    lo <= T + a * (2 * (E - 2 * T + T) / (dr * dr) + (zn - 2 * T + zs) / (dz * dz)) <= hi.
  Proof.
    intros HT HE Hn Hs.
    set (p := a / (dr * dr)). set (z := a / (dz * dz)).
    assert (Hp : 0 <= p) by (apply Rmult_le_pos; [exact Ha|left; apply Rinv_0_lt_compat; nra]).
    assert (Hz : 0 <= z) by (apply Rmult_le_pos; [exact Ha|left; apply Rinv_0_lt_compat; nra]).
    replace (T + a * (2 * (E - 2 * T + T) / (dr * dr) + (zn - 2 * T + zs) / (dz * dz)))
      with (T * (1 - (2 * p + 0 + z + z)) + (2 * p) * E + 0 * T + z * zn + z * zs)
      by (unfold p, z; field; split; lra).
    apply convex5; try assumption; try lra. fold p z in Hcfl. lra.
  Qed.

  Lemma off_bound r T E W zn zs : dr <= 2 * r ->
    lo <= T <= hi -> lo <= E <= hi -> lo <= W <= hi -> lo <= zn <= hi -> lo <= zs <= hi ->
    lo <= T + a * (1 / r * (E - W) / (2 * dr) + (E - 2 * T + W) / (dr * dr) + (zn - 2 * T + zs) / (dz * dz)) <= hi.
  Proof.
    intros Hrr HT HE HW Hn Hs.
    assert (Hr0 : 0 < r) by lra.
    set (p := a / (dr * dr)). set (z := a / (dz * dz)). set (s := a / (2 * r * dr)).
    assert (Hp : 0 <= p) by (apply Rmult_le_pos; [exact Ha|left; apply Rinv_0_lt_compat; nra]).
    assert (Hz : 0 <= z) by (apply Rmult_le_pos; [exact Ha|left; apply Rinv_0_lt_compat; nra]).
    assert (Hs0 : 0 <= s) by (apply Rmult_le_pos; [exact Ha|left; apply Rinv_0_lt_compat; nra]).
    assert (Hsp : s <= p).
    { unfold s, p, Rdiv. apply Rmult_le_compat_l; [exact Ha|]. apply Rinv_le_contravar; nra. }
    replace (T + a * (1 / r * (E - W) / (2 * dr) + (E - 2 * T + W) / (dr * dr) + (zn - 2 * T + zs) / (dz * dz)))
      with (T * (1 - ((p + s) + (p - s) + z + z)) + (p + s) * E + (p - s) * W + z * zn + z * zs)
      by (unfold p, z, s; field; repeat split; lra).
    apply convex5; try assumption; try lra. fold p z in Hcfl. lra.
  Qed.

  (* one cell: ghost vectors within the bounds, current grid within the bounds *)
  Lemma cool_cell_bounded Tb Tt Te g i j :
    shape g Nz Nr -> gbounded Nz Nr lo hi g -> (i < Nz)%nat -> (j < Nr)%nat ->
    (forall j', (j' < Nr)%nat -> lo <= nth j' Tb 0 <= hi) ->
    (forall j', (j' < Nr)%nat -> lo <= nth j' Tt 0 <= hi) ->
    (forall i', (i' < Nz)%nat -> lo <= nth i' Te 0 <= hi) ->
    lo <= cool_cell Rops P Nz Nr rr Tb Tt Te g i j <= hi.
  Proof.
    intros Hs Hb Hi Hj Hb1 Hb2 Hb3. unfold cool_cell. cbv zeta.
    cbn [nadd nsub nmul ndiv nofZ Rops]. fold a dr dz.
    assert (Z : exists zn zs, lo <= zn <= hi /\ lo <= zs <= hi /\
       (if Nat.eqb i 0 then (gget Rops g 1 j - 2 * gget Rops g i j + nth j Tb 0) / (dz * dz)
        else if Nat.eqb i (Nz - 1) then (nth j Tt 0 - 2 * gget Rops g i j + gget Rops g (Nz - 2) j) / (dz * dz)
        else (gget Rops g (S i) j - 2 * gget Rops g i j + gget Rops g (i - 1) j) / (dz * dz))
       = (zn - 2 * gget Rops g i j + zs) / (dz * dz)).
    { destruct (Nat.eqb i 0) eqn:E0; [|destruct (Nat.eqb i (Nz - 1)) eqn:EN];
        rewrite ?Nat.eqb_eq, ?Nat.eqb_neq in *.
      - exists (gget Rops g 1 j), (nth j Tb 0). repeat split; try apply Hb; try apply Hb1; lia.
      - exists (nth j Tt 0), (gget Rops g (Nz - 2) j). repeat split; try apply Hb; try apply Hb2; lia.
      - exists (gget Rops g (S i) j), (gget Rops g (i - 1) j). repeat split; try apply Hb; lia. }
    destruct Z as (zn & zs & Hzn & Hzs & ->).
    destruct (Nat.eqb j 0) eqn:Ej0; [|destruct (Nat.eqb j (Nr - 1)) eqn:EjN];
      rewrite ?Nat.eqb_eq, ?Nat.eqb_neq in *.
    - apply axis_bound; try assumption; apply Hb; lia.
    - apply off_bound; try assumption; try (apply Hb; lia); try (apply Hb3; lia). apply Hr; lia.
    - apply off_bound; try assumption; try (apply Hb; lia). apply Hr; lia.
  Qed.

  Hypothesis HK : 0 <= s_K P * dz / s_lam0 P <= 1.
  Hypothesis HKw : 0 <= s_Kw P * dr / s_lam0 P <= 1.

  Lemma ghost_between x Tsh beta : 0 <= beta <= 1 -> lo <= x <= hi -> lo <= Tsh <= hi -> lo <= x + beta * (Tsh - x) <= hi.
  Proof. intros [B0 B1] [X0 X1] [S0 S1]. split; nra. Qed.

  (* the whole cooling step, as the implementation performs it (in place), without evaporative flux *)
  Theorem cool_step2_max_principle g Tsh qe :
    shape g Nz Nr -> gbounded Nz Nr lo hi g -> lo <= Tsh <= hi ->
    length qe = Nr -> (forall j, (j < Nr)%nat -> nth j qe 0 = 0) ->
    gbounded Nz Nr lo hi (cool_step2 Rops P Nz Nr rr g Tsh qe).
  Proof.
    intros Hs Hb HT Hql Hq. unfold cool_step2, cool_step2_gen. cbv zeta.
    destruct Hs as [HL HR].
    apply sweep_true_bounded; [split; assumption|assumption|].
    intros g' i j Hs' Hb' Hi Hj. apply cool_cell_bounded; try assumption.
    - intros j' Hj'. rewrite (nth_map_lt' _ _ _ 0) by (rewrite HR; lia).
      change (nth j' (nth 0 g []) 0) with (gget Rops g 0 j'). cbn [nadd nsub nmul ndiv Rops].
      replace (gget Rops g 0 j' + s_K P * (Tsh - gget Rops g 0 j') * s_dz P / s_lam0 P)
        with (gget Rops g 0 j' + (s_K P * dz / s_lam0 P) * (Tsh - gget Rops g 0 j')) by (unfold dz, Rdiv; ring).
      apply ghost_between; [exact HK|apply Hb; lia|exact HT].
    - intros j' Hj'. rewrite (nth_map_lt' _ _ _ (0, 0)) by (rewrite combine_length, HR, Hql; lia).
      rewrite combine_nth by (rewrite HR, Hql; lia). cbn [fst snd nadd nmul ndiv Rops]. rewrite Hq by assumption.
      change (nth j' (nth (Nz - 1) g []) 0) with (gget Rops g (Nz - 1) j').
      replace (gget Rops g (Nz - 1) j' + 0 * s_dz P / s_lam0 P) with (gget Rops g (Nz - 1) j') by (unfold Rdiv; ring).
      apply Hb; lia.
    - intros i' Hi'. rewrite (nth_map_lt' _ _ _ []) by lia. cbv zeta.
      change (nth (Nr - 1) (nth i' g []) (nofZ Rops 0)) with (gget Rops g i' (Nr - 1)). cbn [nadd nsub nmul ndiv Rops].
      replace (gget Rops g i' (Nr - 1) + s_Kw P * (Tsh - gget Rops g i' (Nr - 1)) * s_dr P / s_lam0 P)
        with (gget Rops g i' (Nr - 1) + (s_Kw P * dr / s_lam0 P) * (Tsh - gget Rops g i' (Nr - 1))) by (unfold dr, Rdiv; ring).
      apply ghost_between; [exact HKw|apply Hb; lia|exact HT].
  Qed.
End Max2D.

Lemma max2d_hypotheses_nonvacuous :
  let P := MkP2 1 1 (1/10) (1/2) (1/2) 1 1  1 1 1 0 1 1  1 1 1 1 1 1 1  0 0 in
  0 <= s_alpha0 P * s_dt P /\ 4 * (s_alpha0 P * s_dt P / (s_dr P * s_dr P)) + 2 * (s_alpha0 P * s_dt P / (s_dz P * s_dz P)) <= 1
  /\ (forall j, (1 <= j < 3)%nat -> s_dr P <= 2 * rj Rops [0; 1; 2] j)
  /\ 0 <= s_K P * s_dz P / s_lam0 P <= 1 /\ 0 <= s_Kw P * s_dr P / s_lam0 P <= 1
  /\ shape [[0; 1; 0]; [1; 1; 1]; [0; 1; 0]] 3 3 /\ gbounded 3 3 0 1 [[0; 1; 0]; [1; 1; 1]; [0; 1; 0]].
Proof.
  cbv zeta. cbn [s_alpha0 s_dt s_dr s_dz s_K s_Kw s_lam0].
  split; [lra|]. split; [lra|]. split.
  { intros j Hj. destruct j as [|[|[|j]]]; cbn [rj nth nofZ Rops]; try lra; exfalso; destruct Hj as [H1 H2]; revert H1 H2; clear; intros;
      repeat match goal with H : (_ <= _)%nat |- _ => apply Nat.leb_le in H; try discriminate H end;
      repeat match goal with H : (_ < _)%nat |- _ => apply Nat.ltb_lt in H; try discriminate H end. }
  split; [lra|]. split; [lra|]. split.
  { split; [reflexivity|]. intros i Hi. destruct i as [|[|[|i]]]; try reflexivity. exfalso. apply Nat.ltb_lt in Hi. discriminate Hi. }
  intros i j Hi Hj. destruct i as [|[|[|i]]]; [| | |exfalso; apply Nat.ltb_lt in Hi; discriminate Hi];
    (destruct j as [|[|[|j]]]; [| | |exfalso; apply Nat.ltb_lt in Hj; discriminate Hj]); cbn [gget nth nofZ Rops]; lra.
Qed.
