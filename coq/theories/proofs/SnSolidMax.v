(* C07, 1D solidification stage: the WHOLE step (bottom ghost point, interior, top) keeps every temperature between
   the bounds of the previous field and the shelf temperature, under conditions stated uniformly over the admissible
   ranges of temperature and ice fraction: diagonal weight non-negative, conductivity not varying faster than 4x,
   Biot number of the shelf contact in [0,1], no evaporative flux.  Composed with the cooling-step maximum principle
   it gives the bounds for any number of steps of either stage (run_bounds). *)
From Coq Require Import Reals ZArith List Bool Lra Lia.
From Snow Require Import Num NumR Sn1D SnProofs.
Import ListNotations.
Local Open Scope R_scope.

Section SolidStep.
  Variable P : @p1d R.
  Variables lo hi wlo whi : R.
  Definition okT (x : R) : Prop := lo <= x <= hi.
  Definition okW (w : R) : Prop := wlo <= w <= whi.
  Hypothesis Hdz : q_dz P <> 0.
  Hypothesis Hrho : q_rho P <> 0.
  Hypothesis HF : forall b w, okT b -> okW w ->
    0 <= q_dt P / (cp_of Rops P w * q_rho P) / (q_dz P * q_dz P) * (1 / BETA_of Rops P b w)
    /\ 2 * (q_dt P / (cp_of Rops P w * q_rho P) / (q_dz P * q_dz P) * (1 / BETA_of Rops P b w)) * lam_of Rops P w <= 1
    /\ cp_of Rops P w <> 0 /\ BETA_of Rops P b w <> 0.
  Hypothesis Hlam : forall w w' w'', okW w -> okW w' -> okW w'' ->
    Rabs (lam_of Rops P w' - lam_of Rops P w'') <= 4 * lam_of Rops P w.
  Hypothesis HBi : forall w, okW w -> lam_of Rops P w <> 0 /\ 0 <= q_K P * q_dz P / lam_of Rops P w <= 1.

  Lemma point_ok a b d wa w wd : okT a -> okT b -> okT d -> okW wa -> okW w -> okW wd ->
    okT (solid_point Rops P a b d (lam_of Rops P wa) (lam_of Rops P w) (lam_of Rops P wd) w).
  Proof.
    intros Ha Hb Hd Hwa Hw Hwd. destruct (HF b w Hb Hw) as (F0 & F1 & Hcp & HB).
    apply solid_point_convex; try assumption. apply Hlam; assumption.
  Qed.

  Lemma interior2_cons pT pL x y T' w w' W' :
    interior2 Rops P pT pL (x :: y :: T') (w :: w' :: W')
    = solid_point Rops P pT x y pL (lam_of Rops P w) (lam_of Rops P w') w :: interior2 Rops P x (lam_of Rops P w) (y :: T') (w' :: W').
  Proof. reflexivity. Qed.

  Lemma interior2_ok : forall T W pT pw, okT pT -> okW pw -> List.Forall okT T -> List.Forall okW W ->
    List.Forall okT (interior2 Rops P pT (lam_of Rops P pw) T W).
  Proof.
    induction T as [|x T IH]; intros W pT pw HpT Hpw HT HW; [constructor|].
    destruct T as [|y T']; [destruct W; constructor|].
    destruct W as [|w W]; [constructor|]. destruct W as [|w' W']; [constructor|].
    rewrite interior2_cons.
    inversion HT as [|? ? Hx HT1]; subst. inversion HW as [|? ? Hw HW1]; subst.
    assert (Hy : okT y) by (inversion HT1; assumption). assert (Hw' : okW w') by (inversion HW1; assumption).
    constructor.
    - apply point_ok; assumption.
    - apply IH; assumption.
  Qed.

  Lemma lbo_ok (Q : R -> Prop) : forall l p, Q p -> List.Forall Q l -> Q (lbo p l).
  Proof.
    induction l as [|x r IH]; intros p Hp Hl; [exact Hp|]. inversion Hl; subst.
    cbn [lbo]. destruct r as [|y r']; [exact Hp|]. apply IH; assumption.
  Qed.
  Lemma last2_ok (Q : R -> Prop) l : l <> [] -> List.Forall Q l -> Q (last2 Rops l).
  Proof. destruct l as [|x r]; intros Hne H; [contradiction|]. inversion H; subst. cbn [last2]. apply lbo_ok; assumption. Qed.

  Lemma ghost_ok x Tsh beta : 0 <= beta <= 1 -> okT x -> okT Tsh -> okT (x + beta * (Tsh - x)).
  Proof. unfold okT. intros [B0 B1] [X0 X1] [S0 S1]. split; nra. Qed.

  (* one whole solidification step, no evaporative flux *)
  Theorem solid_step_max_principle T W Tsh :
    (2 <= length T)%nat -> length W = length T -> List.Forall okT T -> List.Forall okW W -> okT Tsh ->
    List.Forall okT (fst (solid_step Rops P T W Tsh 0)).
  Proof.
    intros HL HLW HT HW Hs.
    destruct T as [|T0 [|T1 rT]]; [cbn in HL; inversion HL|cbn in HL; apply le_S_n in HL; inversion HL|].
    destruct W as [|w0 [|w1 rW]]; [discriminate|discriminate|].
    assert (H0 : okT T0) by (inversion HT; assumption). assert (H1 : okT T1) by (inversion HT as [|? ? ? HT1]; inversion HT1; assumption).
    assert (Hw0 : okW w0) by (inversion HW; assumption). assert (Hw1 : okW w1) by (inversion HW as [|? ? ? HW1]; inversion HW1; assumption).
    assert (HT1 : List.Forall okT (T1 :: rT)) by (inversion HT; assumption).
    assert (HW1 : List.Forall okW (w1 :: rW)) by (inversion HW; assumption).
    cbn [solid_step fst]. cbv zeta.
    set (T := T0 :: T1 :: rT) in *. set (W := w0 :: w1 :: rW) in *.
    assert (Hn : okT (lastd Rops T)) by (unfold lastd; apply Forall_last; [discriminate|exact HT]).
    assert (Hwn : okW (lastd Rops W)) by (unfold lastd; apply Forall_last; [discriminate|exact HW]).
    assert (Hn2 : okT (last2 Rops T)) by (apply last2_ok; [discriminate|exact HT]).
    assert (Hwn2 : okW (last2 Rops W)) by (apply last2_ok; [discriminate|exact HW]).
    constructor; [|apply Forall_app; split; [|constructor; [|constructor]]].
    - (* bottom = solid_point Tb T0 T1 l0 l0 l1 w0 *)
      destruct (HBi w0 Hw0) as [Hl0 HB0].
      assert (Hb : okT (T0 + q_K P * q_dz P / lam_of Rops P w0 * (Tsh - T0))) by (apply ghost_ok; assumption).
      replace (nadd Rops T0 (ndiv Rops (nmul Rops (nmul Rops (q_K P) (nsub Rops Tsh T0)) (q_dz P)) (lam_of Rops P w0)))
        with (T0 + q_K P * q_dz P / lam_of Rops P w0 * (Tsh - T0)) by (cbn [nadd nsub nmul ndiv Rops]; unfold Rdiv; ring).
      exact (point_ok _ T0 T1 w0 w0 w1 Hb H0 H1 Hw0 Hw0 Hw1).
    - exact (interior2_ok (T1 :: rT) (w1 :: rW) T0 w0 H0 Hw0 HT1 HW1).
    - (* top = solid_point (last2 T) Tn Ttop (lam (last2 W)) ln ln wn, with Ttop = Tn (no evaporative flux) *)
      destruct (HBi _ Hwn) as [Hln _].
      replace (nadd Rops (lastd Rops T) (ndiv Rops (nmul Rops 0 (q_dz P)) (lam_of Rops P (lastd Rops W)))) with (lastd Rops T)
        by (cbn [nadd nmul ndiv nofZ Rops]; unfold Rdiv; ring).
      exact (point_ok (last2 Rops T) (lastd Rops T) (lastd Rops T) (last2 Rops W) (lastd Rops W) (lastd Rops W) Hn2 Hn Hn Hwn2 Hwn Hwn).
  Qed.
End SolidStep.

(* ---- any number of steps of the three stages ------------------------------------------------------------------ *)
Section Lengths.
  Variable P : @p1d R.
  Lemma length_interior (f : R -> R -> R -> R) : forall l p, length (interior f p l) = (length l - 1)%nat.
  Proof.
    induction l as [|x r IH]; intros p; [reflexivity|]. destruct r as [|y r']; [reflexivity|].
    change (interior f p (x :: y :: r')) with (f p x y :: interior f x (y :: r')).
    cbn [length]. rewrite IH. cbn [length]. lia.
  Qed.
  Lemma length_cool_step T Tsh qe : length (cool_step Rops P T Tsh qe) = length T.
  Proof.
    destruct T as [|T0 [|T1 r]]; [reflexivity|reflexivity|]. cbn [cool_step]. cbv zeta. cbn [length].
    rewrite app_length, length_interior. cbn [length]. lia.
  Qed.
  Lemma length_interior2 : forall T W pT pL, length W = length T -> length (interior2 Rops P pT pL T W) = (length T - 1)%nat.
  Proof.
    induction T as [|x T IH]; intros W pT pL HL; [reflexivity|].
    destruct T as [|y T']; [destruct W; reflexivity|].
    destruct W as [|w [|w' W']]; [discriminate|discriminate|].
    change (interior2 Rops P pT pL (x :: y :: T') (w :: w' :: W'))
      with (solid_point Rops P pT x y pL (lam_of Rops P w) (lam_of Rops P w') w :: interior2 Rops P x (lam_of Rops P w) (y :: T') (w' :: W')).
    cbn [length]. rewrite IH by (cbn [length] in *; lia). cbn [length]. lia.
  Qed.
  Lemma length_solid_step T W Tsh qe : length W = length T ->
    length (fst (solid_step Rops P T W Tsh qe)) = length T /\ length (snd (solid_step Rops P T W Tsh qe)) = length T.
  Proof.
    intros HL. destruct T as [|T0 [|T1 rT]]; [split; [reflexivity|exact HL]|split; [reflexivity|exact HL]|].
    destruct W as [|w0 [|w1 rW]]; [discriminate|discriminate|].
    cbn [solid_step fst snd]. cbv zeta. rewrite map_length. cbn [length].
    rewrite app_length, length_interior2 by (cbn [length] in *; lia). cbn [length]. split; lia.
  Qed.
End Lengths.

Section Run.
  Variable P : @p1d R.
  Variables lo hi : R.
  Notation mw := (q_mw P). Notation ms := (q_ms P). Notation m := (q_mass P). Notation Tm := (q_Tm P).
  Notation kf := (q_kf P). Notation Ms := (q_Ms P). Notation Teql := (q_Teql P). Notation Dh := (q_Dh P). Notation cp := (q_cp0 P).
  Let whi := mw / m.
  Notation oT := (okT lo hi). Notation oW := (okW 0 whi).
  (* cooling stage *)
  Hypothesis Hdz : 0 < q_dz P.
  Hypothesis Hlam0 : 0 < q_lam0 P.
  Hypothesis HK : 0 <= q_K P.
  Hypothesis Hc0 : 0 <= q_alpha0 P * q_dt P / (q_dz P * q_dz P).
  Hypothesis Hc1 : 2 * (q_alpha0 P * q_dt P / (q_dz P * q_dz P)) <= 1.
  Hypothesis Hc2 : q_alpha0 P * q_dt P / (q_dz P * q_dz P) * (1 + q_K P * q_dz P / q_lam0 P) <= 1.
  (* solution: freezing-point depression; the equilibrium temperature is not above the upper bound *)
  Hypothesis Hm : m = mw + ms.
  Hypothesis Hmw : 0 < mw.
  Hypothesis Hms : 0 < ms.
  Hypothesis Hsol : 0 < ms * (kf / Ms).
  Hypothesis HMs : Ms <> 0.
  Hypothesis Hcp : 0 < cp.
  Hypothesis HDh : 0 < Dh.
  Hypothesis HTe : Teql = Tm - ms * (kf / Ms) / mw.
  Hypothesis Hhi : Teql <= hi.
  (* solidification stage: uniform conditions over the admissible ranges *)
  Hypothesis Hrho : q_rho P <> 0.
  Hypothesis HF : forall b w, oT b -> oW w ->
    0 <= q_dt P / (cp_of Rops P w * q_rho P) / (q_dz P * q_dz P) * (1 / BETA_of Rops P b w)
    /\ 2 * (q_dt P / (cp_of Rops P w * q_rho P) / (q_dz P * q_dz P) * (1 / BETA_of Rops P b w)) * lam_of Rops P w <= 1
    /\ cp_of Rops P w <> 0 /\ BETA_of Rops P b w <> 0.
  Hypothesis Hlam : forall w w' w'', oW w -> oW w' -> oW w'' -> Rabs (lam_of Rops P w' - lam_of Rops P w'') <= 4 * lam_of Rops P w.
  Hypothesis HBi : forall w, oW w -> lam_of Rops P w <> 0 /\ 0 <= q_K P * q_dz P / lam_of Rops P w <= 1.

  Let Hmpos : 0 < m.
  Proof. rewrite Hm. lra. Qed.

  Lemma ice_of_ok T : oW (ice_of Rops P T).
  Proof.
    destruct (ice_relation P T Hmpos Hsol Hmw HTe) as [A B]. unfold okW, whi.
    assert (0 <= mw / m) by (apply Rlt_le, Rdiv_lt_0_compat; assumption).
    destruct (Rlt_le_dec T Teql) as [Hl|Hg].
    - destruct (A Hl) as [_ [L U]]. lra.
    - rewrite (B Hg). lra.
  Qed.

  Lemma nuc_point_ok x : oT x -> oT (fst (nuc_point Rops P x)) /\ oW (snd (nuc_point Rops P x)).
  Proof.
    intros Hx. unfold nuc_point. cbn [nltb Rops]. destruct (Rlt_le_dec x Teql) as [Hl|Hg].
    - assert (Rltb x Teql = true) as -> by (apply Rltb_true; exact Hl). cbn [fst snd].
      assert (Hcpm : cp * m <> 0) by (apply Rgt_not_eq; apply Rmult_lt_0_compat; assumption).
      assert (Hdep : 0 < ms * (kf / Ms) / mw) by (apply Rdiv_lt_0_compat; assumption).
      assert (Hbetw : x < nuc_Teq Rops P x < Teql).
      { apply (nucleation_root_between P Hcpm HMs x Teql).
        - apply Rdiv_lt_0_compat; [apply Rmult_lt_0_compat; assumption|apply Rmult_lt_0_compat; assumption].
        - apply Rdiv_lt_0_compat; [apply Rmult_lt_0_compat; assumption|apply Rmult_lt_0_compat; assumption].
        - exact Hl.
        - lra.
        - rewrite HTe. field. repeat split; try assumption; apply Rgt_not_eq; assumption. }
      split; [unfold okT in *; lra|].
      destruct (ice_relation P (nuc_Teq Rops P x) Hmpos Hsol Hmw HTe) as [A _].
      destruct (A (proj2 Hbetw)) as [E [L U]]. rewrite E in L, U.
      cbn [nadd nsub nmul ndiv Rops]. rewrite <- Hm. unfold okW, whi. lra.
    - assert (Rltb x Teql = false) as -> by (apply Rltb_false; exact Hg). cbn [fst snd nofZ Rops].
      split; [exact Hx|]. unfold okW, whi. assert (0 <= mw / m) by (apply Rlt_le, Rdiv_lt_0_compat; assumption). lra.
  Qed.

  Inductive op := Cool (Tsh : R) | Nucleate | Solidify (Tsh : R).
  Definition shelf_ok (o : op) : Prop := match o with Cool Tsh | Solidify Tsh => oT Tsh | Nucleate => True end.
  Definition apply1 (s : list R * list R) (o : op) : list R * list R :=
    match o with
    | Cool Tsh => (cool_step Rops P (fst s) Tsh 0, snd s)
    | Nucleate => nuc_step Rops P (fst s)
    | Solidify Tsh => solid_step Rops P (fst s) (snd s) Tsh 0
    end.
  Definition Inv (s : list R * list R) : Prop :=
    List.Forall oT (fst s) /\ List.Forall oW (snd s) /\ length (snd s) = length (fst s) /\ (2 <= length (fst s))%nat.

  Lemma apply1_inv s o : Inv s -> shelf_ok o -> Inv (apply1 s o).
  Proof.
    intros (HT & HW & HL & H2) Ho. destruct s as [T W]. cbn [fst snd] in *. destruct o as [Tsh| |Tsh]; unfold Inv; cbn [apply1 fst snd shelf_ok] in *.
    - split; [|split; [exact HW|split; [rewrite length_cool_step; exact HL|rewrite length_cool_step; exact H2]]].
      destruct T as [|T0 [|T1 r]]; [cbn in H2; inversion H2|cbn in H2; apply le_S_n in H2; inversion H2|].
      apply (cool_step_max_principle P T0 T1 r Tsh lo hi); assumption.
    - unfold nuc_step. cbn [fst snd]. rewrite !map_length. split; [|split; [|split; [reflexivity|exact H2]]].
      + apply Forall_forall. intros y Hy. apply in_map_iff in Hy. destruct Hy as (x & <- & Hx).
        apply nuc_point_ok. rewrite Forall_forall in HT. now apply HT.
      + apply Forall_forall. intros y Hy. apply in_map_iff in Hy. destruct Hy as (x & <- & Hx).
        apply nuc_point_ok. rewrite Forall_forall in HT. now apply HT.
    - destruct (length_solid_step P T W Tsh 0 HL) as [L1 L2].
      split; [|split; [|split]].
      + apply (solid_step_max_principle P lo hi 0 whi); try assumption. apply Rgt_not_eq; exact Hdz.
      + destruct T as [|T0 [|T1 rT]]; [cbn in H2; inversion H2|cbn in H2; apply le_S_n in H2; inversion H2|].
        destruct W as [|w0 [|w1 rW]]; [discriminate|discriminate|].
        cbn [solid_step snd]. cbv zeta. apply Forall_forall. intros y Hy. apply in_map_iff in Hy. destruct Hy as (x & <- & _). apply ice_of_ok.
      + rewrite L1, L2. reflexivity.
      + rewrite L1. exact H2.
  Qed.

  (* every state reached by any sequence of cooling steps, a nucleation and solidification steps (in any order and number)
     keeps every temperature in [lo, hi] and every ice fraction in [0, water fraction] *)
  Theorem run_bounds ops : forall s, Inv s -> List.Forall shelf_ok ops -> Inv (fold_left apply1 ops s).
  Proof.
    induction ops as [|o ops IH]; intros s Hs Ho; [exact Hs|]. inversion Ho; subst.
    cbn [fold_left]. apply IH; [apply apply1_inv; assumption|assumption].
  Qed.
End Run.

(* ---- the uniform conditions of [solid_step_max_principle] / [run_bounds] follow from a handful of inequalities between
   the constants of a run (evaluated by the harness on every 1D run) ------------------------------------------------- *)
Section Constants.
  Variable P : @p1d R.
  Variables lo hi whi cmin lmin lmax : R.
  Hypothesis Hwhi : 0 < whi.
  Hypothesis Hdt : 0 < q_dt P.
  Hypothesis Hrho : 0 < q_rho P.
  Hypothesis Hdz : 0 < q_dz P.
  Hypothesis HDh : 0 <= q_Dh P.
  Hypothesis Hkf : 0 <= q_kf P.
  Hypothesis Hms : 0 <= q_ms P.
  Hypothesis HMs : 0 < q_Ms P.
  Hypothesis HV : 0 < q_V P.
  Hypothesis HTe : q_Teql P < q_Tm P.
  Hypothesis Hcmin : 0 < cmin.
  Hypothesis Hcp0 : cmin <= cp_of Rops P 0.
  Hypothesis Hcp1 : cmin <= cp_of Rops P whi.
  Hypothesis Hlmin : 0 < lmin.
  Hypothesis Hl0 : lmin <= lam_of Rops P 0 <= lmax.
  Hypothesis Hl1 : lmin <= lam_of Rops P whi <= lmax.
  Hypothesis Hcfl : 2 * q_dt P * lmax <= cmin * q_rho P * (q_dz P * q_dz P).
  Hypothesis Hvar : lmax - lmin <= 4 * lmin.
  Hypothesis HK : 0 <= q_K P.
  Hypothesis HBiot : q_K P * q_dz P <= lmin.

  Lemma between_linear a b c w : 0 <= w <= whi -> c <= a -> c <= a + b * whi -> c <= a + b * w.
  Proof.
    intros [W0 W1] H0 H1.
    assert (0 <= (whi - w) * (a - c)) by (apply Rmult_le_pos; lra).
    assert (0 <= w * (a + b * whi - c)) by (apply Rmult_le_pos; lra).
    assert (E : whi * (a + b * w - c) = (whi - w) * (a - c) + w * (a + b * whi - c)) by ring.
    assert (0 <= whi * (a + b * w - c)) by lra.
    assert (0 <= a + b * w - c) by (apply Rmult_le_reg_l with whi; [exact Hwhi|lra]). lra.
  Qed.
  Lemma below_linear a b c w : 0 <= w <= whi -> a <= c -> a + b * whi <= c -> a + b * w <= c.
  Proof. intros Hw H0 H1. assert (- c <= - a + (- b) * w) by (apply between_linear; lra). lra. Qed.

  Lemma cp_lower w : 0 <= w <= whi -> cmin <= cp_of Rops P w.
  Proof.
    intros Hw. unfold cp_of in *. cbn [nadd nsub nmul nofZ Rops] in *.
    replace (q_cps P * q_sf P + q_cpi P * w + q_cpw P * (1 - q_sf P - w))
      with ((q_cps P * q_sf P + q_cpw P * (1 - q_sf P)) + (q_cpi P - q_cpw P) * w) by ring.
    apply between_linear; [exact Hw|lra|lra].
  Qed.
  Lemma lam_range w : 0 <= w <= whi -> lmin <= lam_of Rops P w <= lmax.
  Proof.
    intros Hw. unfold lam_of in *. cbn [nadd nsub nmul nofZ Rops] in *.
    replace (q_lami P * w + q_lamw P * (1 - w)) with (q_lamw P + (q_lami P - q_lamw P) * w) by ring.
    split; [apply between_linear|apply below_linear]; try exact Hw; lra.
  Qed.
  Lemma BETA_ge_1 b w : 0 <= w <= whi -> 1 <= BETA_of Rops P b w.
  Proof.
    intros Hw. pose proof (cp_lower w Hw) as Hc. unfold BETA_of. cbn [nltb nadd nsub nmul ndiv nofZ Rops].
    unfold Rltb. destruct (Rlt_dec b (q_Teql P)) as [Hl|_]; [|lra].
    assert (Hsq : 0 < (b - q_Tm P) * (b - q_Tm P)) by nra.
    assert (Hden : 0 < q_Ms P * q_rho P * q_V P * cp_of Rops P w) by (repeat apply Rmult_lt_0_compat; lra).
    assert (Hnum : 0 <= q_Dh P * q_kf P * q_ms P) by (repeat apply Rmult_le_pos; assumption).
    assert (0 <= q_Dh P * q_kf P * q_ms P / (q_Ms P * q_rho P * q_V P * cp_of Rops P w) / ((b - q_Tm P) * (b - q_Tm P))).
    { apply Rmult_le_pos; [apply Rmult_le_pos; [exact Hnum|left; apply Rinv_0_lt_compat; exact Hden]|left; apply Rinv_0_lt_compat; exact Hsq]. }
    lra.
  Qed.

  Theorem uniform_conditions :
    (forall b w, okT lo hi b -> okW 0 whi w ->
       0 <= q_dt P / (cp_of Rops P w * q_rho P) / (q_dz P * q_dz P) * (1 / BETA_of Rops P b w)
       /\ 2 * (q_dt P / (cp_of Rops P w * q_rho P) / (q_dz P * q_dz P) * (1 / BETA_of Rops P b w)) * lam_of Rops P w <= 1
       /\ cp_of Rops P w <> 0 /\ BETA_of Rops P b w <> 0)
    /\ (forall w w' w'', okW 0 whi w -> okW 0 whi w' -> okW 0 whi w'' -> Rabs (lam_of Rops P w' - lam_of Rops P w'') <= 4 * lam_of Rops P w)
    /\ (forall w, okW 0 whi w -> lam_of Rops P w <> 0 /\ 0 <= q_K P * q_dz P / lam_of Rops P w <= 1).
  Proof.
    split; [|split].
    - intros b w _ Hw. pose proof (cp_lower w Hw) as Hc. pose proof (BETA_ge_1 b w Hw) as HB. pose proof (lam_range w Hw) as [Hl Hu].
      set (cpw := cp_of Rops P w) in *. set (B := BETA_of Rops P b w) in *. set (l := lam_of Rops P w) in *.
      assert (Hcp : 0 < cpw) by lra. assert (HBp : 0 < B) by lra.
      assert (Hd : 0 < cpw * q_rho P * (q_dz P * q_dz P) * B) by (repeat apply Rmult_lt_0_compat; assumption).
      assert (E : q_dt P / (cpw * q_rho P) / (q_dz P * q_dz P) * (1 / B) = q_dt P / (cpw * q_rho P * (q_dz P * q_dz P) * B)) by (field; repeat split; lra).
      rewrite E. assert (F0 : 0 < q_dt P / (cpw * q_rho P * (q_dz P * q_dz P) * B)) by (apply Rdiv_lt_0_compat; assumption).
      repeat split; try lra.
      (* 2 F l <= 1  <=>  2 dt l <= cp rho dz^2 B, and cp >= cmin, B >= 1, l <= lmax *)
      apply Rmult_le_reg_r with (cpw * q_rho P * (q_dz P * q_dz P) * B); [exact Hd|].
      replace (2 * (q_dt P / (cpw * q_rho P * (q_dz P * q_dz P) * B)) * l * (cpw * q_rho P * (q_dz P * q_dz P) * B)) with (2 * q_dt P * l) by (field; lra).
      assert (2 * q_dt P * l <= 2 * q_dt P * lmax) by (apply Rmult_le_compat_l; lra).
      assert (Hr : 0 < q_rho P * (q_dz P * q_dz P)) by (repeat apply Rmult_lt_0_compat; assumption).
      assert (cmin * q_rho P * (q_dz P * q_dz P) <= cpw * q_rho P * (q_dz P * q_dz P)) by nra.
      assert (cpw * q_rho P * (q_dz P * q_dz P) <= cpw * q_rho P * (q_dz P * q_dz P) * B).
      { assert (0 < cpw * q_rho P * (q_dz P * q_dz P)) by (repeat apply Rmult_lt_0_compat; assumption). nra. }
      lra.
    - intros w w' w'' Hw Hw' Hw''. pose proof (lam_range w Hw). pose proof (lam_range w' Hw'). pose proof (lam_range w'' Hw'').
      unfold Rabs. destruct (Rcase_abs _); lra.
    - intros w Hw. pose proof (lam_range w Hw) as [Hl Hu]. split; [lra|].
      split.
      + apply Rmult_le_pos; [apply Rmult_le_pos; lra|left; apply Rinv_0_lt_compat; lra].
      + apply Rmult_le_reg_r with (lam_of Rops P w); [lra|]. unfold Rdiv. rewrite Rmult_assoc, Rinv_l by lra. lra.
  Qed.
End Constants.

(* both together: the bounds of a whole 1D run from inequalities between the constants of the run *)
Theorem run_bounds_from_constants (P : @p1d R) (lo hi cmin lmin lmax : R) :
  (* grid, time step, cooling stage *)
  0 < q_dz P -> 0 < q_dt P -> 0 < q_rho P -> 0 < q_lam0 P -> 0 <= q_K P ->
  0 <= q_alpha0 P * q_dt P / (q_dz P * q_dz P) -> 2 * (q_alpha0 P * q_dt P / (q_dz P * q_dz P)) <= 1 ->
  q_alpha0 P * q_dt P / (q_dz P * q_dz P) * (1 + q_K P * q_dz P / q_lam0 P) <= 1 ->
  (* solution *)
  q_mass P = q_mw P + q_ms P -> 0 < q_mw P -> 0 < q_ms P -> 0 < q_kf P -> 0 < q_Ms P -> 0 < q_cp0 P -> 0 < q_Dh P -> 0 < q_V P ->
  q_Teql P = q_Tm P - q_ms P * (q_kf P / q_Ms P) / q_mw P -> q_Teql P <= hi ->
  (* solidification stage: heat capacity and conductivity at the two ends of the ice range, explicit-scheme restriction,
     conductivity variation, Biot number *)
  0 < cmin -> cmin <= cp_of Rops P 0 -> cmin <= cp_of Rops P (q_mw P / q_mass P) ->
  0 < lmin -> lmin <= lam_of Rops P 0 <= lmax -> lmin <= lam_of Rops P (q_mw P / q_mass P) <= lmax ->
  2 * q_dt P * lmax <= cmin * q_rho P * (q_dz P * q_dz P) -> lmax - lmin <= 4 * lmin -> q_K P * q_dz P <= lmin ->
  forall ops s, Inv P lo hi s -> List.Forall (shelf_ok lo hi) ops -> Inv P lo hi (fold_left (apply1 P) ops s).
Proof.
  intros Hdz Hdt Hrho Hl0 HK Hc0 Hc1 Hc2 Hm Hmw Hms Hkf HMs Hcp HDh HV HTe Hhi Hcm Hcp0 Hcp1 Hlm Hla0 Hla1 Hcfl Hvar HBi ops s Hs Ho.
  assert (Hmp : 0 < q_mass P) by (rewrite Hm; lra).
  assert (Hwhi : 0 < q_mw P / q_mass P) by (apply Rdiv_lt_0_compat; assumption).
  assert (Hk : 0 < q_kf P / q_Ms P) by (apply Rdiv_lt_0_compat; assumption).
  assert (Hsol : 0 < q_ms P * (q_kf P / q_Ms P)) by (apply Rmult_lt_0_compat; assumption).
  assert (HTl : q_Teql P < q_Tm P).
  { rewrite HTe. assert (0 < q_ms P * (q_kf P / q_Ms P) / q_mw P) by (apply Rdiv_lt_0_compat; assumption). lra. }
  destruct (uniform_conditions P lo hi (q_mw P / q_mass P) cmin lmin lmax) as (U1 & U2 & U3); try assumption; try lra.
  apply run_bounds; try assumption; try lra.
Qed.

(* ---- homogeneous (0D) model: both stages move the temperature towards the shelf temperature, never beyond it -------- *)
Section ZeroD.
  Variable P : @p1d R.
  Variables area Tsh T w : R.
  Lemma cool0_between : 0 < q_cp0 P * q_mass P -> 0 <= q_dt P * (area * q_K P) <= q_cp0 P * q_mass P ->
    Rmin T Tsh <= cool0 Rops P area Tsh T <= Rmax T Tsh.
  Proof.
    intros Hd [H0 H1]. unfold cool0. cbn [nadd nsub nmul ndiv Rops].
    set (th := q_dt P * (area * q_K P) / (q_cp0 P * q_mass P)).
    assert (Hth : 0 <= th <= 1).
    { unfold th. split; [apply Rmult_le_pos; [exact H0|left; apply Rinv_0_lt_compat; exact Hd]|].
      apply Rmult_le_reg_r with (q_cp0 P * q_mass P); [exact Hd|]. unfold Rdiv. rewrite Rmult_assoc, Rinv_l by lra. lra. }
    replace (T + q_dt P * (area * q_K P * (Tsh - T)) / (q_cp0 P * q_mass P)) with (T + th * (Tsh - T)) by (unfold th, Rdiv; ring).
    unfold Rmin, Rmax. destruct (Rle_dec T Tsh); split; nra.
  Qed.

  Lemma solid0_between :
    let cp := q_cps P * (q_ms P / q_mass P) + q_cpi P * w + q_cpw P * (1 - q_ms P / q_mass P - w) in
    0 < cp * q_rho P * q_V P -> 0 <= q_Dh P * q_kf P * q_ms P / q_Ms P -> T <> q_Tm P ->
    0 <= q_dt P * (area * q_K P) <= cp * q_rho P * q_V P ->
    Rmin T Tsh <= fst (solid0 Rops P area Tsh T w) <= Rmax T Tsh.
  Proof.
    intros cp Hd HL HT [H0 H1]. unfold solid0. cbv zeta. cbn [fst nadd nsub nmul ndiv nofZ Rops]. fold cp.
    set (L := q_Dh P * q_kf P * q_ms P / q_Ms P * (1 / ((q_Tm P - T) * (q_Tm P - T)))).
    assert (Hsq : 0 < (q_Tm P - T) * (q_Tm P - T)) by (assert (q_Tm P - T <> 0) by lra; nra).
    assert (HLp : 0 <= L) by (unfold L; apply Rmult_le_pos; [exact HL|unfold Rdiv; rewrite Rmult_1_l; left; apply Rinv_0_lt_compat; exact Hsq]).
    set (D := cp * q_rho P * q_V P + L). assert (HD : 0 < D) by (unfold D; lra).
    set (th := q_dt P * (area * q_K P) * (1 / D)).
    assert (Hth : 0 <= th <= 1).
    { unfold th. split; [apply Rmult_le_pos; [exact H0|unfold Rdiv; rewrite Rmult_1_l; left; apply Rinv_0_lt_compat; exact HD]|].
      apply Rmult_le_reg_r with D; [exact HD|]. unfold Rdiv. rewrite Rmult_1_l, Rmult_assoc, Rinv_l by lra. unfold D. lra. }
    replace (T + q_dt P * (area * q_K P * (Tsh - T)) * (1 / D)) with (T + th * (Tsh - T)) by (unfold th; ring).
    unfold Rmin, Rmax. destruct (Rle_dec T Tsh); split; nra.
  Qed.
End ZeroD.

(* 0D, any number of solidification steps: temperature stays in [lo, hi] (hi <= T_eq_l < T_m) and the ice fraction in
   [0, water fraction], for shelf temperatures in [lo, hi] and a time step below the explicit limit uniformly in w *)
Section ZeroDRun.
  Variable P : @p1d R.
  Variables area lo hi : R.
  Notation mw := (q_mw P). Notation ms := (q_ms P). Notation m := (q_mass P). Notation Tm := (q_Tm P).
  Notation kf := (q_kf P). Notation Ms := (q_Ms P). Notation Teql := (q_Teql P).
  Hypothesis Hm : 0 < m.
  Hypothesis Hmw : 0 < mw.
  Hypothesis Hsol : 0 < ms * (kf / Ms).
  Hypothesis HTe : Teql = Tm - ms * (kf / Ms) / mw.
  Hypothesis Hhi : hi <= Teql.
  Hypothesis HL : 0 <= q_Dh P * kf * ms / Ms.
  Hypothesis Hstep : forall w, 0 <= w <= mw / m ->
    0 < (q_cps P * (ms / m) + q_cpi P * w + q_cpw P * (1 - ms / m - w)) * q_rho P * q_V P
    /\ 0 <= q_dt P * (area * q_K P) <= (q_cps P * (ms / m) + q_cpi P * w + q_cpw P * (1 - ms / m - w)) * q_rho P * q_V P.

  Definition inv0 (s : R * R) : Prop := lo <= fst s <= hi /\ 0 <= snd s <= mw / m.
  Definition step0 (s : R * R) (Tsh : R) : R * R := solid0 Rops P area Tsh (fst s) (snd s).

  Lemma Teql_lt_Tm : Teql < Tm.
  Proof. rewrite HTe. assert (0 < ms * (kf / Ms) / mw) by (apply Rdiv_lt_0_compat; assumption). lra. Qed.

  Lemma step0_inv s Tsh : inv0 s -> lo <= Tsh <= hi -> inv0 (step0 s Tsh).
  Proof.
    intros [HT Hw] Hs. destruct s as [T w]. cbn [fst snd] in *. unfold step0, inv0. cbn [fst snd].
    pose proof Teql_lt_Tm as HTT.
    destruct (Hstep w Hw) as [Hd Hb].
    pose proof (solid0_between P area Tsh T w Hd HL ltac:(lra) Hb) as B. cbv zeta in B.
    assert (HT' : lo <= fst (solid0 Rops P area Tsh T w) <= hi).
    { revert B. unfold Rmin, Rmax. destruct (Rle_dec T Tsh); intros; lra. }
    split; [exact HT'|].
    set (T' := fst (solid0 Rops P area Tsh T w)) in *.
    assert (E : snd (solid0 Rops P area Tsh T w) = (mw - kf * ms / Ms / (Tm - T')) / m) by reflexivity.
    rewrite E.
    destruct (ice_relation P T' Hm Hsol Hmw HTe) as [A Bz].
    assert (Hk : kf * ms / Ms = ms * (kf / Ms)) by (unfold Rdiv; ring). rewrite Hk.
    destruct (Rlt_le_dec T' Teql) as [Hl|Hg].
    - destruct (A Hl) as [E1 [L U]]. rewrite E1 in L, U. lra.
    - assert (T' = Teql) by lra. rewrite H, HTe.
      set (D := ms * (kf / Ms)) in *.
      replace (Tm - (Tm - D / mw)) with (D / mw) by ring.
      replace (D / (D / mw)) with mw by (field; split; lra).
      replace ((mw - mw) / m) with 0 by (unfold Rdiv; ring).
      split; [lra|]. apply Rlt_le, Rdiv_lt_0_compat; assumption.
  Qed.

  Theorem zeroD_solid_run_bounds shelf : forall s, inv0 s -> List.Forall (fun Tsh => lo <= Tsh <= hi) shelf ->
    inv0 (fold_left step0 shelf s).
  Proof.
    induction shelf as [|x r IH]; intros s Hs Hf; [exact Hs|]. inversion Hf; subst. cbn [fold_left].
    apply IH; [apply step0_inv; assumption|assumption].
  Qed.
End ZeroDRun.

(* ---- C02: the solidification update is NOT conservative.  With insulated boundaries (K = 0, no evaporation) and no latent
   heat at all (Dh = 0, unit heat capacity), a field with a conductivity jump changes its total heat content in one step.
   (The cooling step conserves exactly: SnProofs.cool_step_energy_exact.) ------------------------------------------------ *)
Definition Pnc : @p1d R := MkP1 1 1 0  1 1  1 1 1 0  2 1  0 1 1 1 1  1 1 1  100 50 1.
Theorem solid_step_not_conservative :
  let T := [0; 1; 3] in let W := [0; 1; 0] in
  q_K Pnc = 0 /\ (forall w, cp_of Rops Pnc w = 1) /\ (forall b w, BETA_of Rops Pnc b w = 1)
  /\ lsum (fst (solid_step Rops Pnc T W 0 0)) - lsum T = 3 / 4.
Proof.
  cbv zeta. split; [reflexivity|]. split; [|split].
  - intros w. unfold cp_of, Pnc. cbn [q_cps q_sf q_cpi q_cpw nadd nsub nmul nofZ Rops]. ring.
  - intros b w. unfold BETA_of, Pnc. cbn [q_Teql q_Dh q_kf q_ms q_Ms q_rho q_V q_Tm nltb nadd nsub nmul ndiv nofZ Rops].
    destruct (Rltb b 50); [|reflexivity]. unfold Rdiv. ring.
  - cbv [solid_step fst lsum Pnc interior2 solid_point lastd last2 lbo last app map cp_of lam_of BETA_of ice_of
         q_dz q_dt q_K q_lam0 q_alpha0 q_cps q_cpi q_cpw q_sf q_lami q_lamw q_Dh q_kf q_Ms q_rho q_V q_mass q_mw q_ms q_Tm q_Teql q_cp0
         nadd nsub nmul ndiv nltb nofZ Rops].
    repeat match goal with |- context [Rltb ?a ?b] => destruct (Rltb a b) end; lra.
Qed.
Lemma solid_step_exact_balance_refuted :
  exists (P : @p1d R) (T W : list R),
  q_K P = 0 /\ (forall w, cp_of Rops P w = 1) /\ (forall b w, BETA_of Rops P b w = 1)
  /\ lsum (fst (solid_step Rops P T W 0 0)) - lsum T <> 0.
Proof.
  exists Pnc, [0; 1; 3], [0; 1; 0]. destruct solid_step_not_conservative as (H1 & H2 & H3 & H4).
  repeat split; try assumption. rewrite H4. lra.
Qed.
