(* C17: the tables contain each simulated number exactly once, at the stated position. *)
From Coq Require Import ZArith List Bool Lia.
From Snow Require Import Tables.
Import ListNotations.

Lemma range_length n : length (range n) = n.
Proof. induction n as [|n IH]; [reflexivity|]. cbn [range]. rewrite app_length, IH. cbn; lia. Qed.
Lemma nth_range n i d : i < n -> nth i (range n) d = i.
Proof.
  induction n as [|n IH]; intros Hi; [lia|]. cbn [range].
  destruct (Nat.eq_dec i n) as [->|Hne].
  - rewrite app_nth2; rewrite range_length; [|lia]. rewrite Nat.sub_diag. reflexivity.
  - rewrite app_nth1 by (rewrite range_length; lia). apply IH. lia.
Qed.
Lemma In_range n i : In i (range n) <-> i < n.
Proof. induction n as [|n IH]; cbn [range]; [split; [intros []|lia]|]. rewrite in_app_iff, IH. cbn. lia. Qed.

Lemma nth_map_lt {X Y} (f : X -> Y) l i d d' : i < length l -> nth i (map f l) d' = f (nth i l d).
Proof. intros H. rewrite (nth_indep _ d' (f d)) by (rewrite map_length; exact H). apply map_nth. Qed.

(* blocks of equal size: the (a*n + b)-th entry of a flat_map *)
Lemma nth_flat_map_block {X Y} (f : X -> list Y) (n : nat) (dx : X) (dy : Y) : forall (l : list X) a b,
  (forall x, length (f x) = n) -> a < length l -> b < n ->
  nth (a * n + b) (flat_map f l) dy = nth b (f (nth a l dx)) dy.
Proof.
  induction l as [|x l IH]; intros a b Hf Ha Hb; [cbn in Ha; lia|].
  cbn [flat_map]. destruct a as [|a].
  - cbn [Nat.mul Nat.add nth]. rewrite app_nth1 by (rewrite Hf; lia). reflexivity.
  - rewrite app_nth2 by (rewrite Hf; lia). rewrite Hf.
    replace (S a * n + b - n) with (a * n + b) by lia. cbn [nth]. apply IH; [assumption|cbn in Ha; lia|assumption].
Qed.
Lemma flat_map_block_length {X Y} (f : X -> list Y) n l : (forall x, length (f x) = n) -> length (flat_map f l) = length l * n.
Proof. intros Hf. induction l as [|x l IH]; [reflexivity|]. cbn [flat_map length]. rewrite app_length, Hf, IH. lia. Qed.

(* statistics table: 3 N rows; row j*N + v is (vial v, variable j): each pair exactly once *)
Theorem stats_rows_spec N :
  length (stats_rows N) = 3 * N
  /\ forall j v, j < 3 -> v < N -> nth (j * N + v) (stats_rows N) (0, 0) = (v, j).
Proof.
  unfold stats_rows. split.
  - rewrite (flat_map_block_length _ N); [rewrite range_length; lia|]. intros; now rewrite map_length, range_length.
  - intros j v Hj Hv.
    rewrite (nth_flat_map_block _ N 0 (0, 0)); [|intros; now rewrite map_length, range_length|rewrite range_length; lia|lia].
    rewrite nth_range by lia.
    rewrite (nth_map_lt _ _ _ 0) by (rewrite range_length; lia). rewrite nth_range by lia. reflexivity.
Qed.

(* Snowfall table: Nrep * N * 3 rows; the row of (seed i, variable j, vial v) sits at i*3N + j*N + v *)
Theorem snowfall_rows_spec Nrep N :
  length (snowfall_rows Nrep N) = Nrep * (3 * N)
  /\ forall i j v, i < Nrep -> j < 3 -> v < N ->
       nth (i * (3 * N) + (j * N + v)) (snowfall_rows Nrep N) (0, 0, 0) = (i, v, j).
Proof.
  destruct (stats_rows_spec N) as [HL HN]. unfold snowfall_rows. split.
  - rewrite (flat_map_block_length _ (3 * N)); [rewrite range_length; reflexivity|]. intros; now rewrite map_length.
  - intros i j v Hi Hj Hv.
    rewrite (nth_flat_map_block _ (3 * N) 0 (0, 0, 0)); [|intros; now rewrite map_length|rewrite range_length; lia|nia].
    rewrite nth_range by lia.
    rewrite (nth_map_lt _ _ _ (0, 0)) by (rewrite HL; nia). rewrite HN by assumption. reflexivity.
Qed.

(* strided sub-sampling: the k-th sampled column is column k * stride; stride >= 1 always *)
Lemma sample_nth st : 1 <= st -> forall l k skip d, skip <= st - 1 -> skip + k * st < length l ->
  nth k (sample st skip l) d = nth (skip + k * st) l d.
Proof.
  intros Hs. induction l as [|x l IH]; intros k skip d Hsk Hk; [cbn in Hk; lia|].
  cbn [sample]. destruct skip as [|sk].
  - destruct k as [|k]; [reflexivity|]. cbn [nth].
    rewrite (IH k (st - 1) d) by (cbn in Hk; lia). replace (0 + S k * st) with (S (st - 1 + k * st)) by lia. reflexivity.
  - rewrite (IH k sk d) by (cbn in Hk; lia). reflexivity.
Qed.

Lemma stride_pos ncols n : 1 <= stride ncols n.
Proof. unfold stride. lia. Qed.

Theorem sampled_cols_spec ncols n k : k * stride ncols n < ncols ->
  nth k (sampled_cols ncols n) 0 = k * stride ncols n.
Proof.
  intros Hk. unfold sampled_cols.
  rewrite (sample_nth _ (stride_pos ncols n) (range ncols) k 0 0) by (rewrite ?range_length; lia).
  rewrite nth_range by lia. lia.
Qed.

(* short runs are not sub-sampled: fewer columns than requested samples => every column, once *)
Lemma sample_stride1 l : sample 1 0 l = l.
Proof. induction l as [|x l IH]; [reflexivity|]. cbn. f_equal. exact IH. Qed.
Theorem short_runs_keep_every_column ncols n : ncols < Nat.max 1 (n - 1) -> sampled_cols ncols n = range ncols.
Proof.
  intros H. unfold sampled_cols, stride. rewrite Nat.div_small by assumption. cbn [Nat.max]. apply sample_stride1.
Qed.

(* trajectory table: for each sampled column the temperature rows of the stored vials, then their sigma rows *)
Theorem traj_rows_spec stored ncols n c r :
  let Ls := length stored in
  c < length (sampled_cols ncols n) -> r < Ls ->
  nth (c * (2 * Ls) + r) (traj_rows stored ncols n) (false, 0, 0) = (false, nth r stored 0, nth c (sampled_cols ncols n) 0)
  /\ nth (c * (2 * Ls) + (Ls + r)) (traj_rows stored ncols n) (false, 0, 0) = (true, nth r stored 0, nth c (sampled_cols ncols n) 0).
Proof.
  intros Ls Hc Hr. unfold traj_rows.
  assert (HB : forall x : nat, length (map (fun v => (false, v, x)) stored ++ map (fun v => (true, v, x)) stored) = 2 * Ls)
    by (intros; rewrite app_length, !map_length; unfold Ls; lia).
  split.
  - rewrite (nth_flat_map_block _ (2 * Ls) 0 (false, 0, 0)); [|exact HB|exact Hc|lia].
    rewrite app_nth1 by (rewrite map_length; exact Hr).
    rewrite (nth_map_lt _ _ _ 0) by exact Hr. reflexivity.
  - rewrite (nth_flat_map_block _ (2 * Ls) 0 (false, 0, 0)); [|exact HB|exact Hc|lia].
    rewrite app_nth2 by (rewrite map_length; fold Ls; lia). rewrite map_length. fold Ls. replace (Ls + r - Ls) with r by lia.
    rewrite (nth_map_lt _ _ _ 0) by exact Hr. reflexivity.
Qed.

(* accessors return exactly the rows matching the requested groups, seeds and variable *)
Theorem accessor_spec {L} (leqb : L -> L -> bool) label groups seeds var rows r :
  In r (accessor leqb label groups seeds var rows) <->
  In r rows /\ (let '(i, v, j) := r in
                (match groups with None => true | Some gs => existsb (leqb (label v)) gs end)
                && (match seeds with None => true | Some ss => existsb (Nat.eqb i) ss end)
                && Nat.eqb j var) = true.
Proof. unfold accessor. rewrite filter_In. destruct r as [[i v] j]. reflexivity. Qed.
