(* C18: a recording request stores exactly the vials it names. *)
From Coq Require Import ZArith List Bool Lia.
From Snow Require Import Topology TopologyProofs Groups Record.
Import ListNotations.
Local Open Scope Z_scope.

Lemma nth_zrange n i d : (i < n)%nat -> nth i (zrange n) d = Z.of_nat i.
Proof.
  induction n as [|n IH]; intros Hi; [lia|]. cbn [zrange].
  assert (Hl : length (zrange n) = n). { clear. induction n as [|n IH]; [reflexivity|]. cbn [zrange]. rewrite app_length, IH. cbn; lia. }
  destruct (Nat.eq_dec i n) as [->|Hne].
  - rewrite app_nth2 by lia. rewrite Hl, Nat.sub_diag. reflexivity.
  - rewrite app_nth1 by lia. apply IH. lia.
Qed.
Lemma zrange_length n : length (zrange n) = n.
Proof. induction n as [|n IH]; [reflexivity|]. cbn [zrange]. rewrite app_length, IH. cbn; lia. Qed.

(* the mask built from a selection is true exactly at the selected vials *)
Theorem mask_of_spec N sel i : 0 <= i < N ->
  (nth (Z.to_nat i) (mask_of N sel) false = true <-> In i sel).
Proof.
  intros Hi. unfold mask_of.
  rewrite (nth_indep _ false (existsb (Z.eqb 0) sel)) by (rewrite map_length, zrange_length; lia).
  rewrite (map_nth (fun j => existsb (Z.eqb j) sel) (zrange (Z.to_nat N)) 0).
  rewrite nth_zrange by lia. rewrite Z2Nat.id by lia.
  rewrite existsb_exists. split.
  - intros (x & Hx & E). apply Z.eqb_eq in E. subst; assumption.
  - intros H. exists i. split; [assumption|apply Z.eqb_refl].
Qed.

Theorem by_index_exact N l m : by_index N l = Ok m ->
  (forall i, In i l -> 0 <= i < N) /\ m = mask_of N l.
Proof.
  unfold by_index. destruct (existsb _ l) eqn:E; [discriminate|]. intros H; inversion H; subst. split; [|reflexivity].
  intros i Hi. destruct (Z_lt_dec i 0) as [L|L]; [|destruct (Z_lt_dec (N - 1) i) as [L'|L']; [|lia]].
  - exfalso. assert (existsb (fun i0 => (N - 1 <? i0) || (i0 <? 0)) l = true); [|congruence].
    apply existsb_exists. exists i. split; [assumption|]. apply orb_true_iff; right. apply Z.ltb_lt; lia.
  - exfalso. assert (existsb (fun i0 => (N - 1 <? i0) || (i0 <? 0)) l = true); [|congruence].
    apply existsb_exists. exists i. split; [assumption|]. apply orb_true_iff; left. apply Z.ltb_lt; lia.
Qed.

(* 'uniform': a subset of the candidates, never more than asked *)
Lemma every_subset step : forall l k x, In x (every step k l) -> In x l.
Proof.
  induction l as [|a l IH]; intros k x H; [destruct H|].
  cbn [every] in H. destruct k as [|k].
  - destruct H as [->|H]; [left; reflexivity|right; eapply IH; eassumption].
  - right. eapply IH; eassumption.
Qed.

Lemma every_count step : (1 <= step)%nat -> forall l k, (k <= step - 1)%nat ->
  (length (every step k l) * step + k <= length l + step - 1)%nat.
Proof.
  intros Hs. induction l as [|a l IH]; intros k Hk; cbn [every length]; [lia|].
  destruct k as [|k].
  - cbn [length]. specialize (IH (step - 1)%nat ltac:(lia)). rewrite Nat.mul_succ_l. lia.
  - specialize (IH k ltac:(lia)). lia.
Qed.

Theorem uniform_never_more_than_asked cands many :
  0 < many ->
  let step := Z.to_nat (cdiv (Z.of_nat (length cands)) many) in
  cands <> [] ->
  (forall x, In x (every step 0 cands) -> In x cands)
  /\ Z.of_nat (length (every step 0 cands)) <= many.
Proof.
  intros Hm step Hne. split; [apply every_subset|].
  assert (Hlen : 0 < Z.of_nat (length cands)) by (destruct cands; [contradiction|cbn; lia]).
  set (L := Z.of_nat (length cands)) in *.
  assert (Hstep : L <= cdiv L many * many /\ 1 <= cdiv L many).
  { unfold cdiv. split.
    - assert (H := Z.div_mod (L + many - 1) many ltac:(lia)). assert (H2 := Z.mod_pos_bound (L + many - 1) many Hm). nia.
    - apply Z.div_le_lower_bound; lia. }
  destruct Hstep as [H1 H2].
  assert (Hs : (1 <= step)%nat) by (unfold step; lia).
  assert (Hc := every_count step Hs cands 0%nat ltac:(lia)).
  assert (Es : Z.of_nat step = cdiv L many) by (unfold step; lia).
  set (c := length (every step 0 cands)) in *.
  (* c * step <= len + step - 1  and  step * many >= len  =>  c <= many *)
  assert (Hc' : Z.of_nat c * Z.of_nat step <= L + Z.of_nat step - 1) by (unfold L; nia).
  rewrite Es in Hc'. nia.
Qed.

(* 'random': given numpy's contract for choice(.., replace=False) -- a duplicate-free sub-selection of the
   requested size -- exactly that many vials are stored, all inside the candidates *)
Theorem random_exactly_as_asked N (cands sel : list Z) many :
  NoDup sel -> (forall x, In x sel -> In x cands) -> Z.of_nat (length sel) = many ->
  (forall x, In x cands -> 0 <= x < N) ->
  (forall i, 0 <= i < N -> nth (Z.to_nat i) (mask_of N sel) false = true -> In i cands)
  /\ Z.of_nat (length sel) = many.
Proof.
  intros ND Hsub Hlen Hr. split; [|exact Hlen].
  intros i Hi H. apply Hsub. apply (mask_of_spec N sel i Hi). exact H.
Qed.

(* several strings: the union of the individual requests *)
Lemma or_masks_nth a b i : length a = length b ->
  nth i (or_masks a b) false = nth i a false || nth i b false.
Proof.
  revert b i; induction a as [|x a IH]; intros [|y b] i Hl; cbn in Hl; try lia.
  - destruct i; reflexivity.
  - destruct i as [|i]; [reflexivity|]. cbn. apply IH. lia.
Qed.

(* stored rows: temperatures of the recorded vials in index order first, then their ice fractions;
   the row of a recorded vial is the same whichever other vials are recorded *)
Lemma select_all {T} (l : list T) : select (map (fun _ => true) l) l = l.
Proof. unfold select. induction l as [|a l IH]; [reflexivity|]. cbn. f_equal. exact IH. Qed.

Theorem x_column_layout {T} (m : list bool) (Tv Sv : list T) :
  x_column m Tv Sv = select m Tv ++ select m Sv
  /\ (length m = length Tv -> length (select m Tv) = length (filter (fun b => b) m)).
Proof.
  split; [reflexivity|]. unfold select. revert Tv. induction m as [|b m IH]; intros [|t Tv] H; cbn in *; try lia; try reflexivity.
  destruct b; cbn; [f_equal|]; apply IH; lia.
Qed.

(* the selected entries are, in ascending vial order, the entries of exactly the recorded vials *)
Lemma select_is_indexing {T} (d : T) : forall (m : list bool) (l : list T) (off : nat) (pre : list T),
  length m = length l -> length pre = off ->
  select m l = map (fun i => nth (Z.to_nat i) (pre ++ l) d) (where_true m (Z.of_nat off)).
Proof.
  induction m as [|b m IH]; intros [|x l] off pre Hl Hp; cbn in Hl; try lia; [reflexivity|].
  unfold select in *. cbn [combine filter map fst snd where_true].
  specialize (IH l (S off) (pre ++ [x]) ltac:(lia) ltac:(rewrite app_length; cbn; lia)).
  rewrite <- app_assoc in IH. cbn [app] in IH.
  replace (Z.of_nat off + 1) with (Z.of_nat (S off)) by lia.
  destruct b; cbn [fst filter map snd].
  - f_equal; [|exact IH]. rewrite Nat2Z.id, app_nth2 by lia. rewrite Hp, Nat.sub_diag. reflexivity.
  - exact IH.
Qed.

Theorem recorded_rows_are_the_vials_own_rows {T} (d : T) (m : list bool) (l : list T) :
  length m = length l ->
  select m l = map (fun i => nth (Z.to_nat i) l d) (where_true m 0).
Proof. intros H. apply (select_is_indexing d m l 0%nat []); [exact H|reflexivity]. Qed.
