(* Exposure-count bounds for batches with at least two vials per populated direction,
   and the consequences for the position groups. *)
From Coq Require Import ZArith Lia Bool List.
From Snow Require Import Topology TopologyProofs Groups.
Import ListNotations.
Local Open Scope Z_scope.

Lemma zsum_map_le (f g : Z -> Z) l :
  (forall j, In j l -> f j <= g j) -> zsum (map f l) <= zsum (map g l).
Proof.
  induction l as [|a l IH]; intros H; cbn; [lia|].
  assert (f a <= g a) by (apply H; left; reflexivity).
  assert (zsum (map f l) <= zsum (map g l)) by (apply IH; intros; apply H; right; assumption).
  unfold zsum in *. lia.
Qed.

Lemma zsum_indicator_le n s : zsum (map (fun j => Z.b2z (s =? j)) (zrange n)) <= 1.
Proof.
  destruct (Z_lt_dec s 0) as [L|L]; [|destruct (Z_lt_dec s (Z.of_nat n)) as [L'|L']].
  - rewrite (zsum_map_ext _ (fun _ => 0)); [rewrite zsum_zero; lia|].
    intros j Hj; apply In_zrange in Hj. destruct (Z.eqb_spec s j); [lia|reflexivity].
  - change (fun j => Z.b2z (s =? j)) with (fun j => if s =? j then 1 else 0).
    rewrite zsum_indicator by lia. lia.
  - rewrite (zsum_map_ext _ (fun _ => 0)); [rewrite zsum_zero; lia|].
    intros j Hj; apply In_zrange in Hj. destruct (Z.eqb_spec s j); [lia|reflexivity].
Qed.

Definition occ (S : list Z) (j : Z) : Z := zsum (map (fun s => Z.b2z (s =? j)) S).

Lemma occ_in S j : In j S -> 1 <= occ S j.
Proof.
  induction S as [|s S IH]; intros H; [destruct H|]. unfold occ in *. cbn [map zsum fold_right].
  assert (0 <= fold_right Z.add 0 (map (fun s0 => Z.b2z (s0 =? j)) S)).
  { clear. induction S as [|a S IH]; cbn; [lia|]. destruct (a =? j); cbn [Z.b2z]; lia. }
  destruct H as [->|H].
  - rewrite Z.eqb_refl. cbn [Z.b2z]. unfold zsum in *. lia.
  - specialize (IH H). unfold zsum in *. destruct (s =? j); cbn [Z.b2z]; lia.
Qed.

Lemma occ_nonneg S j : 0 <= occ S j.
Proof. unfold occ. induction S as [|a S IH]; cbn; [lia|]. unfold zsum in *. destruct (a =? j); cbn [Z.b2z]; lia. Qed.

Lemma sum_occ_le n S : zsum (map (occ S) (zrange n)) <= Z.of_nat (length S).
Proof.
  induction S as [|s S IH].
  - unfold occ. cbn [map zsum fold_right]. rewrite zsum_zero. cbn; lia.
  - rewrite (zsum_map_ext (occ (s :: S)) (fun j => Z.b2z (s =? j) + occ S j)).
    + rewrite zsum_map_add. assert (H := zsum_indicator_le n s). cbn [length]. lia.
    + intros j _. unfold occ. cbn [map zsum fold_right]. reflexivity.
Qed.

Lemma count_upper (P : Z -> bool) n (S : list Z) :
  (forall j, 0 <= j < Z.of_nat n -> P j = true -> In j S) ->
  zsum (map (fun j => if P j then 1 else 0) (zrange n)) <= Z.of_nat (length S).
Proof.
  intros H. eapply Z.le_trans; [|apply (sum_occ_le n S)].
  apply zsum_map_le. intros j Hj. apply In_zrange in Hj.
  destruct (P j) eqn:E; [apply occ_in, H; assumption|apply occ_nonneg].
Qed.

Lemma count_lower2 (P : Z -> bool) n w1 w2 :
  0 <= w1 < Z.of_nat n -> 0 <= w2 < Z.of_nat n -> w1 <> w2 -> P w1 = true -> P w2 = true ->
  2 <= zsum (map (fun j => if P j then 1 else 0) (zrange n)).
Proof.
  intros H1 H2 Hne P1 P2.
  assert (E : zsum (map (fun j => (if w1 =? j then 1 else 0) + (if w2 =? j then 1 else 0)) (zrange n)) = 2).
  { rewrite zsum_map_add, !zsum_indicator by assumption. reflexivity. }
  rewrite <- E. apply zsum_map_le. intros j _.
  destruct (Z.eqb_spec w1 j) as [E1|E1]; destruct (Z.eqb_spec w2 j) as [E2|E2]; try lia.
  - subst j. rewrite P1; lia. - subst j. rewrite P2; lia. - destruct (P j); lia.
Qed.

Lemma count_lower3 (P : Z -> bool) n w1 w2 w3 :
  0 <= w1 < Z.of_nat n -> 0 <= w2 < Z.of_nat n -> 0 <= w3 < Z.of_nat n ->
  w1 <> w2 -> w1 <> w3 -> w2 <> w3 -> P w1 = true -> P w2 = true -> P w3 = true ->
  3 <= zsum (map (fun j => if P j then 1 else 0) (zrange n)).
Proof.
  intros H1 H2 H3 N12 N13 N23 P1 P2 P3.
  assert (E : zsum (map (fun j => (if w1 =? j then 1 else 0) + ((if w2 =? j then 1 else 0) + (if w3 =? j then 1 else 0))) (zrange n)) = 3).
  { rewrite zsum_map_add, zsum_map_add, !zsum_indicator by assumption. reflexivity. }
  rewrite <- E. apply zsum_map_le. intros j _.
  destruct (Z.eqb_spec w1 j) as [E1|E1]; destruct (Z.eqb_spec w2 j) as [E2|E2];
    destruct (Z.eqb_spec w3 j) as [E3|E3]; try lia.
  - subst j. rewrite P1; lia. - subst j. rewrite P2; lia. - subst j. rewrite P3; lia. - destruct (P j); lia.
Qed.

Section Bounds.
  Variables (a : arrangement) (nx ny nz : Z).
  Hypothesis Hnx : 0 < nx.
  Hypothesis Hny : 0 < ny.
  Hypothesis Hnz : 0 < nz.
  Let N := nvials nx ny nz.

  Lemma nbr_idx x y z x' y' z' :
    0 <= x < nx -> 0 <= y < ny -> 0 <= x' < nx -> 0 <= y' < ny ->
    nbr a nx ny nz (idx nx ny x y z) (idx nx ny x' y' z') = nbr_coords a x y z x' y' z'.
  Proof. intros. unfold nbr. now rewrite !cx_idx, !cy_idx, !cz_idx by assumption. Qed.

  Lemma idx_range x y z : 0 <= x < nx -> 0 <= y < ny -> 0 <= z < nz -> 0 <= idx nx ny x y z < N.
  Proof.
    intros. unfold idx, N, nvials.
    assert (0 <= y + ny * z <= ny * nz - 1) by nia.
    remember (y + ny * z) as w. replace (nx * ny * nz) with (nx * (ny * nz)) by ring.
    remember (ny * nz) as m. nia.
  Qed.

  (* candidate neighbour positions of vial i *)
  Definition cand (i : Z) : list Z :=
    [i + 1; i - 1; i + nx; i - nx]
    ++ (match a with
        | Square => []
        | Hexagonal => let s := if Z.even (cy nx ny i) then -1 else 1 in [i + nx + s; i - nx + s]
        end)
    ++ (if 1 <? nz then [i + nx * ny; i - nx * ny] else []).

  Lemma cand_length i : Z.of_nat (length (cand i)) = max_int a nz.
  Proof. unfold cand, max_int. destruct a, (1 <? nz); reflexivity. Qed.

  Lemma nbr_in_cand i j : 0 <= i < N -> 0 <= j < N -> nbr a nx ny nz i j = true -> In j (cand i).
  Proof.
    intros Hi Hj. unfold N, nvials in *.
    destruct (decompose nx ny Hnx Hny nz i Hi) as (Ei & Hx & Hy & Hz).
    destruct (decompose nx ny Hnx Hny nz j Hj) as (Ej & Hx' & Hy' & Hz').
    unfold nbr, cand.
    set (x := cx nx i) in *. set (y := cy nx ny i) in *. set (z := cz nx ny i) in *.
    set (x' := cx nx j) in *. set (y' := cy nx ny j) in *. set (z' := cz nx ny j) in *.
    unfold nbr_coords. rewrite !orb_true_iff, !andb_true_iff, !Z.eqb_eq.
    assert (OFF : forall dx dy dz, x' = x + dx -> y' = y + dy -> z' = z + dz ->
                  j = i + dx + nx * dy + nx * ny * dz).
    { intros dx dy dz -> -> ->. rewrite Ei, Ej. unfold idx. ring. }
    intros [[[[Ez Ey] Ex]|[[Ez Ey] Ex]]|[[Ex Ey] Ez]]; rewrite !in_app_iff; cbn [In].
    - left. assert (x' = x + 1 \/ x' = x + -1) as [D|D] by lia;
        rewrite (OFF _ 0 0 D ltac:(lia) ltac:(lia)); lia.
    - assert (y' = y + 1 \/ y' = y + -1) as [D|D] by lia.
      + destruct a.
        * apply Z.eqb_eq in Ex. left. rewrite (OFF 0 _ 0 ltac:(lia) D ltac:(lia)); lia.
        * apply orb_true_iff in Ex. rewrite !Z.eqb_eq in Ex.
          destruct (Z.even y) eqn:Evy; cbn iota in Ex; destruct Ex as [Ex|Ex].
          -- left. rewrite (OFF 0 _ 0 ltac:(lia) D ltac:(lia)); lia.
          -- right; left. cbv zeta; rewrite ?Evy; cbn [In]. rewrite (OFF (-1) _ 0 ltac:(lia) D ltac:(lia)); lia.
          -- left. rewrite (OFF 0 _ 0 ltac:(lia) D ltac:(lia)); lia.
          -- right; left. cbv zeta; rewrite ?Evy; cbn [In]. rewrite (OFF 1 _ 0 ltac:(lia) D ltac:(lia)); lia.
      + destruct a.
        * apply Z.eqb_eq in Ex. left. rewrite (OFF 0 _ 0 ltac:(lia) D ltac:(lia)); lia.
        * apply orb_true_iff in Ex. rewrite !Z.eqb_eq in Ex.
          destruct (Z.even y) eqn:Evy; cbn iota in Ex; destruct Ex as [Ex|Ex].
          -- left. rewrite (OFF 0 _ 0 ltac:(lia) D ltac:(lia)); lia.
          -- right; left. cbv zeta; rewrite ?Evy; cbn [In]. rewrite (OFF (-1) _ 0 ltac:(lia) D ltac:(lia)); lia.
          -- left. rewrite (OFF 0 _ 0 ltac:(lia) D ltac:(lia)); lia.
          -- right; left. cbv zeta; rewrite ?Evy; cbn [In]. rewrite (OFF 1 _ 0 ltac:(lia) D ltac:(lia)); lia.
    - destruct (Z.ltb_spec 1 nz) as [L|L]; [|lia].
      right; right. cbn [In].
      assert (z' = z + 1 \/ z' = z + -1) as [D|D] by lia;
        rewrite (OFF 0 0 _ ltac:(lia) ltac:(lia) D); lia.
  Qed.

  Lemma nbr_count_upper i : 0 <= i < N -> nbr_count a nx ny nz i <= max_int a nz.
  Proof.
    intros Hi. rewrite <- (cand_length i). unfold nbr_count. apply count_upper.
    intros j Hj. fold N in Hj. rewrite Z2Nat.id in Hj by (unfold N, nvials; nia).
    apply nbr_in_cand; assumption.
  Qed.

  Hypothesis Hnx2 : 2 <= nx.
  Hypothesis Hny2 : 2 <= ny.

  Lemma nbr_count_lower i : 0 <= i < N ->
    2 + (if 1 <? nz then 1 else 0) <= nbr_count a nx ny nz i.
  Proof.
    intros Hi. unfold N, nvials in *.
    destruct (decompose nx ny Hnx Hny nz i Hi) as (Ei & Hx & Hy & Hz).
    set (x := cx nx i) in *. set (y := cy nx ny i) in *. set (z := cz nx ny i) in *.
    set (x1 := if x + 1 <? nx then x + 1 else x - 1).
    set (y1 := if y + 1 <? ny then y + 1 else y - 1).
    assert (Hx1 : 0 <= x1 < nx /\ Z.abs (x - x1) = 1) by (unfold x1; destruct (Z.ltb_spec (x + 1) nx); lia).
    assert (Hy1 : 0 <= y1 < ny /\ Z.abs (y - y1) = 1) by (unfold y1; destruct (Z.ltb_spec (y + 1) ny); lia).
    assert (P1 : nbr a nx ny nz i (idx nx ny x1 y z) = true).
    { rewrite Ei at 1. rewrite nbr_idx by tauto. unfold nbr_coords.
      rewrite !Z.eqb_refl. destruct Hx1 as [_ ->]. reflexivity. }
    assert (P2 : nbr a nx ny nz i (idx nx ny x y1 z) = true).
    { rewrite Ei at 1. rewrite nbr_idx by tauto. unfold nbr_coords.
      rewrite !Z.eqb_refl. destruct Hy1 as [_ ->]. cbn [andb].
      destruct a; [now rewrite orb_true_r|].
      assert ((if Z.even y then x else x) = x) as -> by (destruct (Z.even y); reflexivity).
      rewrite Z.eqb_refl. cbn. now rewrite orb_true_r. }
    assert (R1 := idx_range x1 y z ltac:(tauto) Hy Hz).
    assert (R2 := idx_range x y1 z Hx ltac:(tauto) Hz).
    assert (D12 : idx nx ny x1 y z <> idx nx ny x y1 z).
    { intros E. apply idx_inj in E; try tauto. lia. }
    unfold nbr_count. fold N.
    assert (HN : Z.of_nat (Z.to_nat N) = N) by (apply Z2Nat.id; unfold N, nvials; nia).
    destruct (Z.ltb_spec 1 nz) as [L|L].
    - set (z1 := if z + 1 <? nz then z + 1 else z - 1).
      assert (Hz1 : 0 <= z1 < nz /\ Z.abs (z - z1) = 1) by (unfold z1; destruct (Z.ltb_spec (z + 1) nz); lia).
      assert (P3 : nbr a nx ny nz i (idx nx ny x y z1) = true).
      { rewrite Ei at 1. rewrite nbr_idx by tauto. unfold nbr_coords.
        rewrite !Z.eqb_refl. destruct Hz1 as [_ ->]. cbn. now rewrite orb_true_r. }
      assert (R3 := idx_range x y z1 Hx Hy ltac:(tauto)).
      assert (D13 : idx nx ny x1 y z <> idx nx ny x y z1) by (intros E; apply idx_inj in E; try tauto; lia).
      assert (D23 : idx nx ny x y1 z <> idx nx ny x y z1) by (intros E; apply idx_inj in E; try tauto; lia).
      apply (count_lower3 (nbr a nx ny nz i) (Z.to_nat N) (idx nx ny x1 y z) (idx nx ny x y1 z) (idx nx ny x y z1)); rewrite ?HN; assumption.
    - apply (count_lower2 (nbr a nx ny nz i) (Z.to_nat N) (idx nx ny x1 y z) (idx nx ny x y1 z)); rewrite ?HN; assumption.
  Qed.

  (* exposure range of such a batch: 0 .. (value that getVialGroup calls 'corner') *)
  Lemma vial_ext_range i : 0 <= i < N ->
    0 <= vial_ext a nx ny nz i <= (match a with Square => 3 | Hexagonal => 5 end) - flat nz.
  Proof.
    intros Hi. rewrite vial_ext_spec by assumption.
    assert (U := nbr_count_upper i Hi). assert (L := nbr_count_lower i Hi).
    unfold max_int, flat in *. destruct a; destruct (Z.ltb_spec 1 nz), (Z.eqb_spec nz 1); lia.
  Qed.
End Bounds.

(* ---- finite case analysis on the exposure count ----------------------------------- *)
Definition corner_val (a : arrangement) (nz : Z) : Z :=
  (match a with Square => 3 | Hexagonal => 5 end) - flat nz.

Ltac ext_cases a nz e He :=
  unfold corner_val, flat in He; unfold flat;
  destruct a; destruct (nz =? 1) eqn:Enz;
  match type of He with
  | _ => assert (e = 0 \/ e = 1 \/ e = 2 \/ e = 3 \/ e = 4 \/ e = 5) as Hc by lia;
         destruct Hc as [->|[->|[->|[->|[->| ->]]]]]; try (exfalso; lia)
  end.

Lemma class_total a nz e : 0 <= e <= corner_val a nz -> exists c, class_of_ext a nz e = Some c.
Proof. intros He. unfold class_of_ext. ext_cases a nz e He; cbn; eauto. Qed.

Lemma in_group_iff_class a nz e g : 0 <= e <= corner_val a nz -> g <> All ->
  (in_group a nz g e = true <-> group_class a nz g = class_of_ext a nz e).
Proof.
  intros He Hg. unfold in_group, group_class, class_of_ext.
  ext_cases a nz e He; destruct g; try contradiction; cbn; split; intros H; try reflexivity; try discriminate.
Qed.

Lemma all_is_union a nz e : 0 <= e <= corner_val a nz ->
  in_group a nz All e = in_groups a nz [Corner; Edge; Side; Core] e.
Proof. intros He. unfold in_groups, in_group. ext_cases a nz e He; reflexivity. Qed.

Lemma labels_are_classes a nz e : 0 <= e <= corner_val a nz ->
  class_of_label (label_stats a nz e) = class_of_ext a nz e
  /\ class_of_label (label_traj a nz e) = class_of_ext a nz e.
Proof.
  intros He. unfold label_stats, label_traj, class_of_ext, relabel.
  ext_cases a nz e He; cbn; split; reflexivity.
Qed.

(* 'side' names the edge class on a flat shelf and in hexagonal packing *)
Lemma side_is_edge a nz e : (a = Hexagonal \/ nz = 1) ->
  in_group a nz Side e = in_group a nz Edge e.
Proof.
  intros [->| ->]; [reflexivity|]. unfold in_group, flat. destruct a; reflexivity.
Qed.

Section Batch.
  Variables (a : arrangement) (nx ny nz : Z).
  Hypothesis Hnx2 : 2 <= nx.
  Hypothesis Hny2 : 2 <= ny.
  Hypothesis Hnz : 1 <= nz.

  Lemma batch_ext_range i : 0 <= i < nvials nx ny nz ->
    0 <= vial_ext a nx ny nz i <= corner_val a nz.
  Proof. intros. unfold corner_val. apply vial_ext_range; lia. Qed.
End Batch.
