(* Proofs about the loop skeleton: first-crossing searches, save buffers, reported rows. *)
From Coq Require Import ZArith List Bool Arith Lia Sorted.
From Snow Require Import SnLoop.
Import ListNotations.

(* the search returns the FIRST index satisfying the predicate: not one step earlier or later *)
Theorem find_first_spec p : forall fuel from,
  match find_first p from fuel with
  | Some i => from <= i < from + fuel /\ p i = true /\ forall j, from <= j < i -> p j = false
  | None => forall j, from <= j < from + fuel -> p j = false
  end.
Proof.
  induction fuel as [|f IH]; intros from; cbn [find_first].
  - intros j Hj; lia.
  - destruct (p from) eqn:E.
    + repeat split; try lia; try exact E.
    + specialize (IH (S from)). destruct (find_first p (S from) f) as [i|].
      * destruct IH as (R & Pi & Pj). repeat split; try lia; try exact Pi.
        intros j Hj. destruct (Nat.eq_dec j from) as [->|]; [exact E|apply Pj; lia].
      * intros j Hj. destruct (Nat.eq_dec j from) as [->|]; [exact E|apply IH; lia].
Qed.

Local Open Scope Z_scope.
Lemma In_zseq len : forall s i, In i (zseq s len) <-> s <= i < s + Z.of_nat len.
Proof.
  induction len as [|n IH]; intros s i; cbn [zseq In]; [lia|]. rewrite IH. lia.
Qed.
Lemma zseq_sorted len : forall s, StronglySorted Z.lt (zseq s len).
Proof.
  induction len as [|n IH]; intros s; cbn [zseq]; constructor; [apply IH|].
  apply Forall_forall. intros y Hy. apply In_zseq in Hy. lia.
Qed.
Local Close Scope Z_scope.

Lemma filter_sorted {X} (R : X -> X -> Prop) f l : StronglySorted R l -> StronglySorted R (filter f l).
Proof.
  induction 1 as [|a l Hs IH Hf]; cbn [filter]; [constructor|].
  destruct (f a); [|exact IH]. constructor; [exact IH|].
  rewrite Forall_forall in *. intros y Hy. apply filter_In in Hy. apply Hf, Hy.
Qed.

Lemma saved_sorted s n : StronglySorted Z.lt (saved s n).
Proof. apply filter_sorted, zseq_sorted. Qed.
Lemma saved_range s n i : In i (saved s n) -> (0 <= i < Z.max n 0)%Z.
Proof. unfold saved. rewrite filter_In, In_zseq. lia. Qed.

Lemma In_removelast {X} (l : list X) x : In x (removelast l) -> In x l.
Proof.
  induction l as [|a l IH]; [intros []|]. cbn [removelast]. destruct l as [|b l]; [intros []|].
  intros [->|H]; [left; reflexivity|right; apply IH; exact H].
Qed.
Lemma removelast_sorted {X} (R : X -> X -> Prop) l : StronglySorted R l -> StronglySorted R (removelast l).
Proof.
  induction 1 as [|a l Hs IH Hf]; [constructor|]. cbn [removelast]. destruct l as [|b l]; [constructor|].
  constructor; [exact IH|]. rewrite Forall_forall in *. intros y Hy. apply Hf. apply In_removelast. exact Hy.
Qed.

(* the reported time axis never decreases: cooling steps in increasing order, the nucleation row at the
   nucleation step, the solidification rows from that step on in increasing order *)
Theorem report_times_nondecreasing Nt_exp L i_end : (0 <= i_end)%Z ->
  StronglySorted Z.le (map fst (report_rows Nt_exp L i_end)).
Proof.
  intros Hie. unfold report_rows. rewrite !map_app, !map_map. cbn [map fst].
  set (c := saved (cdivz Nt_exp NSAVE) (i_end + 1)).
  set (s := saved (cdivz (Nt_exp - i_end) NSAVE) (L - i_end)).
  assert (Hc : StronglySorted Z.le (map (fun x => fst (x, RCool)) c) /\ forall x, In x c -> (x <= i_end)%Z).
  { split.
    - cbn [fst]. rewrite map_id. assert (H := saved_sorted (cdivz Nt_exp NSAVE) (i_end + 1)). fold c in H.
      clear -H. induction H as [|a l Hs IH Hf]; constructor; [exact IH|]. eapply Forall_impl; [|exact Hf]. cbn; lia.
    - intros x Hx. apply saved_range in Hx. lia. }
  assert (Hs : StronglySorted Z.le (map fst (removelast (map (fun j => ((i_end + j)%Z, RSolid)) s)))
               /\ forall x, In x (map fst (removelast (map (fun j => ((i_end + j)%Z, RSolid)) s))) -> (i_end <= x)%Z).
  { split.
    - assert (H : StronglySorted (fun a b : Z * rowkind => (fst a <= fst b)%Z) (map (fun j => ((i_end + j)%Z, RSolid)) s)).
      { assert (H := saved_sorted (cdivz (Nt_exp - i_end) NSAVE) (L - i_end)). fold s in H.
        clear -H. induction H as [|a l Hs IH Hf]; cbn [map]; constructor; [exact IH|].
        rewrite Forall_forall in *. intros y Hy. apply in_map_iff in Hy. destruct Hy as (j & <- & Hj). cbn. specialize (Hf j Hj). lia. }
      apply removelast_sorted in H.
      clear -H. induction H as [|a l Hs IH Hf]; cbn [map]; constructor; [exact IH|].
      rewrite Forall_forall in *. intros y Hy. apply in_map_iff in Hy. destruct Hy as (z & <- & Hz). apply Hf. exact Hz.
    - intros x Hx. apply in_map_iff in Hx. destruct Hx as ([i k] & <- & Hz). apply In_removelast in Hz.
      apply in_map_iff in Hz. destruct Hz as (j & E & Hj). inversion E; subst. cbn. apply saved_range in Hj. lia. }
  destruct Hc as [Hc1 Hc2]. destruct Hs as [Hs1 Hs2].
  assert (G : forall l1 l2 m, StronglySorted Z.le l1 -> StronglySorted Z.le l2 -> (forall x, In x l1 -> (x <= m)%Z) -> (forall x, In x l2 -> (m <= x)%Z) ->
                              StronglySorted Z.le (l1 ++ m :: l2)).
  { induction l1 as [|a l1 IHl]; intros l2 m H1 H2 B1 B2; cbn [app].
    - constructor; [exact H2|]. rewrite Forall_forall. exact B2.
    - inversion H1; subst. constructor; [apply IHl; auto; intros; apply B1; right; assumption|].
      rewrite Forall_forall in *. intros y Hy. apply in_app_iff in Hy. destruct Hy as [Hy|[<-|Hy]]; [auto|apply B1; left; reflexivity|].
      specialize (B1 a (or_introl eq_refl)). specialize (B2 y Hy). lia. }
  apply G; try assumption.
  intros x Hx. cbn [fst] in Hx. rewrite map_id in Hx. apply Hc2. exact Hx.
Qed.

(* the four reported arrays have the same length and refer to the same steps, row by row *)
Theorem report_same_rows {X Y} (f : Z * rowkind -> X) (g : Z * rowkind -> Y) Nt_exp L i_end :
  length (report f Nt_exp L i_end) = length (report g Nt_exp L i_end)
  /\ forall k d, (k < length (report_rows Nt_exp L i_end))%nat ->
       nth k (report f Nt_exp L i_end) (f d) = f (nth k (report_rows Nt_exp L i_end) d)
       /\ nth k (report g Nt_exp L i_end) (g d) = g (nth k (report_rows Nt_exp L i_end) d).
Proof.
  unfold report. rewrite !map_length. split; [reflexivity|]. intros k d Hk. rewrite !map_nth. split; reflexivity.
Qed.

(* a run reports a complete result exactly when both searches succeed; then nucleation happened at the first
   step at which the trigger holds and the 90 percent mark at the first later step at which it holds *)
Theorem run_outline_spec L nucleates frozen :
  match run_outline L nucleates frozen with
  | Some (i_end, i_sol) =>
      i_end < L /\ nucleates i_end = true /\ (forall j, j < i_end -> nucleates j = false)
      /\ i_sol < L - i_end /\ frozen i_end i_sol = true /\ (forall j, j < i_sol -> frozen i_end j = false)
  | None =>
      (forall j, j < L -> nucleates j = false)
      \/ exists i_end, i_end < L /\ nucleates i_end = true /\ forall j, j < L - i_end -> frozen i_end j = false
  end.
Proof.
  unfold run_outline. assert (H1 := find_first_spec nucleates L 0).
  destruct (find_first nucleates 0 L) as [ie|].
  - destruct H1 as (R1 & P1 & Q1). assert (H2 := find_first_spec (frozen ie) (L - ie) 0).
    destruct (find_first (frozen ie) 0 (L - ie)) as [is|].
    + destruct H2 as (R2 & P2 & Q2). repeat split; try lia; try assumption; intros j Hj; [apply Q1|apply Q2]; lia.
    + right. exists ie. repeat split; try lia; [assumption|]. intros j Hj. apply H2. lia.
  - left. intros j Hj. apply H1. lia.
Qed.
