From Coq Require Import List Bool Arith Lia.
From Snow Require Import Tables TablesProofs SnRep.
Import ListNotations.

Lemma assoc_study {X} (f : nat -> X) chunks i : In i (concat chunks) -> assoc i (study f chunks) = Some (f i).
Proof.
  unfold study. induction chunks as [|c r IH]; intros H; [destruct H|].
  cbn [concat flat_map] in *. apply in_app_or in H.
  assert (G : forall c rest, (In i c \/ assoc i rest = Some (f i)) -> assoc i (map (fun j => (j, f j)) c ++ rest) = Some (f i)).
  { clear. induction c as [|j c IHc]; intros rest H; cbn [map app assoc].
    - destruct H as [[]|H]; exact H.
    - destruct (Nat.eqb_spec i j) as [->|Hne]; [reflexivity|]. apply IHc. destruct H as [[E|H]|H]; [congruence|left; exact H|right; exact H]. }
  apply G. destruct H as [H|H]; [left; exact H|right; apply IH; exact H].
Qed.

(* whatever the assignment of repetitions to workers (any chunks covering 0..Nrep-1, any order), the table has one
   row per repetition in seed order and row i is the single run with seed i *)
Theorem table_rows_are_single_runs {X} (f : nat -> X) Nrep chunks :
  (forall i, i < Nrep -> In i (concat chunks)) ->
  results_table Nrep (study f chunks) = map (fun i => Some (f i)) (range Nrep).
Proof.
  intros H. unfold results_table. apply map_ext_in. intros i Hi. apply In_range in Hi. apply assoc_study, H, Hi.
Qed.

Corollary modes_agree {X} (f : nat -> X) Nrep chunks1 chunks2 :
  (forall i, i < Nrep -> In i (concat chunks1)) -> (forall i, i < Nrep -> In i (concat chunks2)) ->
  results_table Nrep (study f chunks1) = results_table Nrep (study f chunks2).
Proof. intros H1 H2. now rewrite !table_rows_are_single_runs. Qed.
