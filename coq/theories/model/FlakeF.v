(* Float instance of the Snowflake step model + comparison helpers (correspondence only). *)
From Coq Require Import ZArith List Bool PrimFloat.
From Snow Require Import Num NumF Topology Flake OpCondF.
Import ListNotations.

(* per-vial constants from the topology model: H_ext_i = VIAL_EXT_i * k_ext * A *)
Definition mk_consts a nx ny nz (kext area : float) (hshelf : list float) : list (@vconst float) :=
  map (fun ih => let '(i, hs) := ih in
                 MkC (nbr_list a nx ny nz i)
                     (PrimFloat.mul (PrimFloat.mul (F_ofZ (vial_ext a nx ny nz i)) kext) area) hs)
      (combine (zrange (Z.to_nat (nvials nx ny nz))) hshelf).

Definition mk_states (T Sg : list float) : list (@vstate float) :=
  map (fun ts => MkV (fst ts) (snd ts) (stat0)) (combine T Sg).

(* one recorded step of the implementation: (k, T_shelf_k, T_k, sigma_k, decisions, T_{k+1}, sigma_{k+1}) *)
Definition step_ok (P : @params float) (cs : list (@vconst float))
  (r : Z * float * list float * list float * list bool * list float * list float) : bool :=
  let '(k, Tsh, T, Sg, dec, T', Sg') := r in
  let out := step Fops P cs k Tsh dec (mk_states T Sg) in
  all_close 0x1p-30 0x1p-36 (map (@vT float) out) T' && all_close 0x1p-30 0x1p-36 (map (@vS float) out) Sg'.

Definition flake_case_ok
  (c : arrangement * Z * Z * Z * @params float * float * float * list float
       * list (Z * float * list float * list float * list bool * list float * list float)) : bool :=
  let '(a, nx, ny, nz, P, kext, area, hsh, steps) := c in
  let cs := mk_consts a nx ny nz kext area hsh in
  forallb (step_ok P cs) steps.

(* whole-run statistics: decisions observed from the implementation; compare t_nuc, T_nuc, t_sol *)
Definition opt_close (a : option float) (b : float) : bool :=
  match a with
  | None => Fnan b
  | Some x => Fclose 0x1p-30 0x1p-36 x b
  end.
Definition stats_ok (v : @vstate float) (r : float * float * float) : bool :=
  let '(tn, Tn, ts) := r in
  opt_close (st_tnuc (vst v)) tn && opt_close (st_Tnuc (vst v)) Tn && opt_close (st_tsol (vst v)) ts.
Fixpoint all2 {X Y} (f : X -> Y -> bool) (l1 : list X) (l2 : list Y) : bool :=
  match l1, l2 with
  | [], [] => true
  | a :: r1, b :: r2 => f a b && all2 f r1 r2
  | _, _ => false
  end.
Definition flake_run_ok
  (c : arrangement * Z * Z * Z * @params float * float * float * list float
       * float * list float * list (list bool) * list (float * float * float)) : bool :=
  let '(a, nx, ny, nz, P, kext, area, hsh, T0, shelf, decs, stats) := c in
  let cs := mk_consts a nx ny nz kext area hsh in
  let '(_, fin) := run_from Fops P cs 0%Z shelf decs (init Fops (length hsh) T0) in
  all2 stats_ok fin stats.
