(* Correspondence helpers for C19 (float instance of the generated constants; layering model). *)
From Coq Require Import ZArith List Bool String PrimFloat.
From Snow Require Import Num NumF Layer GenConstants.
Import ListNotations.

Fixpoint cfg_eqb (a b : cfg) {struct a} : bool :=
  match a, b with
  | Leaf x, Leaf y => (x =? y)%Z
  | Node la, Node lb =>
      (fix go (la lb : list (string * cfg)) {struct la} : bool :=
         match la, lb with
         | [], [] => true
         | (k, v) :: ra, (k', v') :: rb => String.eqb k k' && cfg_eqb v v' && go ra rb
         | _, _ => false
         end) la lb
  | _, _ => false
  end.

Fixpoint str_list_eqb (a b : list string) : bool :=
  match a, b with
  | [], [] => true
  | x :: r, y :: s => String.eqb x y && str_list_eqb r s
  | _, _ => false
  end.

(* (default tree, custom tree, merged tree of the implementation or None if it raised, unknown keys it reported sorted) *)
Definition layer_case_ok (c : cfg * cfg * option cfg * list string) : bool :=
  let '(d, u, merged, _) := c in
  match d, merged with
  | Node dl, Some m => compatible dl u && cfg_eqb (Node (upd dl u)) m
  | Node dl, None => negb (compatible dl u)
  | _, _ => false
  end.

Fixpoint assoc (k : string) (l : list (string * float)) : option float :=
  match l with [] => None | (k', v) :: r => if String.eqb k k' then Some v else assoc k r end.

(* (leaves, enumeration strings, implementation: None = NotImplementedError, Some (numeric constants by name, exported key list)) *)
Definition consts_case_ok (c : leaves float * enums * option (list (string * float) * list string)) : bool :=
  let '(lv, en, impl) := c in
  match impl with
  | None => rejected en
  | Some (vals, keys) =>
      negb (rejected en)
      && str_list_eqb (exported en) keys
      && forallb (fun kv => match assoc (fst kv) (derived_table Fops lv) with
                            | Some m => Fclose 0x1p-40 0x0p0 m (snd kv) || (Fnan m && Fnan (snd kv))
                            | None => false
                            end) vals
  end.
