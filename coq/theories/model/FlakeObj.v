(* Object-level model of the Snowflake's random-stream bookkeeping (snowflake.py: seed setter, configPath setter, H_int /
   H_shelf getters, _buildHeatflowMatrices, _buildShelfHeatFlow, 'random' recording, run) and of
   Snowfall's repetition loop (snowfall.py).  A generator is identified by (seed, cursor): the stream of
   numpy's default_rng(seed) is a fixed function of the seed, and a cursor counts the variates consumed.
   The outcome of a run is determined by WHICH variates it reads: the provenance of the shelf vector and
   of the first dice value. *)
From Coq Require Import ZArith List Bool.
Import ListNotations.
Local Open Scope Z_scope.

Record gen := MkGen { g_seed : Z; g_cur : Z }.

Record obj := MkObj {
  o_seed : Z;                 (* _seed *)
  o_rng : gen;                (* _rng *)
  o_seedUsed : Z;             (* _seedUsed *)
  o_shelf : option gen;       (* where the cached shelf vector was drawn from (None: no random variability) *)
  o_built : bool;             (* H_int / H_ext built *)
  o_N : Z;                    (* number of vials *)
  o_var : bool;               (* s_sigma_rel > 0 on a flat shelf: the shelf vector is random *)
  o_stale : bool              (* the configuration was re-declared (configPath setter) since the shelf vector was built: _H_shelf is None *)
}.

(* _buildShelfHeatFlow *)
Definition build_shelf (o : obj) : obj :=
  if o_var o
  then MkObj (o_seed o) (MkGen (g_seed (o_rng o)) (g_cur (o_rng o) + o_N o)) (o_seed o) (Some (o_rng o)) (o_built o) (o_N o) (o_var o) false
  else MkObj (o_seed o) (o_rng o) (o_seed o) None (o_built o) (o_N o) (o_var o) false.
(* H_shelf getter: rebuild only when the seed changed since the last build (the vector exists after construction) *)
Definition read_hshelf (o : obj) : obj := if (o_seed o =? o_seedUsed o) && negb (o_stale o) then o else build_shelf o.
(* seed setter *)
Definition set_seed (s : Z) (o : obj) : obj :=
  read_hshelf (MkObj s (MkGen s 0) (o_seedUsed o) (o_shelf o) (o_built o) (o_N o) (o_var o) (o_stale o)).
(* _buildHeatflowMatrices / H_int getter *)
Definition build_matrices (o : obj) : obj :=
  build_shelf (MkObj (o_seed o) (o_rng o) (o_seedUsed o) (o_shelf o) true (o_N o) (o_var o) (o_stale o)).
Definition read_hint (o : obj) : obj := if o_built o then o else build_matrices o.
(* constructor: seed setter on a blank object whose shelf vector does not exist yet *)
Definition new_obj (seed N : Z) (var : bool) : obj :=
  build_shelf (MkObj seed (MkGen seed 0) seed None false N var false).
(* a 'random' recording request draws k variates from the object's generator *)
Definition record_random (k : Z) (o : obj) : obj :=
  MkObj (o_seed o) (MkGen (g_seed (o_rng o)) (g_cur (o_rng o) + k)) (o_seedUsed o) (o_shelf o) (o_built o) (o_N o) (o_var o) (o_stale o).
(* configPath setter (as repaired by 3d89d5a): the constants are replaced and the cached matrices and shelf vector are dropped; the batch size and
   the variability flag (constructor arguments) are not part of the configuration file *)
Definition set_config (o : obj) : obj :=
  MkObj (o_seed o) (o_rng o) (o_seedUsed o) (o_shelf o) false (o_N o) (o_var o) true.

(* what a run reads: (shelf provenance, generator position of its first dice value); it then consumes d dice *)
Definition outcome : Type := option gen * gen.

(* run() as repaired: matrices first, then restart the generator from the stored seed and draw the shelf once *)
Definition run (d : Z) (o : obj) : obj * outcome :=
  let o1 := read_hint o in
  let o2 := build_shelf (MkObj (o_seed o1) (MkGen (o_seed o1) 0) (o_seedUsed o1) (o_shelf o1) (o_built o1) (o_N o1) (o_var o1) (o_stale o1)) in
  (MkObj (o_seed o2) (MkGen (g_seed (o_rng o2)) (g_cur (o_rng o2) + d)) (o_seedUsed o2) (o_shelf o2) (o_built o2) (o_N o2) (o_var o2) (o_stale o2),
   (o_shelf o2, o_rng o2)).

(* run() of the pinned revision: uses the generator and the cached shelf vector as it finds them *)
Definition run_pinned (d : Z) (o : obj) : obj * outcome :=
  let o2 := read_hshelf (read_hint o) in
  (MkObj (o_seed o2) (MkGen (g_seed (o_rng o2)) (g_cur (o_rng o2) + d)) (o_seedUsed o2) (o_shelf o2) (o_built o2) (o_N o2) (o_var o2) (o_stale o2),
   (o_shelf o2, o_rng o2)).

Inductive op := SetSeed (s : Z) | ReadHshelf | ReadHint | BuildMatrices | RecordRandom (k : Z) | Run (d : Z) | SetConfig.

Definition apply_op (runf : Z -> obj -> obj * outcome) (o : obj) (p : op) : obj * option outcome :=
  match p with
  | SetSeed s => (set_seed s o, None)
  | ReadHshelf => (read_hshelf o, None)
  | ReadHint => (read_hint o, None)
  | BuildMatrices => (build_matrices o, None)
  | RecordRandom k => (record_random k o, None)
  | Run d => let '(o', r) := runf d o in (o', Some r)
  | SetConfig => (set_config o, None)
  end.
(* the outcomes of all runs of a history, in order *)
Fixpoint history (runf : Z -> obj -> obj * outcome) (o : obj) (h : list op) : obj * list outcome :=
  match h with
  | [] => (o, [])
  | p :: r => let '(o1, x) := apply_op runf o p in
              let '(o2, xs) := history runf o1 r in
              (o2, match x with Some y => y :: xs | None => xs end)
  end.

(* what configuration and seed alone determine *)
Definition expected (seed N : Z) (var : bool) : outcome :=
  (if var then Some (MkGen seed 0) else None, MkGen seed (if var then N else 0)).

(* Snowfall: a template with pre-built matrices; every worker processes a chunk of seeds sequentially on its
   own copy of the template (sequential mode: one chunk on the template itself); result keyed by seed *)
Fixpoint run_chunk (runf : Z -> obj -> obj * outcome) (dice : Z -> Z) (o : obj) (seeds : list Z) : list (Z * outcome) :=
  match seeds with
  | [] => []
  | s :: r => let '(o1, x) := runf (dice s) (set_seed s o) in (s, x) :: run_chunk runf dice o1 r
  end.
Definition snowfall (runf : Z -> obj -> obj * outcome) (dice : Z -> Z) (template : obj) (chunks : list (list Z)) : list (Z * outcome) :=
  flat_map (run_chunk runf dice template) chunks.
Definition template (seed N : Z) (var : bool) : obj := build_matrices (new_obj seed N var).
