(* Model of the explicit time loop of Snowflake.run (src/ethz_snow/snowflake.py), generic in
   the number type.  One step = heat flows from the old state, solidifying update, liquid update,
   nucleation jump (indirect eq. 9 / direct eq. 12).  The nucleation *decisions* (uniform draw
   below the step probability, or the controlled-nucleation step) enter as booleans: the
   probability law itself needs a real power and lives in proofs/NucleationLaw.v. *)
From Coq Require Import ZArith List Bool.
From Snow Require Import Num.
Import ListNotations.

Section Flake.
  Context {A : Type} (o : NumOps A).
  Local Notation "x + y" := (nadd o x y) : num_scope.
  Local Notation "x - y" := (nsub o x y) : num_scope.
  Local Notation "x * y" := (nmul o x y) : num_scope.
  Local Notation "x / y" := (ndiv o x y) : num_scope.
  Local Notation "- x" := (nopp o x) : num_scope.
  Local Open Scope num_scope.
  Let one : A := nofZ o 1.
  Let zero : A := nofZ o 0.
  Let two : A := nofZ o 2.
  Let four : A := nofZ o 4.

  Record params := MkParams {
    p_dt : A; p_hl : A; p_alpha : A; p_beta_sol : A; p_depr : A; p_mass : A;
    p_cp_s : A; p_cp_w : A; p_cp_i : A; p_cp_sol : A; p_sf : A;
    p_Teq : A; p_Teql : A; p_kintA : A; p_thr : A; p_direct : bool
  }.
  Variable P : params.

  (* heat flow into vial i:  (H_int @ T)_i + H_ext_i (T_ext - T_i) + H_shelf_i (T_shelf - T_i) *)
  Definition qint (T : list A) (nb : list nat) (Ti : A) : A :=
    nsum o (map (fun j => p_kintA P * nth j T zero) nb)
    + (nofZ o (- Z.of_nat (length nb))%Z * p_kintA P) * Ti.
  Definition heat (T : list A) (nb : list nat) (Ti hext hsh Text Tshelf : A) : A :=
    qint T nb Ti + hext * (Text - Ti) + hsh * (Tshelf - Ti).

  Definition on_curve (s : A) : A := p_Teq P - p_depr P * (one / (one - s)).

  (* solidifying vial *)
  Definition cp_sigma (s : A) : A :=
    p_sf P * p_cp_s P + (one - p_sf P) * (s * (p_cp_i P - p_cp_w P) + p_cp_w P).
  Definition dsigma (q s : A) : A :=
    let beta := p_depr P * p_mass P * cp_sigma s in
    q / (p_alpha P - beta / ((one - s) * (one - s))) * p_dt P.
  Definition solid_step (q s : A) : A * A :=      (* new (T, sigma) *)
    let s' := s + dsigma q s in (on_curve s', s').

  (* liquid vial *)
  Definition liquid_T (q T : A) : A := T + q / p_hl P * p_dt P.
  Definition sigma_init (Tstar : A) : A :=
    if p_direct P then
      let gamma := - p_alpha P / p_mass P / p_cp_sol P in
      let B := p_Teq P - Tstar + gamma in
      let C := Tstar - p_Teq P + p_depr P in
      (- B + nsqrt o (B * B + four * gamma * C)) / (- two * gamma)
    else
      let q0 := (p_Teql P - Tstar) * p_cp_sol P * p_mass P in
      - q0 / (p_alpha P - p_beta_sol P).
  Definition candidate (s Tstar : A) : bool := neqb o s zero && nltb o Tstar (p_Teql P).

  (* one vial, one step; [dec] = the dice decision of this vial in this step *)
  Inductive kind := KSolid | KLiquid | KJump.
  Definition vial_step (q T s : A) (dec : bool) : A * A * kind :=
    if neqb o s zero then
      let Tstar := liquid_T q T in
      if candidate s Tstar && dec then
        let s' := sigma_init Tstar in (on_curve s', s', KJump)
      else (Tstar, zero, KLiquid)
    else let '(T', s') := solid_step q s in (T', s', KSolid).

  (* statistics of one vial *)
  Record vstat := MkStat { st_tnuc : option A; st_Tnuc : option A; st_tsol : option A }.
  Definition stat0 : vstat := MkStat None None None.

  Record vstate := MkV { vT : A; vS : A; vst : vstat }.

  (* per-vial constant data: neighbours, H_ext, H_shelf *)
  Record vconst := MkC { c_nb : list nat; c_hext : A; c_hsh : A }.

  (* time of step k *)
  Definition tk (k : Z) : A := nofZ o k * p_dt P.

  (* bookkeeping of one vial for one step, given its net heat flow q *)
  Definition vial_update_q (k : Z) (q : A) (v : vstate) (dec : bool) : vstate :=
    (* t_solidification is written before the update of this step, for already solid vials *)
    let st1 :=
      if neqb o (vS v) zero then vst v else
      match st_tsol (vst v), st_tnuc (vst v) with
      | None, Some tn => if nltb o (p_thr P) (vS v)
                         then MkStat (st_tnuc (vst v)) (st_Tnuc (vst v)) (Some (tk k - tn))
                         else vst v
      | _, _ => vst v
      end in
    let '(T', s', kd) := vial_step q (vT v) (vS v) dec in
    let st2 := match kd with
               | KJump => MkStat (Some (tk k + p_dt P)) (Some (liquid_T q (vT v))) (st_tsol st1)
               | _ => st1
               end in
    MkV T' s' st2.

  Definition vial_update (Tall : list A) (k : Z) (Text Tshelf : A) (c : vconst) (v : vstate) (dec : bool) : vstate :=
    vial_update_q k (heat Tall (c_nb c) (vT v) (c_hext c) (c_hsh c) Text Tshelf) v dec.

  Fixpoint map3 {X Y Z W} (f : X -> Y -> Z -> W) (l1 : list X) (l2 : list Y) (l3 : list Z) : list W :=
    match l1, l2, l3 with
    | a :: r1, b :: r2, c :: r3 => f a b c :: map3 f r1 r2 r3
    | _, _, _ => []
    end.

  Definition step (cs : list vconst) (k : Z) (Tshelf : A) (decs : list bool) (vs : list vstate) : list vstate :=
    let Tall := map vT vs in
    map3 (fun c v d => vial_update Tall k Tshelf Tshelf c v d) cs vs decs.

  (* the whole run: shelf profile (one value per step), decisions per step; returns the list of
     states at the START of every step (what storeStates='all' records) and the final state *)
  Fixpoint run_from (cs : list vconst) (k : Z) (shelf : list A) (decs : list (list bool)) (vs : list vstate)
    : list (list vstate) * list vstate :=
    match shelf, decs with
    | Ts :: shelf', d :: decs' =>
        let vs' := step cs k Ts d vs in
        let '(hist, fin) := run_from cs (k + 1)%Z shelf' decs' vs' in (vs :: hist, fin)
    | _, _ => ([], vs)
    end.
  Definition init (n : nat) (T0 : A) : list vstate := repeat (MkV T0 zero stat0) n.
End Flake.
Arguments MkParams {A}. Arguments MkC {A}. Arguments MkV {A}. Arguments MkStat {A}.
