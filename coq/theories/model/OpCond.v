(* Model of OperatingConditions.tempProfile / _simpleCool / holding setter / cnt
   (src/ethz_snow/operatingConditions.py), generic in the number type. *)
From Coq Require Import ZArith List Bool.
From Snow Require Import Num.
Import ListNotations.

Section OpCond.
  Context {A : Type} (o : NumOps A).
  Local Notation "x + y" := (nadd o x y) : num_scope.
  Local Notation "x - y" := (nsub o x y) : num_scope.
  Local Notation "x * y" := (nmul o x y) : num_scope.
  Local Notation "x / y" := (ndiv o x y) : num_scope.
  Local Open Scope num_scope.

  Record hold := MkHold { h_temp : A; h_dur : A }.

  (* 0, 1, ..., n-1 as numbers of the instance *)
  Fixpoint iota_from (n : nat) (s : Z) : list Z :=
    match n with O => [] | S k => s :: iota_from k (s + 1)%Z end.
  Definition iota (n : nat) : list Z := iota_from n 0%Z.

  (* _simpleCool: t_vec = np.arange(0, t_end, dt) has ceil(t_end/dt) entries k*dt; T = Tstart - t_vec*cr *)
  Definition ramp (Ts Te cr dt : A) : list A :=
    let tend := (Ts - Te) / cr in
    map (fun k => Ts - (nofZ o k * dt) * cr) (iota (Z.to_nat (nceil o (tend / dt)))).

  (* [T_hold] * int(ceil((duration - t_hold % dt)/dt));  a negative count gives the empty list *)
  Definition plateau (Ts Th cr dt dur : A) : list A :=
    let thold := (Ts - Th) / cr in
    repeat Th (Z.to_nat (nceil o ((dur - nfmod o thold dt) / dt))).

  Fixpoint segments (Ts cr dt : A) (hs : list hold) : list A :=
    match hs with
    | [] => []
    | h :: r => ramp Ts (h_temp h) cr dt ++ plateau Ts (h_temp h) cr dt (h_dur h)
                ++ segments (h_temp h) cr dt r
    end.

  (* sorted(value, key=temp, reverse=True): stable, descending *)
  Fixpoint insert_desc (h : hold) (l : list hold) : list hold :=
    match l with
    | [] => [h]
    | x :: r => if nleb o (h_temp x) (h_temp h) then h :: l else x :: insert_desc h r
    end.
  Definition sort_holds (l : list hold) : list hold := fold_right insert_desc [] l.

  Definition nsamples (ttot dt : A) : Z := (nceil o (ttot / dt)%num + 1)%Z.

  (* the raw concatenation before truncation *)
  Definition raw_profile (start endT cr dt ttot : A) (holds : list hold) : list A :=
    segments start cr dt (sort_holds holds ++ [MkHold endT ttot]).

  (* tempProfile(dt): truncated to n samples and (repair F2) padded with the end temperature *)
  Definition profile (start endT cr dt ttot : A) (holds : list hold) : list A :=
    let n := Z.to_nat (nsamples ttot dt) in
    let t := firstn n (raw_profile start endT cr dt ttot holds) in
    t ++ repeat endT (n - length t).

  (* cnt: last index of the 1 s profile with T >= cnTemp (np.argmax on the reversed vector:
     index len-1 when no entry qualifies) *)
  Fixpoint last_ge_from (cn : A) (l : list A) (i : Z) (acc : option Z) : option Z :=
    match l with
    | [] => acc
    | x :: r => last_ge_from cn r (i + 1)%Z (if nleb o cn x then Some i else acc)
    end.
  Definition cnt (cn : A) (prof1 : list A) : Z :=
    match last_ge_from cn prof1 0%Z None with
    | Some i => i
    | None => (Z.of_nat (length prof1) - 1)%Z
    end.
  (* k_CN: first grid index k with k*dt >= cnt, if any within the N steps *)
  Fixpoint first_step_ge (dt : A) (c : Z) (k : Z) (fuel : nat) : option Z :=
    match fuel with
    | O => None
    | S f => if nleb o (nofZ o c) (nofZ o k * dt) then Some k else first_step_ge dt c (k + 1)%Z f
    end.
End OpCond.
Arguments MkHold {A} _ _.
Arguments h_temp {A} _. Arguments h_dur {A} _.
