(* Loop skeleton of the Snowing runs (snowing.py _run_0D/_run_1D/_run_2D): first-crossing searches
   (stochastic hazard integral, controlled nucleation, 90 percent frozen), the two sparse save
   buffers and the assembly of the reported histories.  Pure nat / list arithmetic. *)
From Coq Require Import ZArith List Bool Arith.
Import ListNotations.

(* the first index i in [from, from + fuel) with p i = true: `for i ...: if p: break` *)
Fixpoint find_first (p : nat -> bool) (from fuel : nat) : option nat :=
  match fuel with
  | O => None
  | S f => if p from then Some from else find_first p (S from) f
  end.

(* s, s+1, ..., s+len-1 (len is only fuel; the values are binary integers so that runs with 10^4 .. 10^5 steps stay cheap) *)
Fixpoint zseq (s : Z) (len : nat) : list Z :=
  match len with O => [] | S k => s :: zseq (s + 1)%Z k end.

Definition cdivz (a b : Z) : Z := ((a + b - 1) / b)%Z.       (* np.ceil(a / b) for a >= 0, b > 0 *)
Definition NSAVE : Z := 10000%Z.                               (* N_save_cool = N_save_solid = 10000 *)

(* steps of a loop of length n that are saved with stride s:  i mod s = 0 *)
Definition saved (s : Z) (n : Z) : list Z := filter (fun i => (i mod s =? 0)%Z) (zseq 0%Z (Z.to_nat n)).

(* one reported row = (global step index whose time is reported, kind) *)
Inductive rowkind := RCool | RNuc | RSolid.

(* the rows of the reported histories of a spatial run:
   Nt_exp = ceil(t_tot/dt)+1 expected steps, L = length of the shelf profile, i_end = nucleation step *)
Definition report_rows (Nt_exp L i_end : Z) : list (Z * rowkind) :=
  let s1 := cdivz Nt_exp NSAVE in
  let cool := map (fun i => (i, RCool)) (saved s1 (i_end + 1)) in                  (* loop ran i = 0..i_end *)
  let s2 := cdivz (Nt_exp - i_end) NSAVE in
  let sol := map (fun j => ((i_end + j)%Z, RSolid)) (saved s2 (L - i_end)) in      (* enumerate(T_shelf_cool[i_end:]) *)
  cool ++ [(i_end, RNuc)] ++ removelast sol.                                        (* [: i_save_end+1] and [: i_save-1] *)

(* the four reported arrays are maps over the same row list *)
Definition report {X} (field : Z * rowkind -> X) (Nt_exp L i_end : Z) : list X :=
  map field (report_rows Nt_exp L i_end).

(* a whole run: nucleation search over the cooling loop, then the 90 percent search over the rest;
   None = the run raises ("prolong process time") *)
Definition run_outline (L : nat) (nucleates : nat -> bool) (frozen : nat -> nat -> bool) : option (nat * nat) :=
  match find_first nucleates 0 L with
  | None => None
  | Some i_end =>
      match find_first (frozen i_end) 0 (L - i_end) with
      | None => None
      | Some i_sol => Some (i_end, i_sol)
      end
  end.
