(* Float instance of the 1D / 0D Snowing step models + comparison helpers (correspondence only). *)
From Coq Require Import ZArith List Bool PrimFloat.
From Snow Require Import Num NumF OpCondF Sn1D.
Import ListNotations.

Definition close9 := all_close 0x1p-30 0x1p-33.

(* cooling step: (T_k [K], T_shelf [K], time [s], vapour flux N_w at the top, T_{k+1} [K]) *)
Definition cool_ok (P : @p1d float) (visf : bool) (ts td dHe : float)
  (r : list float * float * float * float * list float) : bool :=
  let '(T, Tsh, t, flux, T') := r in
  close9 (cool_step Fops P T Tsh (q_evap Fops visf t ts td flux dHe)) T'.
(* nucleation: (T before, T after, ice fraction after) *)
Definition nuc_ok (P : @p1d float) (r : list float * list float * list float) : bool :=
  let '(T, T', W') := r in
  close9 (fst (nuc_step Fops P T)) T' && all_close 0x1p-30 0x1p-40 (snd (nuc_step Fops P T)) W'.
(* solidification step: (T, w, T_shelf, time, flux, T', w') *)
Definition solid_ok (P : @p1d float) (visf : bool) (ts td dHe : float)
  (r : list float * list float * float * float * float * list float * list float) : bool :=
  let '(T, W, Tsh, t, flux, T', W') := r in
  let '(mT, mW) := solid_step Fops P T W Tsh (q_evap Fops visf t ts td flux dHe) in
  close9 mT T' && all_close 0x1p-30 0x1p-40 mW W'.

Definition sn1d_case_ok
  (c : @p1d float * bool * float * float * float
       * list (list float * float * float * float * list float)
       * list (list float * list float * list float)
       * list (list float * list float * float * float * float * list float * list float)) : bool :=
  let '(P, visf, ts, td, dHe, cools, nucs, solids) := c in
  forallb (cool_ok P visf ts td dHe) cools && forallb (nuc_ok P) nucs && forallb (solid_ok P visf ts td dHe) solids.

(* 0D: (area, cooling pairs (T, Tsh, T'), nucleation (T, T', w'), solid pairs (T, w, Tsh, T', w')) *)
Definition sn0d_case_ok
  (c : @p1d float * float * list (float * float * float) * list (float * float * float * float) * list (float * float * float * float * float)) : bool :=
  let '(P, area, cools, nucs, solids) := c in
  forallb (fun r => let '(T, Tsh, T') := r in Fclose 0x1p-30 0x1p-33 (cool0 Fops P area Tsh T) T') cools
  && forallb (fun r => let '(Tn, Tsh, T', W') := r in
                let '(Te, w) := nuc0 Fops P Tn in
                let '(mT, mW) := solid0 Fops P area Tsh Te w in Fclose 0x1p-30 0x1p-33 mT T' && Fclose 0x1p-30 0x1p-40 mW W') nucs
  && forallb (fun r => let '(T, w, Tsh, T', W') := r in
                let '(mT, mW) := solid0 Fops P area Tsh T w in Fclose 0x1p-30 0x1p-33 mT T' && Fclose 0x1p-30 0x1p-40 mW W') solids.
