(* Model of the repetition study of snowing.py (Snowing.run with Nrep > 1): every repetition is the pure
   function f(seed) of its seed (each run re-seeds numpy: seed 2024 for the kinetic parameter, then the
   repetition's seed for the uniform number); workers process chunks of seeds; the table lists the
   repetitions in seed order. *)
From Coq Require Import List Bool Arith.
From Snow Require Import Tables.
Import ListNotations.

Definition study {X} (f : nat -> X) (chunks : list (list nat)) : list (nat * X) :=
  flat_map (map (fun i => (i, f i))) chunks.
Fixpoint assoc {X} (k : nat) (l : list (nat * X)) : option X :=
  match l with [] => None | (k', v) :: r => if Nat.eqb k k' then Some v else assoc k r end.
(* DataFrame.from_dict(statsMultiple, orient="index") with statsMultiple = {i: r for i, r in enumerate(res)} *)
Definition results_table {X} (Nrep : nat) (res : list (nat * X)) : list (option X) :=
  map (fun i => assoc i res) (range Nrep).
