(* Model of the vial position groups (snowflake.py: getVialGroup, the group labels of
   to_frame's statistics and trajectory tables; snowfall.py: the group filter of the accessors).
   Groups are decided from the exposure count VIAL_EXT of model/Topology.v. *)
From Coq Require Import ZArith List Bool.
From Snow Require Import Topology.
Import ListNotations.
Local Open Scope Z_scope.

Inductive group := Corner | Edge | Side | Core | Center | All.
Inductive label := LCorner | LEdge | LSide | LCore | LNum (e : Z).   (* LNum: never relabelled *)

Definition flat (nz : Z) : Z := if nz =? 1 then 1 else 0.

(* Snowflake.getVialGroup for one group name: mask value of a vial with exposure e *)
Definition in_group (a : arrangement) (nz : Z) (g : group) (e : Z) : bool :=
  match a with
  | Square =>
      match g with
      | Corner => e =? 3 - flat nz
      | Edge => e =? 2 - flat nz
      | Side => e =? 1
      | Core | Center => e =? 0
      | All => true
      end
  | Hexagonal =>
      match g with
      | Corner => e =? 5 - flat nz
      | Edge | Side => (0 <? e) && (e <? 5 - flat nz)
      | Core | Center => e =? 0
      | All => true
      end
  end.
(* a list of group names: OR of the masks; 'all' short-circuits to all-true *)
Definition in_groups a nz (gs : list group) (e : Z) : bool := existsb (fun g => in_group a nz g e) gs.

(* pandas: df.loc[df.group == v, "group"] = lab  applied in sequence on an object column;
   an already written label never equals a number *)
Definition relabel (test : Z -> bool) (lab : label) (c : label) : label :=
  match c with LNum e => if test e then lab else c | _ => c end.

Definition label_stats (a : arrangement) (nz e : Z) : label :=
  match a with
  | Square =>
      relabel (fun v => v =? 0) LCore
        (relabel (fun v => v =? 1) LSide
           (relabel (fun v => v =? 2 - flat nz) LEdge
              (relabel (fun v => v =? 3 - flat nz) LCorner (LNum e))))
  | Hexagonal =>
      let mid v := (v =? 1) || (v =? 2) || (v =? 3) || (v =? 4 - flat nz) in
      relabel (fun v => v =? 0) LCore
        (relabel mid LSide (relabel mid LEdge (relabel (fun v => v =? 5 - flat nz) LCorner (LNum e))))
  end.

(* trajectory table: same recipe (snowflake.py to_frame, second half) *)
Definition label_traj (a : arrangement) (nz e : Z) : label :=
  match a with
  | Square =>
      relabel (fun v => v =? 0) LCore
        (relabel (fun v => v =? 1) LSide
           (relabel (fun v => v =? 2 - flat nz) LEdge
              (relabel (fun v => v =? 3 - flat nz) LCorner (LNum e))))
  | Hexagonal =>
      let mid v := (v =? 1) || (v =? 2) || (v =? 3) || (v =? 4 - flat nz) in
      relabel (fun v => v =? 0) LCore
        (relabel mid LSide (relabel mid LEdge (relabel (fun v => v =? 5 - flat nz) LCorner (LNum e))))
  end.

(* The position class of a vial (the meaning of the labels): 'side' is a synonym of 'edge'
   on a flat shelf and in hexagonal packing, a class of its own in a square pallet. *)
Inductive pclass := PCorner | PEdge | PSide | PCore.
Definition class_of_label (l : label) : option pclass :=
  match l with LCorner => Some PCorner | LEdge => Some PEdge | LSide => Some PSide
             | LCore => Some PCore | LNum _ => None end.
Definition group_class (a : arrangement) (nz : Z) (g : group) : option pclass :=
  match g with
  | Corner => Some PCorner
  | Edge => Some PEdge
  | Side => match a with Square => if nz =? 1 then Some PEdge else Some PSide | Hexagonal => Some PEdge end
  | Core | Center => Some PCore
  | All => None
  end.
Definition pclass_eqb (p q : pclass) : bool :=
  match p, q with PCorner, PCorner | PEdge, PEdge | PSide, PSide | PCore, PCore => true | _, _ => false end.

(* the class determined by the exposure count *)
Definition class_of_ext (a : arrangement) (nz e : Z) : option pclass :=
  match a with
  | Square =>
      if e =? 3 - flat nz then Some PCorner else if e =? 2 - flat nz then Some PEdge
      else if e =? 1 then Some PSide else if e =? 0 then Some PCore else None
  | Hexagonal =>
      if e =? 5 - flat nz then Some PCorner else if (0 <? e) && (e <? 5 - flat nz) then Some PEdge
      else if e =? 0 then Some PCore else None
  end.

(* for the correspondence check *)
Definition label_code (l : label) : Z :=
  match l with LCorner => 1 | LEdge => 2 | LSide => 3 | LCore => 4 | LNum _ => 0 end.
Definition group_of_code (c : Z) : group :=
  if c =? 1 then Corner else if c =? 2 then Edge else if c =? 3 then Side
  else if c =? 4 then Core else if c =? 5 then Center else All.
Definition mask_table a nx ny nz (gs : list Z) : list bool :=
  map (fun i => in_groups a nz (map group_of_code gs) (vial_ext a nx ny nz i))
      (zrange (Z.to_nat (nvials nx ny nz))).
Definition stats_labels a nx ny nz : list Z :=
  map (fun i => label_code (label_stats a nz (vial_ext a nx ny nz i))) (zrange (Z.to_nat (nvials nx ny nz))).
Definition traj_labels a nx ny nz : list Z :=
  map (fun i => label_code (label_traj a nz (vial_ext a nx ny nz i))) (zrange (Z.to_nat (nvials nx ny nz))).

(* ---- correspondence: one observed shape ------------------------------------------- *)
Fixpoint eqb_bools (l1 l2 : list bool) : bool :=
  match l1, l2 with
  | [], [] => true
  | a :: r1, b :: r2 => Bool.eqb a b && eqb_bools r1 r2
  | _, _ => false
  end.
Fixpoint eqb_zs (l1 l2 : list Z) : bool :=
  match l1, l2 with
  | [], [] => true
  | a :: r1, b :: r2 => (a =? b) && eqb_zs r1 r2
  | _, _ => false
  end.
(* Snowfall group filter of the accessors: df.vial.isin(where(getVialGroup([g]))) -- the vials the group query selects
   (before the repair it compared the statistics-table label literally with g, so 'side' selected nothing on a flat shelf) *)
Definition filter_vials a nx ny nz (g : Z) : list Z :=
  filter (fun i => in_groups a nz [group_of_code g] (vial_ext a nx ny nz i))
         (zrange (Z.to_nat (nvials nx ny nz))).
Definition c16_case_ok
  (c : arrangement * Z * Z * Z * list (list Z * list bool) * list Z * list Z * list (Z * list Z)) : bool :=
  let '(a, nx, ny, nz, masks, sl, tl, fl) := c in
  forallb (fun gm => eqb_bools (mask_table a nx ny nz (fst gm)) (snd gm)) masks
  && eqb_zs (stats_labels a nx ny nz) sl
  && eqb_zs (traj_labels a nx ny nz) tl
  && forallb (fun gf => eqb_zs (filter_vials a nx ny nz (fst gf)) (snd gf)) fl.
