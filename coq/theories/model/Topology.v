(* Model of Snowflake._buildInteractionMatrices (src/ethz_snow/snowflake.py):
   the diagonal patterns as entry predicates on Z indices, the interaction matrix
   entry IA i j, the per-vial internal count and the exposure vector.
   Executable; no proofs in this file. *)
From Coq Require Import ZArith List Bool.
Import ListNotations.
Local Open Scope Z_scope.

Inductive arrangement := Square | Hexagonal.

(* np.diag(p, k) + np.diag(p, -k): entry (i,j); for k = 0 both terms hit the main diagonal *)
Definition sym (p : Z -> Z) (k i j : Z) : Z :=
  (if j - i =? k then p i else 0) + (if i - j =? k then p j else 0).

(* dx_pattern[i] = 0 iff (i+1) % n_x == 0 *)
Definition dx_pat (nx : Z) (i : Z) : Z := if (i + 1) mod nx =? 0 then 0 else 1.

(* dy_pattern (square): entry j is deleted iff j = k - t for some t in [0,nx) and some
   k in idy_delete = { k in [0, bound) | (k+1) % (nx*ny) = 0 }.  k is then the last index
   of j's layer:  k = (j / (nx*ny) + 1) * nx*ny - 1.  [bound] is the stop of the python
   range that builds idy_delete. *)
Definition dy_deleted (nx ny bound j : Z) : bool :=
  let k := (j / (nx * ny) + 1) * (nx * ny) - 1 in
  (k - j <? nx) && (k <? bound).
Definition dy_bound (nx ny nz : Z) : Z := nx * (ny * nz - 1).
Definition dy_pat (nx ny nz j : Z) : Z :=
  if dy_deleted nx ny (dy_bound nx ny nz) j then 0 else 1.

(* hexagonal, one layer, local indices *)
Definition hex_center (j : Z) : Z := 1.
Definition hex_upper (nx j : Z) : Z :=
  if Z.odd (j / nx) && negb (j mod nx =? nx - 1) then 1 else 0.
Definition hex_lower (nx j : Z) : Z :=
  if Z.even (j / nx) && negb (j mod nx =? 0) then 1 else 0.
Definition hex_layer (nx ny i j : Z) : Z :=
  if 0 <? nx * (ny - 1) then
    sym hex_center nx i j + sym (hex_upper nx) (nx + 1) i j + sym (hex_lower nx) (nx - 1) i j
  else 0.

Definition DX (nx i j : Z) : Z := sym (dx_pat nx) 1 i j.
Definition DY (a : arrangement) (nx ny nz i j : Z) : Z :=
  match a with
  | Square => sym (dy_pat nx ny nz) nx i j
  | Hexagonal =>
      let L := nx * ny in
      if i / L =? j / L then hex_layer nx ny (i mod L) (j mod L) else 0
  end.
Definition DZ (nx ny nz i j : Z) : Z :=
  if 1 <? nz then sym (fun _ => 1) (nx * ny) i j else 0.

(* off-diagonal and diagonal entries of DX + DY + DZ *)
Definition adj (a : arrangement) (nx ny nz i j : Z) : Z :=
  DX nx i j + DY a nx ny nz i j + DZ nx ny nz i j.

Fixpoint zrange (n : nat) : list Z :=
  match n with O => [] | S k => zrange k ++ [Z.of_nat k] end.
Definition zsum (l : list Z) : Z := fold_right Z.add 0 l.

Definition nvials (nx ny nz : Z) : Z := nx * ny * nz.
Definition vial_int (a : arrangement) (nx ny nz i : Z) : Z :=
  zsum (map (adj a nx ny nz i) (zrange (Z.to_nat (nvials nx ny nz)))).
Definition max_int (a : arrangement) (nz : Z) : Z :=
  (match a with Square => 4 | Hexagonal => 6 end) + (if 1 <? nz then 2 else 0).
Definition vial_ext (a : arrangement) (nx ny nz i : Z) : Z :=
  max_int a nz - vial_int a nx ny nz i.
(* interactionMatrix = DX + DY + DZ - diag(rowsum) *)
Definition IA (a : arrangement) (nx ny nz i j : Z) : Z :=
  adj a nx ny nz i j - (if i =? j then vial_int a nx ny nz i else 0).

(* ---- the geometric specification ------------------------------------------------ *)
Definition cx (nx i : Z) := i mod nx.
Definition cy (nx ny i : Z) := (i / nx) mod ny.
Definition cz (nx ny i : Z) := i / (nx * ny).

Definition nbr_coords (a : arrangement) (x y z x' y' z' : Z) : bool :=
  ((z =? z') && (y =? y') && (Z.abs (x - x') =? 1))
  || ((z =? z') && (Z.abs (y - y') =? 1) &&
        match a with
        | Square => x =? x'
        | Hexagonal =>
            (* the vial in the even row at column xe touches columns xe-1 and xe of the odd rows *)
            let xe := if Z.even y then x else x' in
            let xo := if Z.even y then x' else x in
            (xo =? xe) || (xo =? xe - 1)
        end)
  || ((x =? x') && (y =? y') && (Z.abs (z - z') =? 1)).

Definition nbr (a : arrangement) (nx ny nz i j : Z) : bool :=
  nbr_coords a (cx nx i) (cy nx ny i) (cz nx ny i) (cx nx j) (cy nx ny j) (cz nx ny j).

Definition nbr_count (a : arrangement) (nx ny nz i : Z) : Z :=
  zsum (map (fun j => if nbr a nx ny nz i j then 1 else 0) (zrange (Z.to_nat (nvials nx ny nz)))).

(* full tables, for the correspondence check *)
Definition adj_table a nx ny nz : list (list Z) :=
  let r := zrange (Z.to_nat (nvials nx ny nz)) in map (fun i => map (IA a nx ny nz i) r) r.
Definition ext_table a nx ny nz : list Z :=
  map (vial_ext a nx ny nz) (zrange (Z.to_nat (nvials nx ny nz))).
Definition spec_table a nx ny nz : list (list Z) :=
  let r := zrange (Z.to_nat (nvials nx ny nz)) in
  map (fun i => map (fun j => if i =? j then - nbr_count a nx ny nz i
                              else if nbr a nx ny nz i j then 1 else 0) r) r.

(* the neighbours of vial i as list positions (used by the Snowflake step model) *)
Definition nbr_list a nx ny nz (i : Z) : list nat :=
  map Z.to_nat (filter (fun j => nbr a nx ny nz i j) (zrange (Z.to_nat (nvials nx ny nz)))).

(* ---- helpers for the correspondence check --------------------------------------- *)
Definition row_nonzeros a nx ny nz (i : Z) : list (Z * Z) :=
  filter (fun p => negb (snd p =? 0))
         (map (fun j => (j, IA a nx ny nz i j)) (zrange (Z.to_nat (nvials nx ny nz)))).
Fixpoint eqb_zz (l1 l2 : list (Z * Z)) : bool :=
  match l1, l2 with
  | [], [] => true
  | (a, b) :: r1, (c, d) :: r2 => (a =? c) && (b =? d) && eqb_zz r1 r2
  | _, _ => false
  end.
(* one observed row of the implementation: vial i, its non-zero matrix entries, its exposure *)
Definition row_ok a nx ny nz (r : Z * list (Z * Z) * Z) : bool :=
  let '(i, nzs, e) := r in
  eqb_zz (row_nonzeros a nx ny nz i) nzs && (vial_ext a nx ny nz i =? e).
Definition case_ok (c : arrangement * Z * Z * Z * list (Z * list (Z * Z) * Z)) : bool :=
  let '(a, nx, ny, nz, rows) := c in forallb (row_ok a nx ny nz) rows.
Fixpoint bad_cases_from {A} (ok : A -> bool) (n : nat) (l : list A) : list nat :=
  match l with
  | [] => []
  | c :: r => if ok c then bad_cases_from ok (S n) r else n :: bad_cases_from ok (S n) r
  end.
Definition bad_cases {A} (ok : A -> bool) (l : list A) : list nat := bad_cases_from ok 0 l.
