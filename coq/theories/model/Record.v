(* Model of the state-recording request of Snowflake.__init__ / _interpretStorageString. *)
From Coq Require Import ZArith List Bool String Ascii PrimFloat.
From Snow Require Import Num NumF Topology Groups.
Import ListNotations.
Local Open Scope string_scope.
Local Open Scope Z_scope.

Fixpoint contains (pat s : string) : bool :=
  String.prefix pat s || match s with EmptyString => false | String _ r => contains pat r end.

Definition is_digit (c : ascii) : bool := let n := nat_of_ascii c in (48 <=? n)%nat && (n <=? 57)%nat.
(* re.findall(r"\d+", s): maximal digit runs as numbers *)
Fixpoint digit_runs_aux (s : string) (cur : option Z) : list Z :=
  match s with
  | EmptyString => match cur with Some v => [v] | None => [] end
  | String c r =>
      if is_digit c then
        let d := Z.of_nat (nat_of_ascii c) - 48 in
        digit_runs_aux r (Some (match cur with Some v => 10 * v + d | None => d end))
      else match cur with Some v => v :: digit_runs_aux r None | None => digit_runs_aux r None end
  end.
Definition digit_runs (s : string) : list Z := digit_runs_aux s None.

Definition group_names : list (string * group) :=
  [("corner", Corner); ("edge", Edge); ("core", Core); ("side", Side); ("all", All); ("center", Center)]%string.
Definition first_group (s : string) : option group :=
  match filter (fun ng => contains (fst ng) s) group_names with
  | [] => None
  | ng :: _ => Some (snd ng)
  end.

Inductive res (T : Type) := Ok (x : T) | Err.
Arguments Ok {T} _. Arguments Err {T}.

(* indices (ascending) of the true entries *)
Fixpoint where_true (m : list bool) (i : Z) : list Z :=
  match m with [] => [] | b :: r => if b then i :: where_true r (i + 1) else where_true r (i + 1) end.
Definition mask_of (N : Z) (sel : list Z) : list bool :=
  map (fun i => existsb (Z.eqb i) sel) (zrange (Z.to_nat N)).

(* every step-th element starting with the first: I_candidates[np.arange(0, len, step)] *)
Fixpoint every (step : nat) (skip : nat) (l : list Z) : list Z :=
  match l with
  | [] => []
  | x :: r => match skip with O => x :: every step (step - 1) r | S k => every step k r end
  end.
Definition cdiv (a b : Z) : Z := (a + b - 1) / b.      (* ceil(a / b) for a >= 0, b > 0 *)

Section Interp.
  Variable N : Z.
  Variable gmask : group -> list bool.           (* getVialGroup *)
  Variable choice : list Z -> Z -> list Z.       (* rng.choice(candidates, size, replace=False); Err when size > len *)

  Definition default_count : Z := F_ceil (PrimFloat.mul 0x1.999999999999ap-4 (F_ofZ N)).   (* int(np.ceil(0.1 * N)) *)

  Definition interp (s : string) : res (list bool) :=
    let g := first_group s in
    let r := contains "random" s in
    let u := contains "uniform" s in
    if (match g with None => true | Some _ => false end) && negb (r || u) then Err
    else
        let base := match g with Some g => gmask g | None => map (fun _ => true) (zrange (Z.to_nat N)) end in
        if r || u then
          match (match digit_runs s with [] => Ok default_count | [k] => Ok k | _ => Err end) with
          | Err => Err
          | Ok many =>
              let cands := where_true base 0 in
              if r then
                if Z.of_nat (List.length cands) <? many then Err else Ok (mask_of N (choice cands many))
              else
                if many =? 0 then Err
                else let step := Z.to_nat (cdiv (Z.of_nat (List.length cands)) many) in
                     (* np.arange(0, 0, 0) raises: an empty candidate set cannot be sub-sampled *)
                     if (step =? 0)%nat then Err else Ok (mask_of N (every step 0 cands))
          end
        else Ok base.

  Fixpoint or_masks (a b : list bool) : list bool :=
    match a, b with x :: r, y :: s => (x || y) :: or_masks r s | _, _ => [] end.
  Fixpoint interp_all (l : list string) : res (list bool) :=
    match l with
    | [] => Ok (map (fun _ => false) (zrange (Z.to_nat N)))      (* np.logical_or.reduce of one mask at least; [] handled by caller *)
    | [s] => interp s
    | s :: r => match interp s, interp_all r with Ok a, Ok b => Ok (or_masks a b) | _, _ => Err end
    end.

  Definition by_index (l : list Z) : res (list bool) :=
    if existsb (fun i => (N - 1 <? i) || (i <? 0)) l then Err else Ok (mask_of N l).
End Interp.

(* state-matrix layout: temperatures of the recorded vials in index order, then their ice fractions *)
Definition select {T} (m : list bool) (l : list T) : list T :=
  map snd (filter fst (combine m l)).
Definition x_column {T} (m : list bool) (Tv Sv : list T) : list T := select m Tv ++ select m Sv.
