(* Float instance of the operating-conditions model + comparison helpers (correspondence only). *)
From Coq Require Import ZArith List Bool PrimFloat.
From Snow Require Import Num NumF OpCond Topology.
Import ListNotations.

Fixpoint all_close (rtol atol : float) (l1 l2 : list float) : bool :=
  match l1, l2 with
  | [], [] => true
  | a :: r1, b :: r2 => Fclose rtol atol a b && all_close rtol atol r1 r2
  | _, _ => false
  end.

Definition mk_holds (l : list (float * float)) : list (@hold float) :=
  map (fun p => MkHold (fst p) (snd p)) l.

(* (start, end, rate, dt, t_tot, holds as listed, implementation's tempProfile(dt)) *)
Definition c05_case_ok (c : float * float * float * float * float * list (float * float) * list float) : bool :=
  let '(st, en, cr, dt, ttl, hs, impl) := c in
  all_close 0x1p-30 0x1p-36 (profile Fops st en cr dt ttl (mk_holds hs)) impl.

(* (start, end, rate, t_tot, holds, cnTemp, implementation's cnt) *)
Definition c10_cnt_ok (c : float * float * float * float * list (float * float) * float * Z) : bool :=
  let '(st, en, cr, ttl, hs, cn, impl) := c in
  (cnt Fops cn (profile Fops st en cr 1%float ttl (mk_holds hs)) =? impl)%Z.
