(* Float instance of the 2D Snowing step model + comparison helpers (correspondence only). *)
From Coq Require Import ZArith List Bool PrimFloat.
From Snow Require Import Num NumF OpCondF Sn2D.
Import ListNotations.

Fixpoint grid_close (a b : list (list float)) : bool :=
  match a, b with
  | [], [] => true
  | x :: r, y :: s => all_close 0x1p-30 0x1p-33 x y && grid_close r s
  | _, _ => false
  end.
Fixpoint grid_close_w (a b : list (list float)) : bool :=
  match a, b with
  | [], [] => true
  | x :: r, y :: s => all_close 0x1p-30 0x1p-40 x y && grid_close_w r s
  | _, _ => false
  end.

(* cooling: (T_k, T_shelf, time of the step, vapour flux per column, T_{k+1}) *)
Definition cool2_ok (P : @p2d float) Nz Nr rr (visf : bool) (ts td dHe : float)
  (c : list (list float) * float * float * list float * list (list float)) : bool :=
  let '(g, Tsh, t, fl, g') := c in grid_close (cool_step2_t Fops P Nz Nr rr visf t ts td dHe g Tsh fl) g'.
(* solidification: (in-place?, T, w, T_shelf, time, vapour flux per column, T', w') *)
Definition solid2_ok (P : @p2d float) Nz Nr rr (visf : bool) (ts td dHe : float)
  (c : bool * list (list float) * list (list float) * float * float * list float * list (list float) * list (list float)) : bool :=
  let '(ip, g, w, Tsh, t, fl, g', w') := c in
  let '(mg, mw) := solid_step2_t Fops P Nz Nr rr ip visf t ts td dHe g w Tsh fl in grid_close mg g' && grid_close_w mw w'.

Definition sn2d_case_ok
  (c : @p2d float * nat * nat * list float * bool * float * float * float
       * list (list (list float) * float * float * list float * list (list float))
       * list (bool * list (list float) * list (list float) * float * float * list float * list (list float) * list (list float))) : bool :=
  let '(P, Nz, Nr, rr, visf, ts, td, dHe, cools, solids) := c in
  forallb (cool2_ok P Nz Nr rr visf ts td dHe) cools && forallb (solid2_ok P Nz Nr rr visf ts td dHe) solids.
