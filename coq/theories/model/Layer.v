(* Model of the configuration layering of constants.py: _nestedDictUpdate, _getAllKeys.
   A configuration is a tree of string-keyed dictionaries with opaque leaf values. *)
From Coq Require Import List Bool String ZArith.
Import ListNotations.
Local Open Scope string_scope.

Inductive cfg := Leaf (v : Z) | Node (l : list (string * cfg)).

Fixpoint get (k : string) (l : list (string * cfg)) : option cfg :=
  match l with
  | [] => None
  | (k', v) :: r => if String.eqb k k' then Some v else get k r
  end.
(* d[k] = v : replace in place or append (python dict insertion order) *)
Fixpoint set (k : string) (v : cfg) (l : list (string * cfg)) : list (string * cfg) :=
  match l with
  | [] => [(k, v)]
  | (k', v') :: r => if String.eqb k k' then (k, v) :: r else (k', v') :: set k v r
  end.

(* _nestedDictUpdate(d, u):  for k, v in u.items():  d[k] = update(d.get(k, {}), v) if v is a mapping else v *)
Fixpoint upd (d : list (string * cfg)) (u : cfg) {struct u} : list (string * cfg) :=
  match u with
  | Leaf _ => d
  | Node ul =>
      (fix go (ul : list (string * cfg)) (d : list (string * cfg)) {struct ul} : list (string * cfg) :=
         match ul with
         | [] => d
         | (k, v) :: r =>
             let d' := match v with
                       | Node _ => set k (Node (upd (match get k d with Some (Node dl) => dl | _ => [] end) v)) d
                       | Leaf _ => set k v d
                       end in
             go r d'
         end) ul d
  end.
Definition update (d u : cfg) : cfg := match d with Node dl => Node (upd dl u) | Leaf _ => d end.

(* python raises TypeError when the custom file puts a mapping where the default has a plain value *)
Fixpoint compatible (d : list (string * cfg)) (u : cfg) {struct u} : bool :=
  match u with
  | Leaf _ => true
  | Node ul =>
      (fix go (ul : list (string * cfg)) : bool :=
         match ul with
         | [] => true
         | (k, v) :: r =>
             match v with
             | Node _ => match get k d with
                         | Some (Node dl) => compatible dl v
                         | Some (Leaf _) => false
                         | None => compatible [] v
                         end
             | Leaf _ => true
             end && go r
         end) ul
  end.

Fixpoint lookup (p : list string) (c : cfg) : option cfg :=
  match p with
  | [] => Some c
  | k :: r => match c with Node l => match get k l with Some c' => lookup r c' | None => None end | Leaf _ => None end
  end.

(* _getAllKeys: all keys at every depth (children first, then the keys of the dict itself) *)
Fixpoint all_keys (c : cfg) : list string :=
  match c with
  | Leaf _ => []
  | Node l => ((fix go (l : list (string * cfg)) : list string :=
                 match l with [] => [] | (_, v) :: r => (all_keys v ++ go r)%list end) l ++ map fst l)%list
  end.
Definition unknown_keys (d u : cfg) : list string :=
  filter (fun k => negb (existsb (String.eqb k) (all_keys d))) (all_keys u).
