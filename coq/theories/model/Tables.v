(* Model of the tabular exports: Snowflake.to_frame (statistics melt, strided trajectory melt) and
   Snowfall.to_frame (block overwrite per repetition).  A table is the list of its rows; a row names the
   SOURCE of its value (which vial, which statistic / which state row and column, which repetition). *)
From Coq Require Import ZArith List Bool Lia.
From Snow Require Import Topology Record.
Import ListNotations.

Fixpoint range (n : nat) : list nat := match n with O => [] | S k => range k ++ [k] end.

(* statistics table: DataFrame(stats).melt(id_vars=[group, vial]) -- variable-major, vials in index order *)
Definition stats_rows (N : nat) : list (nat * nat) :=      (* (vial, variable index 0..2) *)
  flat_map (fun j => map (fun v => (v, j)) (range N)) (range 3).

(* trajectory table: X[:, ::stride] with stride = max(1, ncols / max(1, n-1)); rows = temperature rows of the
   stored vials then their sigma rows; melt(id_vars=[group, vial, state]) -- time-major *)
Definition stride (ncols n_samples : nat) : nat := Nat.max 1 (ncols / Nat.max 1 (n_samples - 1)).
Fixpoint sample (st skip : nat) (l : list nat) : list nat :=
  match l with
  | [] => []
  | x :: r => match skip with O => x :: sample st (st - 1) r | S k => sample st k r end
  end.
Definition sampled_cols (ncols n_samples : nat) : list nat := sample (stride ncols n_samples) 0 (range ncols).
Definition traj_rows (stored : list nat) (ncols n_samples : nat) : list (bool * nat * nat) :=   (* (is_sigma, vial, column) *)
  flat_map (fun c => map (fun v => (false, v, c)) stored ++ map (fun v => (true, v, c)) stored)
           (sampled_cols ncols n_samples).

(* Snowfall table: repetition blocks of N*3 rows, each block the statistics melt of that repetition *)
Definition snowfall_rows (Nrep N : nat) : list (nat * nat * nat) :=     (* (seed, vial, variable) *)
  flat_map (fun i => map (fun vj => (i, fst vj, snd vj)) (stats_rows N)) (range Nrep).

(* accessors: rows whose group label is requested, whose seed is requested, of the requested variable *)
Definition accessor {L} (leqb : L -> L -> bool) (label : nat -> L) (groups : option (list L)) (seeds : option (list nat)) (var : nat)
  (rows : list (nat * nat * nat)) : list (nat * nat * nat) :=
  filter (fun r => let '(i, v, j) := r in
                   (match groups with None => true | Some gs => existsb (leqb (label v)) gs end)
                   && (match seeds with None => true | Some ss => existsb (Nat.eqb i) ss end)
                   && Nat.eqb j var) rows.
