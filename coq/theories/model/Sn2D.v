(* Model of the 2D spatial model of snowing.py (_run_2D): one time step of the cooling stage and of the
   solidification stage on the (z, r) grid, INCLUDING the update order of the implementation: the arrays
   T_new and T_k are the same object (T_new = T_k), so each of the nine vectorised region assignments reads
   the grid as left by the previous ones (in-place sweep).  [inplace = false] models a simultaneous update
   (the first solidification step, where T_k was just replaced by a fresh array).  Generic in the number type. *)
From Coq Require Import ZArith List Bool Arith.
From Snow Require Import Num Sn1D.
Import ListNotations.

Section Sn2D.
  Context {A : Type} (o : NumOps A).
  Local Notation "x + y" := (nadd o x y) : num_scope.
  Local Notation "x - y" := (nsub o x y) : num_scope.
  Local Notation "x * y" := (nmul o x y) : num_scope.
  Local Notation "x / y" := (ndiv o x y) : num_scope.
  Local Open Scope num_scope.
  Let one : A := nofZ o 1.
  Let zero : A := nofZ o 0.
  Let two : A := nofZ o 2.
  Let four : A := nofZ o 4.

  Definition grid := list (list A).
  Definition gget (g : grid) (i j : nat) : A := nth j (nth i g []) zero.
  Fixpoint mapi_from {X Y} (f : nat -> X -> Y) (k : nat) (l : list X) : list Y :=
    match l with [] => [] | x :: r => f k x :: mapi_from f (S k) r end.
  Definition gmapi (f : nat -> nat -> A -> A) (g : grid) : grid :=
    mapi_from (fun i row => mapi_from (fun j x => f i j x) 0 row) 0 g.

  Record p2d := MkP2 {
    s_dz : A; s_dr : A; s_dt : A; s_K : A; s_Kw : A;       (* grid steps, time step, shelf and wall coefficients (Kw = 0: no jacket) *)
    s_lam0 : A; s_alpha0 : A;                              (* conductivity and diffusivity of the unfrozen solution *)
    s_cps : A; s_cpi : A; s_cpw : A; s_sf : A; s_lami : A; s_lamw : A;
    s_Dh : A; s_kf : A; s_Ms : A; s_rho : A; s_V : A; s_mw : A; s_ms : A; s_Tm : A; s_Teql : A
  }.
  Variable P : p2d.
  Variables (Nz Nr : nat).
  Variable rr : list A.                                    (* radial node positions r_j *)
  Definition rj (j : nat) : A := nth j rr zero.

  (* the nine regions in the order in which snowing.py assigns them *)
  Definition region (k i j : nat) : bool :=
    let top := Nat.eqb i (Nz - 1) in let bot := Nat.eqb i 0 in
    let ax := Nat.eqb j 0 in let ed := Nat.eqb j (Nr - 1) in
    match k with
    | 0 => bot && ax | 1 => bot && ed | 2 => bot && negb ax && negb ed
    | 3 => top && ax | 4 => top && ed | 5 => top && negb ax && negb ed
    | 6 => negb bot && negb top && ed | 7 => negb bot && negb top && ax
    | _ => negb bot && negb top && negb ax && negb ed
    end.

  (* sweep: apply the cell update region by region, each region reading the current grid *)
  Definition sweep (inplace : bool) (cell : grid -> nat -> nat -> A) (g0 : grid) : grid :=
    fold_left (fun g k => gmapi (fun i j x => if region k i j then cell (if inplace then g else g0) i j else x) g)
              (seq 0 9) g0.

  (* ---- cooling stage -------------------------------------------------------------------------------- *)
  (* ghost values are computed from the grid at the START of the step *)
  Definition cool_cell (Tb Tt Te : list A) (g : grid) (i j : nat) : A :=
    let T := gget g i j in
    let dr2 := s_dr P * s_dr P in let dz2 := s_dz P * s_dz P in
    let zpart :=
      if Nat.eqb i 0 then (gget g 1 j - two * T + nth j Tb zero) / dz2
      else if Nat.eqb i (Nz - 1) then (nth j Tt zero - two * T + gget g (Nz - 2) j) / dz2
      else (gget g (S i) j - two * T + gget g (i - 1) j) / dz2 in
    let rpart :=
      if Nat.eqb j 0 then two * (gget g i 1 - two * T + T) / dr2
      else if Nat.eqb j (Nr - 1) then
        (one / rj j) * (nth i Te zero - gget g i (Nr - 2)) / (two * s_dr P)
        + (nth i Te zero - two * T + gget g i (Nr - 2)) / dr2
      else
        (one / rj j) * (gget g i (S j) - gget g i (j - 1)) / (two * s_dr P)
        + (gget g i (S j) - two * T + gget g i (j - 1)) / dr2 in
    T + s_alpha0 P * s_dt P * (rpart + zpart).

  Definition cool_step2_gen (inplace : bool) (g : grid) (Tsh : A) (qe : list A) : grid :=
    let row0 := nth 0 g [] in let rowN := nth (Nz - 1) g [] in
    let Tb := map (fun x => x + s_K P * (Tsh - x) * s_dz P / s_lam0 P) row0 in
    let Tt := map (fun xq => fst xq + snd xq * s_dz P / s_lam0 P) (combine rowN qe) in
    let Te := map (fun row => let x := nth (Nr - 1) row zero in x + s_Kw P * (Tsh - x) * s_dr P / s_lam0 P) g in
    sweep inplace (cool_cell Tb Tt Te) g.
  (* the implementation: T_new and T_k are the same array *)
  Definition cool_step2 := cool_step2_gen true.

  (* ---- solidification stage --------------------------------------------------------------------------- *)
  Definition cp2 (w : A) : A := s_cps P * s_sf P + s_cpi P * w + s_cpw P * (one - s_sf P - w).
  Definition lam2 (w : A) : A := s_lami P * w + s_lamw P * (one - w).
  Definition BETA2 (T w : A) : A :=
    if nltb o T (s_Teql P) then
      one + (s_Dh P * s_kf P * s_ms P / (s_Ms P * s_rho P * s_V P * cp2 w)) / ((T - s_Tm P) * (T - s_Tm P))
    else one.
  Definition ice2 (T : A) : A :=
    if nltb o T (s_Teql P) then (s_mw P - s_ms P * (s_kf P / s_Ms P) / (s_Tm P - T)) / (s_mw P + s_ms P) else zero.

  (* kk = conductivity, cc = heat capacity, bb = BETA: arrays computed at the start of the step *)
  Definition solid_cell (kk cc bb : grid) (Tb Tt Te : list A) (g : grid) (i j : nat) : A :=
    let T := gget g i j in let k := gget kk i j in
    let dr2 := s_dr P * s_dr P in let dz2 := s_dz P * s_dz P in
    let zpart :=
      if Nat.eqb i 0 then
        (gget kk 1 j - k) * (gget g 1 j - nth j Tb zero) / (four * dz2) + k * (gget g 1 j - two * T + nth j Tb zero) / dz2
      else if Nat.eqb i (Nz - 1) then
        (k - gget kk (Nz - 2) j) * (nth j Tt zero - gget g (Nz - 2) j) / (four * dz2)
        + k * (nth j Tt zero - two * T + gget g (Nz - 2) j) / dz2
      else
        (gget kk (S i) j - gget kk (i - 1) j) * (gget g (S i) j - gget g (i - 1) j) / (four * dz2)
        + k * (gget g (S i) j - two * T + gget g (i - 1) j) / dz2 in
    let rpart :=
      if Nat.eqb j 0 then
        two * k * (gget g i 1 - two * T + T) / dr2 + (gget kk i 1 - k) * (gget g i 1 - T) / (four * dr2)
      else if Nat.eqb j (Nr - 1) then
        (k / rj j) * (nth i Te zero - gget g i (Nr - 2)) / (two * s_dr P)
        + (k - gget kk i (Nr - 2)) * (nth i Te zero - (if Nat.eqb i 0 then T else gget g i (Nr - 2))) / (four * dr2)
        + k * (nth i Te zero - two * T + gget g i (Nr - 2)) / dr2
      else
        (k / rj j) * (gget g i (S j) - gget g i (j - 1)) / (two * s_dr P)
        + (gget kk i (S j) - gget kk i (j - 1)) * (gget g i (S j) - gget g i (j - 1)) / (four * dr2)
        + k * (gget g i (S j) - two * T + gget g i (j - 1)) / dr2 in
    T + (s_dt P / (gget cc i j * s_rho P)) * (rpart + zpart) * (one / gget bb i j).

  Definition gmap2 (f : A -> A -> A) (a b : grid) : grid :=
    map (fun ab => map (fun xy => f (fst xy) (snd xy)) (combine (fst ab) (snd ab))) (combine a b).

  Definition solid_step2 (inplace : bool) (g w : grid) (Tsh : A) (qe : list A) : grid * grid :=
    let kk := map (map lam2) w in
    let cc := map (map cp2) w in
    let bb := gmap2 BETA2 g w in
    let row0 := nth 0 g [] in let rowN := nth (Nz - 1) g [] in
    let Tb := map (fun xk => fst xk + s_K P * (Tsh - fst xk) * s_dz P / snd xk) (combine row0 (nth 0 kk [])) in
    let Tt := map (fun xqk => fst (fst xqk) + snd (fst xqk) * s_dz P / snd xqk) (combine (combine rowN qe) (nth (Nz - 1) kk [])) in
    let Te := map (fun rk => let x := nth (Nr - 1) (fst rk) zero in
                             x + s_Kw P * (Tsh - x) * s_dr P / nth (Nr - 1) (snd rk) zero) (combine g kk) in
    let g' := sweep inplace (solid_cell kk cc bb Tb Tt Te) g in
    (g', map (map ice2) g').

  (* ---- evaporation: per-column flux, only strictly inside the vacuum window (same window test as the 1D model) ---- *)
  Definition qe2 (visf : bool) (t tstart tdur dHe : A) (fluxes : list A) : list A :=
    map (fun f => q_evap o visf t tstart tdur f dHe) fluxes.
  Definition cool_step2_t (visf : bool) (t tstart tdur dHe : A) (g : grid) (Tsh : A) (fluxes : list A) : grid :=
    cool_step2 g Tsh (qe2 visf t tstart tdur dHe fluxes).
  Definition solid_step2_t (inplace visf : bool) (t tstart tdur dHe : A) (g w : grid) (Tsh : A) (fluxes : list A) : grid * grid :=
    solid_step2 inplace g w Tsh (qe2 visf t tstart tdur dHe fluxes).
End Sn2D.
Arguments MkP2 {A}.
