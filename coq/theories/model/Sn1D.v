(* Model of the 1D spatial model of snowing.py (_run_1D): cooling step with ghost-point boundary
   conditions, adiabatic nucleation (quadratic), apparent-heat-capacity solidification step, the
   vacuum window; generic in the number type.  The 0D model (_run_0D) steps are at the end. *)
From Coq Require Import ZArith List Bool.
From Snow Require Import Num.
Import ListNotations.

Section Sn1D.
  Context {A : Type} (o : NumOps A).
  Local Notation "x + y" := (nadd o x y) : num_scope.
  Local Notation "x - y" := (nsub o x y) : num_scope.
  Local Notation "x * y" := (nmul o x y) : num_scope.
  Local Notation "x / y" := (ndiv o x y) : num_scope.
  Local Notation "- x" := (nopp o x) : num_scope.
  Local Open Scope num_scope.
  Let one : A := nofZ o 1.
  Let zero : A := nofZ o 0.
  Let two : A := nofZ o 2.
  Let four : A := nofZ o 4.
  Let half : A := ndiv o (nofZ o 1) (nofZ o 2).

  Record p1d := MkP1 {
    q_dz : A; q_dt : A; q_K : A;                 (* grid step, time step, shelf coefficient *)
    q_lam0 : A; q_alpha0 : A;                    (* conductivity / diffusivity of the unfrozen solution *)
    q_cps : A; q_cpi : A; q_cpw : A; q_sf : A;   (* heat capacities, solute mass fraction *)
    q_lami : A; q_lamw : A;                      (* conductivities of ice and water *)
    q_Dh : A; q_kf : A; q_Ms : A; q_rho : A; q_V : A;
    q_mass : A; q_mw : A; q_ms : A;              (* total, water and solute mass *)
    q_Tm : A; q_Teql : A; q_cp0 : A              (* melting temperature, equilibrium freezing temperature, cp of the solution *)
  }.
  Variable P : p1d.

  (* evaporative heat flux at the top: only strictly inside the vacuum window (times in seconds) *)
  Definition in_window (t tstart tdur : A) : bool :=
    nltb o (tstart * nofZ o 3600) t && nltb o t ((tstart + tdur) * nofZ o 3600).
  Definition q_evap (visf : bool) (t tstart tdur flux dHe : A) : A :=
    if visf && in_window t tstart tdur then (- flux) * dHe else zero.

  (* interior stencil over consecutive triples; [prev] is the left neighbour of the head *)
  Fixpoint interior (f : A -> A -> A -> A) (prev : A) (l : list A) : list A :=
    match l with
    | x :: ((y :: _) as r) => f prev x y :: interior f x r
    | _ => []
    end.
  Definition lastd (l : list A) : A := last l zero.
  (* the entry before the last one ([p] = the entry preceding the list) *)
  Fixpoint lbo (p : A) (l : list A) : A :=
    match l with
    | [] => p
    | x :: r => match r with [] => p | _ :: _ => lbo x r end
    end.
  Definition last2 (l : list A) : A := match l with x :: r => lbo x r | [] => zero end.

  (* ---- cooling stage ----------------------------------------------------------------------- *)
  Definition cool_step (T : list A) (Tsh qe : A) : list A :=
    match T with
    | T0 :: ((T1 :: _) as r) =>
        let c := q_alpha0 P * q_dt P / (q_dz P * q_dz P) in
        let Tb := T0 + q_K P * (Tsh - T0) * q_dz P / q_lam0 P in
        let Tn := lastd T in
        let Ttop := Tn + qe * q_dz P / q_lam0 P in
        let bottom := T0 + c * (T1 - two * T0 + Tb) in
        let mid := interior (fun a b d => b + c * (d - two * b + a)) T0 r in
        let top := Tn + c * (Ttop - two * Tn + last2 T) in
        bottom :: mid ++ [top]
    | _ => T
    end.

  (* ---- nucleation: adiabatic quadratic --------------------------------------------------------- *)
  Definition nuc_Teq (Tn : A) : A :=
    let g := q_Dh P * q_mw P / (q_cp0 P * q_mass P) in
    let B := - q_Tm P - Tn - g in
    let C := q_Dh P * q_mw P * q_Tm P / (q_cp0 P * q_mass P)
             - q_ms P * (q_kf P / q_Ms P) * q_Dh P / (q_cp0 P * q_mass P) + q_Tm P * Tn in
    half * (- B - nsqrt o (B * B - four * C)).
  Definition nuc_point (Tn : A) : A * A :=        (* (temperature, ice mass fraction) after nucleation *)
    if nltb o Tn (q_Teql P) then
      let Te := nuc_Teq Tn in
      (Te, (q_mw P - q_ms P * (q_kf P / q_Ms P) / (q_Tm P - Te)) / (q_mw P + q_ms P))
    else (Tn, zero).

  (* the whole field at the nucleation instant: every grid point on its own (adiabatic) *)
  Definition nuc_step (T : list A) : list A * list A :=
    (map (fun x => fst (nuc_point x)) T, map (fun x => snd (nuc_point x)) T).

  (* ---- solidification stage ----------------------------------------------------------------------- *)
  Definition cp_of (w : A) : A := q_cps P * q_sf P + q_cpi P * w + q_cpw P * (one - q_sf P - w).
  Definition lam_of (w : A) : A := q_lami P * w + q_lamw P * (one - w).
  Definition BETA_of (T w : A) : A :=
    if nltb o T (q_Teql P) then
      one + (q_Dh P * q_kf P * q_ms P / (q_Ms P * q_rho P * q_V P * cp_of w)) / ((T - q_Tm P) * (T - q_Tm P))
    else one.
  Definition ice_of (T : A) : A :=
    if nltb o T (q_Teql P) then (q_mw P - q_ms P * (q_kf P / q_Ms P) / (q_Tm P - T)) / q_mass P else zero.

  (* one point: a, b, d = left / own / right temperature; la, lb, ld = conductivities *)
  Definition solid_point (a b d la lb ld w : A) : A :=
    b + (q_dt P / (cp_of w * q_rho P))
        * ((ld - la) * (d - a) / (four * (q_dz P * q_dz P)) + lb * (d - two * b + a) / (q_dz P * q_dz P))
        * (one / BETA_of b w).

  Fixpoint interior2 (prevT prevL : A) (T W : list A) : list A :=
    match T, W with
    | x :: ((y :: _) as rT), w :: ((w' :: _) as rW) =>
        solid_point prevT x y prevL (lam_of w) (lam_of w') w :: interior2 x (lam_of w) rT rW
    | _, _ => []
    end.

  Definition solid_step (T W : list A) (Tsh qe : A) : list A * list A :=
    match T, W with
    | T0 :: ((T1 :: _) as rT), w0 :: ((w1 :: _) as rW) =>
        let l0 := lam_of w0 in
        let Tb := T0 + q_K P * (Tsh - T0) * q_dz P / l0 in
        let Tn := lastd T in let wn := lastd W in let ln := lam_of wn in
        let Ttop := Tn + qe * q_dz P / ln in
        (* bottom: the conductivity difference uses (lam1 - lam0) and the ghost point *)
        let bottom := T0 + (q_dt P / (cp_of w0 * q_rho P))
                           * ((lam_of w1 - l0) * (T1 - Tb) / (four * (q_dz P * q_dz P)) + l0 * (T1 - two * T0 + Tb) / (q_dz P * q_dz P))
                           * (one / BETA_of T0 w0) in
        let mid := interior2 T0 l0 rT rW in
        let top := Tn + (q_dt P / (cp_of wn * q_rho P))
                        * ((ln - lam_of (last2 W)) * (Ttop - last2 T) / (four * (q_dz P * q_dz P)) + ln * (Ttop - two * Tn + last2 T) / (q_dz P * q_dz P))
                        * (one / BETA_of Tn wn) in
        let T' := bottom :: mid ++ [top] in
        (T', map ice_of T')
    | _, _ => (T, W)
    end.

  (* ---- homogeneous (0D) model ----------------------------------------------------------------------- *)
  (* A K (Tsh - T) dt / (cp m) *)
  Definition cool0 (area Tsh T : A) : A := T + q_dt P * (area * q_K P * (Tsh - T)) / (q_cp0 P * q_mass P).
  Definition solid0 (area Tsh T w : A) : A * A :=
    let ws := q_ms P / q_mass P in
    let cp := q_cps P * ws + q_cpi P * w + q_cpw P * (one - ws - w) in
    let T' := T + q_dt P * (area * q_K P * (Tsh - T))
                  * (one / (cp * q_rho P * q_V P + (q_Dh P * q_kf P * q_ms P / q_Ms P) * (one / ((q_Tm P - T) * (q_Tm P - T))))) in
    (T', (q_mw P - (q_kf P * q_ms P / q_Ms P) / (q_Tm P - T')) / q_mass P).
  (* 0D nucleation: the quadratic is applied unconditionally *)
  Definition nuc0 (Tn : A) : A * A :=
    let Te := nuc_Teq Tn in (Te, (q_mw P - q_ms P * (q_kf P / q_Ms P) / (q_Tm P - Te)) / q_mass P).
End Sn1D.
Arguments MkP1 {A}.
