(* Generic number operations: every numeric model function is written once against
   this record; it is instantiated at R (NumR.v, the instance theorems speak about)
   and at PrimFloat binary64 (NumF.v, the instance that is executed against the
   implementation).  No proofs here. *)
From Coq Require Import ZArith List.
Import ListNotations.

Record NumOps (A : Type) : Type := MkNumOps {
  nadd : A -> A -> A;
  nsub : A -> A -> A;
  nmul : A -> A -> A;
  ndiv : A -> A -> A;
  nopp : A -> A;
  nsqrt : A -> A;
  nltb : A -> A -> bool;
  nleb : A -> A -> bool;
  neqb : A -> A -> bool;
  nofZ : Z -> A;
  nceil : A -> Z;          (* smallest integer >= x *)
  nfloor : A -> Z;         (* largest integer <= x *)
  nfmod : A -> A -> A      (* python float %: x - y*floor(x/y), exact *)
}.
Arguments nadd {A} _ _ _. Arguments nsub {A} _ _ _. Arguments nmul {A} _ _ _.
Arguments ndiv {A} _ _ _. Arguments nopp {A} _ _. Arguments nsqrt {A} _ _.
Arguments nltb {A} _ _ _. Arguments nleb {A} _ _ _. Arguments neqb {A} _ _ _.
Arguments nofZ {A} _ _. Arguments nceil {A} _ _. Arguments nfloor {A} _ _. Arguments nfmod {A} _ _ _.

Declare Scope num_scope.
Delimit Scope num_scope with num.

Section Derived.
  Context {A : Type} (o : NumOps A).
  Definition n0 : A := nofZ o 0.
  Definition n1 : A := nofZ o 1.
  Definition n2 : A := nofZ o 2.
  Definition n4 : A := nofZ o 4.
  (* decimal constant n / 10^k *)
  Definition ndec (n : Z) (k : Z) : A := ndiv o (nofZ o n) (nofZ o (10 ^ k)).
  Definition nsqr (x : A) : A := nmul o x x.
  Definition ngtb (x y : A) : bool := nltb o y x.
  Definition ngeb (x y : A) : bool := nleb o y x.
  Definition nmax (x y : A) : A := if nltb o x y then y else x.
  Definition nmin (x y : A) : A := if nltb o y x then y else x.
  Definition nabs (x : A) : A := if nltb o x n0 then nopp o x else x.
  Fixpoint nsum (l : list A) : A :=
    match l with [] => n0 | x :: r => nadd o x (nsum r) end.
End Derived.
