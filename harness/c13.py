"""C13  Spatial results are internally consistent and complete."""
import math
import random

import numpy as np

import common
import impl
import snowing_runs as sr
from common import coq_list

HEAD = ("From Coq Require Import ZArith List Bool Arith. Import ListNotations.\nFrom Snow Require Import Topology SnLoop.\n"
        "Open Scope Z_scope.\nFixpoint eqz (a b : list Z) := match a, b with [], [] => true | x :: r, y :: s => (x =? y) && eqz r s | _, _ => false end.\n"
        "Definition case_ok (c : Z * Z * Z * list Z) : bool := let '(Nt, L, ie, obs) := c in eqz (map fst (report_rows Nt L ie)) obs.\n"
        "Definition cases := %s.\nEval vm_compute in bad_cases case_ok cases.\n")


def sigma_rows(rec):
    """frozen water fraction of every reported row, recomputed from the reported ice mass fractions"""
    S, c = rec["S"], rec["S"].const
    W = np.asarray(S.iceMassFraction)
    if rec["dim"] == "homogeneous":
        return W * c["mass"] / (c["mass"] - c["mass_solute"])
    import scipy.integrate as si
    if rec["dim"] == "spatial_1D":
        z = np.linspace(0, c["height"], 30)
        return np.array([(1 / z[-1]) * si.simps(w * c["mass"], z) / (c["mass"] - c["mass_solute"]) for w in W])
    z = np.linspace(0, c["height"], 30); r = np.linspace(0, c["diameter"] / 2, 15)
    out = []
    for w in W:
        wr = 2 * np.pi * si.simps(r * w, r)
        out.append((1 / (np.pi * r[-1] ** 2 * z[-1])) * si.simps(wr, z) * c["mass"] / (c["mass"] - c["mass_solute"]))
    return np.array(out)


def judge(rep, rec, cases):
    S, dt, lab = rec["S"], rec["dt"], rec["label"]
    prog = rec["prog"]
    Nt = int(math.ceil(prog["t_tot"] / dt)) + 1
    prof = np.asarray(S.opcond.tempProfile(dt), dtype=float)
    if rec["error"] is not None:
        e = rec["error"]
        rep.count("raised-%s" % type(e).__name__)
        if not isinstance(e, (ValueError, IndexError)):
            rep.violation("unexpected-exception %s" % type(e).__name__, "%s raises %r" % (lab, e), dict(run=lab)); return
        # never partial data: nothing may be readable after a failed run
        leaked = []
        for attr in ("results", "time", "temp", "shelfTemp", "iceMassFraction"):
            try:
                getattr(S, attr); leaked.append(attr)
            except AssertionError:
                pass
            except Exception:
                pass
        if leaked:
            rep.violation("partial-data", "%s raised %r but %s can still be read" % (lab, e, leaked), dict(run=lab, readable=leaked))
        return
    rep.count("completed-" + rec["dim"])
    res = S.results.iloc[0]
    t = np.asarray(S.time) * 3600.0
    n = len(t)
    if not (len(S.shelfTemp) == n and len(S.temp) == n and len(S.iceMassFraction) == n):
        rep.violation("lengths", "%s: history lengths differ: time %d shelf %d temp %d ice %d" % (lab, n, len(S.shelfTemp), len(S.temp), len(S.iceMassFraction)), dict(run=lab)); return
    if (np.diff(t) < -1e-9).any():
        rep.violation("time-decreases", "%s: time axis decreases at row %d" % (lab, int(np.argmax(np.diff(t) < -1e-9))), dict(run=lab)); return
    tn, ts_, tf = float(res["t_nuc"]), float(res["t_sol"]), float(res["t_fr"])
    if abs(tf - (tn + ts_)) > 1e-9 * (1 + tf):
        rep.violation("tfr-sum", "%s: t_fr=%r but t_nuc+t_sol=%r" % (lab, tf, tn + ts_), dict(run=lab))
    if not (0 <= tn * 60 <= prog["t_tot"] + dt and 0 <= ts_ and tf * 60 <= prog["t_tot"] + dt):
        rep.violation("times-outside-process", "%s: t_nuc=%r t_sol=%r t_fr=%r min, process lasts %r s" % (lab, tn, ts_, tf, prog["t_tot"]), dict(run=lab))
    # rows -> simulation steps
    steps = np.rint(t / dt).astype(int)
    if np.abs(t / dt - steps).max() > 1e-6:
        rep.violation("time-off-grid", "%s: reported times are not multiples of dt" % lab, dict(run=lab)); return
    sh = np.asarray(S.shelfTemp)
    if steps.max() >= len(prof) or np.abs(sh - prof[steps]).max() > 1e-9 * (1 + np.abs(prof).max()):
        k = int(np.argmax(np.abs(sh - prof[np.minimum(steps, len(prof) - 1)])))
        rep.violation("shelf-not-programmed", "%s: reported shelf temperature %r at t=%r s, programmed %r" % (lab, sh[k], t[k], prof[min(steps[k], len(prof) - 1)]), dict(run=lab, row=k)); return
    # frozen fraction first reaches 90 percent at the freezing time
    sig = sigma_rows(rec)
    ie = int(round(tn * 60 / dt))
    stride_s = int(math.ceil((Nt - ie) / 10000))
    first = np.nonzero((sig >= 0.9) & (t >= tn * 60 - 1e-9))[0]
    if stride_s == 1:
        if not len(first) or abs(t[first[0]] - tf * 60) > dt * 1e-6 + 1e-9:
            rep.violation("t_fr-vs-history", "%s: frozen fraction first reaches 0.9 at t=%s s in the reported history, t_fr is %r s" % (lab, t[first[0]] if len(first) else None, tf * 60), dict(run=lab))
        elif first[0] > 0 and sig[first[0] - 1] >= 0.9 and t[first[0] - 1] > tn * 60:
            rep.violation("t_fr-not-first", "%s: frozen fraction was already >= 0.9 one row before t_fr" % lab, dict(run=lab))
    if rec["dim"] != "homogeneous":
        cases.append((lab, "(%d, %d, %d, %s)" % (Nt, len(prof), ie, coq_list("%d" % s for s in steps))))
    else:
        if not (steps == np.arange(n)).all():
            rep.violation("0D-rows", "%s: homogeneous model rows are not one per step" % lab, dict(run=lab))


def check(rep, tier):
    rng = random.Random(rep.seed)
    ok, msg = common.proof_stage(rep, "C13", ["theories/model/SnLoop.vo"])
    rep.rule = ("Snowing runs of all three dimensionalities (shelf / VISF / jacket, with and without holds, with and without controlled nucleation), processes long enough and too short "
                "for nucleation or for solidification, one run with more than 10000 steps (save stride > 1); judged: equal history lengths, non-decreasing time, t_fr = t_nuc + t_sol, times "
                "within the process, frozen fraction first >= 0.9 at t_fr, reported shelf = programmed profile at the reported steps, nothing readable after a run that raised; the reported "
                "step indices are compared with model/SnLoop.v report_rows; non-trivial = completed run")
    rep.trusted = ["Coq 8.16.1 kernel + vm_compute", "scipy.integrate.simps replaced by a shim around simpson (harness-side, scipy removed simps)", "harness/c13.py oracle"]
    cases = []
    recs = sr.catalogue(rng, tier, n0=3, n1=2 if tier == "quick" else 6, n2=1 if tier == "quick" else 4)
    recs += sr.catalogue(rng, tier, dims=("homogeneous", "spatial_1D"), cn=True, n0=1, n1=1)
    # too short for nucleation / for solidification
    for dim, tt in (("homogeneous", 900.0), ("homogeneous", 3300.0), ("spatial_1D", 2500.0), ("spatial_1D", 4200.0)):
        S = sr.make(dim=dim, height=0.05 if dim != "homogeneous" else 0.01, diameter=0.05, K=200 if dim != "homogeneous" else 50,
                    prog=dict(start=20, end=-50, rate=1 / 60, holds=[], t_tot=tt, dt=1.0))
        dt, n = sr.step_info(S)
        rec = dict(label="%s too-short t_tot=%g" % (dim, tt), dim=dim, conf="shelf", S=S, dt=dt, nsteps=n, prog=dict(t_tot=tt), error=None)
        try:
            sr.run(S)
        except Exception as e:
            rec["error"] = e
        recs.append(rec)
    # more than 10000 steps: stride 2..3
    S = sr.make(dim="spatial_1D", height=0.04, diameter=0.05, K=300, prog=dict(start=20, end=-50, rate=2 / 60, holds=[], t_tot=3.2 * 3600, dt=1.0))
    dt, n = sr.step_info(S)
    rec = dict(label="spatial_1D long (stride>1) steps=%d" % n, dim="spatial_1D", conf="shelf", S=S, dt=dt, nsteps=n, prog=dict(t_tot=3.2 * 3600), error=None)
    try:
        sr.run(S)
    except Exception as e:
        rec["error"] = e
    recs.append(rec)
    # more than 10000 steps with DIFFERENT strides in the two stages (cooling stride 2, solidification stride 1)
    S = sr.make(dim="spatial_1D", height=0.05, diameter=0.05, K=200, prog=dict(start=20, end=-50, rate=1 / 60, holds=[{"duration": 300, "temp": -5}], t_tot=12000.0, dt=1.0))
    dt, n = sr.step_info(S)
    rec = dict(label="spatial_1D long (strides 2/1) steps=%d" % n, dim="spatial_1D", conf="shelf", S=S, dt=dt, nsteps=n, prog=dict(t_tot=12000.0), error=None)
    try:
        sr.run(S)
    except Exception as e:
        rec["error"] = e
    recs.append(rec)
    # 2D, jacket, tall narrow vial: strong radial gradients (the frozen fraction is a VOLUME average; the core freezes last)
    try:
        progJ = dict(start=20, end=-50, rate=2 / 60, holds=[], t_tot=3600.0, dt=1.0)
        SJ = sr.make(dim="spatial_2D", conf="jacket", height=0.08, diameter=0.04, K=300, prog=progJ)
        dtJ, _ = sr.step_info(SJ); progJ["t_tot"] = float(int(dtJ * 9800))
        SJ = sr.make(dim="spatial_2D", conf="jacket", height=0.08, diameter=0.04, K=300, prog=progJ)
        dtJ, nJ = sr.step_info(SJ)
        recJ = dict(label="spatial_2D/jacket h=0.08 d=0.04 K=300 (tall narrow vial)", dim="spatial_2D", conf="jacket", S=SJ, dt=dtJ, nsteps=nJ, prog=progJ, error=None)
        sr.run(SJ)
    except Exception as e:
        recJ["error"] = e
    recs.append(recJ)
    # the same object run again with ANOTHER program: results (or the exception) are those of the program configured now
    oc = impl.opcond_mod()
    for dim, h, K in (("homogeneous", 0.01, 50), ("spatial_1D", 0.05, 200)):
        S = sr.make(dim=dim, height=h, diameter=0.05, K=K, prog=dict(start=20, end=-50, rate=1 / 60, holds=[{"duration": 300, "temp": -5}], t_tot=9000.0, dt=1.0))
        dt, n = sr.step_info(S)
        try:
            sr.run(S)
            for prog2 in (dict(start=20, end=-50, rate=1 / 60, holds=[{"duration": 100, "temp": -8}], t_tot=9000.0, dt=1.0),
                          dict(start=20, end=-50, rate=1 / 60, holds=[], t_tot=1200.0, dt=1.0)):
                import gen_opcond
                S.opcond = gen_opcond.build(prog2, oc)
                rec = dict(label="%s re-run after opcond replaced (%s)" % (dim, {k: prog2[k] for k in ("holds", "t_tot")}), dim=dim, conf="shelf", S=S, dt=dt, nsteps=n, prog=prog2, error=None)
                try:
                    sr.run(S)
                except Exception as e:
                    rec["error"] = e
                if prog2["t_tot"] < 2000 and rec["error"] is None:
                    rep.violation("stale-program-after-rerun", "%s: a process of %g s cannot nucleate, yet the re-run returns a complete result (t_fr=%r min)" % (rec["label"], prog2["t_tot"], float(S.results["t_fr"].iloc[0])), dict(run=rec["label"]))
                elif rec["error"] is None:
                    nv = len(rep.violations)
                    judge(rep, rec, [])
                    for v in rep.violations[nv:]:
                        v["key"] = "rerun " + v["key"]
                rep.case(rec["label"], nontrivial=True)
        except Exception as e:
            rep.violation("rerun-crash %s" % type(e).__name__, "%s re-run raises %r" % (dim, e), dict(dim=dim))
    plotted = set()
    for rec in recs:
        rep.case(rec["label"], nontrivial=rec["error"] is None, sample=dict(run=rec["label"], steps=rec["nsteps"], error=repr(rec["error"])) if len(rep.samples) < 5 else None)
        judge(rep, rec, cases)
        if rec["error"] is None and (tier != "quick" or rec["dim"] not in plotted):
            # presenting the results (the evolution plots) must leave them untouched: the four histories and the table are compared bit for bit
            plotted.add(rec["dim"])
            S = rec["S"]
            try:
                import matplotlib.pyplot as plt
                before = [np.array(getattr(S, a), copy=True) for a in ("time", "temp", "iceMassFraction", "shelfTemp")] + [S.results.to_numpy(dtype=float, copy=True)]
                with impl.quiet():
                    for what in ("temperature", "ice_mass_fraction"):
                        S.plot_evolution(what); plt.close("all")
                after = [np.array(getattr(S, a)) for a in ("time", "temp", "iceMassFraction", "shelfTemp")] + [S.results.to_numpy(dtype=float)]
                rep.count("plotted-then-reread")
                for name, a, b in zip(("time", "temp", "iceMassFraction", "shelfTemp", "results"), before, after):
                    if a.shape != b.shape or not np.array_equal(a, b, equal_nan=True):
                        rep.violation("results-changed-by-plotting", "%s: after plot_evolution() the reported %s differs from what run() returned (e.g. %r -> %r)" % (
                            rec["label"], name, a.ravel()[-1], b.ravel()[-1]), dict(run=rec["label"], history=["run", "plot_evolution", "read %s" % name])); break
            except Exception as e:
                rep.violation("plot-crash %s" % type(e).__name__, "%s: plot_evolution raises %r" % (rec["label"], e), dict(run=rec["label"]))
    rc, out = common.coq_eval("c13_0", HEAD % coq_list(c for _, c in cases), timeout=900)
    blocks = common.eval_blocks(out)
    if rc != 0 or len(blocks) != 1:
        rep.violation("correspondence-run", "Coq evaluation of the save-buffer model failed: " + out[-500:], dict(log=out[-2000:]), found_input=False)
    else:
        bad = common.parse_nat_list(blocks[0])
        rep.coverage["traces_validated_against_impl"] = len(cases) - len(bad)
        for b in bad:
            rep.violation("model-vs-impl rows", "reported rows of %s differ from model/SnLoop.v report_rows" % cases[b][0], dict(correspondence="model/SnLoop.v report_rows", run=cases[b][0]), found_input=False)
    if not ok:
        rep.violation("proof-broken", "proof obligations of C13 do not check: " + msg, dict(theorem="props/C13.v", log=msg), found_input=False)
