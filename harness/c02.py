"""C02  Spatial model conserves energy through shelf, jacket and evaporation."""
import random

import numpy as np

import common
import impl
import snowing_runs as sr
import c07
from common import coq_list


def audit_1d(rep, rec):
    """cooling stage: exact discrete balance (theorem C02_cooling_step_energy_balance_exact) evaluated on the saved history;
    solidification stage: enthalpy (sensible + latent) vs boundary heat, 'within a few percent'"""
    S, c, dt, lab = rec["S"], rec["S"].const, rec["dt"], rec["label"]
    T = np.asarray(S.temp) + 273.15; W = np.asarray(S.iceMassFraction); sh = np.asarray(S.shelfTemp) + 273.15
    ie = sr.split_run(S, dt)
    dz = c["height"] / 30
    K = S.k["s0"]
    T0 = np.full(T.shape[1], S.opcond.cooling["start"] + 273.15)
    Tprev = np.vstack([T0, T[:ie]])            # state before step k (k = 0..ie)
    t = np.asarray(S.time) * 3600
    qe = np.array([(-sr.flux_at(S, Tprev[k][-1], True) * c["Dh_evaporation"]) if (c["configuration"] == "VISF" and c["t_vac_start"] * 3600 < t[k] < (c["t_vac_start"] + c["t_vac_duration"]) * 3600) else 0.0
                   for k in range(ie + 1)])
    lhs = c["rho_l"] * c["cp_solution"] * dz * (T[: ie + 1].sum(axis=1) - Tprev.sum(axis=1))
    rhs = dt * (K * (sh[: ie + 1] - Tprev[:, 0]) + qe)
    scale = np.abs(rhs).max() + 1e-30
    err = np.abs(lhs - rhs).max() / scale
    rep.coverage.setdefault("cooling_balance_max_rel_error", 0.0)
    rep.coverage["cooling_balance_max_rel_error"] = max(rep.coverage["cooling_balance_max_rel_error"], float(err))
    if err > 1e-6:
        k = int(np.argmax(np.abs(lhs - rhs)))
        rep.violation("cooling-balance", "%s: step %d changes the heat content by %r J/m2 but %r J/m2 crossed the boundaries" % (lab, k, lhs[k], rhs[k]), dict(run=lab, step=k)); return
    # nucleation: no energy change (per point, sensible heat released = latent heat of the ice formed)
    dHn = c["cp_solution"] * (T[ie + 1] - T[ie]) - c["Dh"] * W[ie + 1]
    if np.abs(dHn).max() > 1e-6 * c["Dh"]:
        rep.violation("nucleation-not-adiabatic", "%s: nucleation changes the specific enthalpy by up to %r J/kg" % (lab, np.abs(dHn).max()), dict(run=lab)); return
    # solidification: cumulative balance at every reported time (few percent of the heat removed so far)
    rows = np.arange(ie + 1, len(T))
    # enthalpy increments consistent with the scheme's constant latent heat: dH = cp_mix dT - Dh dw_i (per unit area)
    dHs = np.zeros(len(rows)); q = np.zeros(len(rows))
    for n_, k in enumerate(rows[1:], start=1):
        Wp = W[k - 1]
        cp = c["cp_s"] * c["solid_fraction"] + c["cp_i"] * Wp + c["cp_w"] * (1 - c["solid_fraction"] - Wp)
        dHs[n_] = dHs[n_ - 1] + (c["rho_l"] * dz * (cp * (T[k] - T[k - 1]) - c["Dh"] * (W[k] - Wp))).sum()
        qev = 0.0
        if c["configuration"] == "VISF" and c["t_vac_start"] * 3600 < t[k] < (c["t_vac_start"] + c["t_vac_duration"]) * 3600:
            qev = -sr.flux_at(S, T[k - 1][-1], False) * c["Dh_evaporation"]
        q[n_] = q[n_ - 1] + dt * (K * (sh[k] - T[k - 1][0]) + qev)
    dH = dHs
    ref = np.abs(q).max() + 1e-30
    rel = np.abs(dH - q) / ref
    rep.coverage["solid_balance_max_rel_error"] = max(rep.coverage.get("solid_balance_max_rel_error", 0.0), float(rel.max()))
    if rel.max() > 0.15:
        k = int(np.argmax(rel))
        # known finding (known_findings.json): a DILUTE solution (freezing-point depression <= 0.3 K; worst for <= 2 % sucrose, where T_eq_l is only 0.1 K below T_m, so the apparent heat capacity is
        # extremely peaked) in a STRONGLY cooled vial (K >= 400 W/m2K) that is only partly supercooled at nucleation: the freezing front then moves
        # through liquid that was above T_eq_l, and a grid point that crosses T_eq_l within a step gets the ice of its overshoot without the latent
        # heat having been removed (the supercooling masks switch after the step): 12-21 % of the heat removed so far in the configurations probed.
        # Any other regime, or an error above 30 %, is reported under the plain key.
        partly = bool((T[ie] >= c["T_eq"] + 273.15 - c["depression"]).any())
        # (strong cooling of the still-liquid part = a shelf coefficient of 400 W/m2K or more, or evaporation at the top in the VISF configuration)
        tall = c["depression"] <= 0.30 and (K >= 400 or c["configuration"] == "VISF") and partly and rel.max() <= 0.30
        rep.violation("solid-balance dilute strongly-cooled vial" if tall else "solid-balance", "%s: at t=%r s the enthalpy changed by %r J/m2 since nucleation but %r J/m2 crossed the boundaries (%.1f %% of the total)" % (
            lab, t[rows[k]], dH[k], q[k], 100 * rel[k]), dict(run=lab, row=int(rows[k])))


def audit_2d(rep, rec):
    """2D cooling stage: heat content of the cylinder vs heat through bottom (shelf), side (jacket) and top (evaporation)"""
    S, c, dt, lab = rec["S"], rec["S"].const, rec["dt"], rec["label"]
    T = np.asarray(S.temp) + 273.15; sh = np.asarray(S.shelfTemp) + 273.15
    ie = sr.split_run(S, dt)
    Nz, Nr = 30, 15
    R = c["diameter"] / 2
    dz, dr = c["height"] / Nz, R / Nr
    r = np.linspace(0, R, Nr)
    # finite-volume weights of the radial nodes (annuli around the nodes of linspace(0, R, Nr))
    edges = np.concatenate([[0.0], (r[1:] + r[:-1]) / 2, [R]])
    ar = np.pi * (edges[1:] ** 2 - edges[:-1] ** 2)
    # axial weights: the scheme's own discrete conservation law (theorem C02_cooling_step_energy_balance_exact) counts every
    # node, the boundary nodes included, with the full dz = height / Nz
    hz = dz * np.ones(Nz)
    vol = hz[:, None] * ar[None, :]
    K = S.k["s0"]
    heat = c["rho_l"] * c["cp_solution"] * ((T[: ie + 1] - (S.opcond.cooling["start"] + 273.15)) * vol[None]).sum(axis=(1, 2))
    T0 = np.full((Nz, Nr), S.opcond.cooling["start"] + 273.15)
    Tprev = np.concatenate([T0[None], T[:ie]])
    qb = (K * (sh[: ie + 1, None] - Tprev[:, 0, :]) * ar[None, :]).sum(axis=1)
    qs = 0.0
    if c["configuration"] == "jacket":
        Kw = 1 / (1 / K + c["air_gap"] / c["lambda_air"])
        qs = (Kw * (sh[: ie + 1, None] - Tprev[:, :, -1]) * hz[None, :] * 2 * np.pi * R).sum(axis=1)
    qt = 0.0
    if c["configuration"] == "VISF":
        # evaporation at the top, only inside the vacuum window (time of the step as in the 1D audit)
        t = np.asarray(S.time) * 3600
        qt = np.array([(-(sr.flux_2d(S, Tprev[k][-1], True) * c["Dh_evaporation"]) * ar).sum()
                       if c["t_vac_start"] * 3600 < t[k] < (c["t_vac_start"] + c["t_vac_duration"]) * 3600 else 0.0 for k in range(ie + 1)])
    q = np.cumsum(dt * (qb + qs + qt))
    ref = np.abs(q).max() + 1e-30
    rel = np.abs(heat - q) / ref
    rep.coverage["balance_2D_max_rel_error_" + c["configuration"]] = float(rel.max())
    if rel.max() > 0.10:
        k = int(np.argmax(rel))
        rep.violation("2D-balance %s aspect=%s" % (c["configuration"], "default" if abs(c["height"] - c["diameter"]) < 1e-12 else "non-default"),
                      "%s: at cooling step %d the heat content changed by %r J but %r J crossed bottom+side+top (%.0f %% off); height/diameter = %.2f" % (
                          lab, k, heat[k], q[k], 100 * rel[k], c["height"] / c["diameter"]), dict(run=lab, step=k))


def check(rep, tier):
    rng = random.Random(rep.seed)
    ok, msg = common.proof_stage(rep, "C02", ["theories/model/Sn1DF.vo", "theories/model/Sn2DF.vo"])
    rep.rule = ("Snowing runs (1D shelf / VISF; 2D shelf / jacket with height and diameter drawn independently) with every step saved. 1D: the exact discrete balance of every cooling step "
                "(rho cp dz sum dT = dt (K (T_shelf - T_0) + q_e), tolerance 1e-6), adiabatic nucleation per grid point, cumulative enthalpy vs boundary heat at every reported time of the "
                "solidification stage (15 %); 2D cooling stage: heat content vs bottom + jacket heat (10 %); one-step binary64 correspondence of the 1D model as in C07; non-trivial = completed run")
    rep.trusted = ["Coq 8.16.1 kernel + vm_compute", "binary64 instance of model/Sn1D.v", "harness/c02.py enthalpy audits (finite-volume sums; thresholds 15 % (1D solidification) / 10 % (2D cooling))", "2D: audit + one-step correspondence with model/Sn2D.v"]
    recs = sr.catalogue(rng, tier, dims=("spatial_1D", "spatial_2D"), confs=None, n1=3 if tier == "quick" else 9, n2=0)
    recs += sr.catalogue(rng, tier, dims=("spatial_1D",), confs=["VISF"], n1=1, late_vacuum=True)
    recs += sr.catalogue(rng, tier, dims=("spatial_1D",), confs=["VISF", "shelf"], n1=1 if tier == "quick" else 2, repoint=True)
    # always: the input of the known finding (tall, strongly cooled vial, partly supercooled at nucleation; known_findings.json)
    try:
        progT = dict(start=10, end=-45, rate=2.0 / 60, holds=[], t_tot=25316.0, dt=1.0)
        exT = {"VISF": {"t_vac_start": 0.75, "t_vac_duration": 0.1, "kappa": 0.05}, "solution": {"solid_fraction": 0.02}}
        ST = sr.make(dim="spatial_1D", conf="VISF", height=0.08, diameter=0.05, K=400, prog=progT, extra=exT)
        dtT, _ = sr.step_info(ST)
        recT = dict(label="spatial_1D/VISF h=0.08 d=0.05 K=400 2 K/min from 10 C, 2 % solute, vacuum 0.75 h + 0.1 h (known finding input)", dim="spatial_1D", conf="VISF", S=ST, dt=dtT, prog=progT, error=None, must_complete=True)
        sr.run(ST)
    except Exception as e:
        recT["error"] = e
    recs.append(recT)
    # always: a 1D run with another solvent melting point and a concentrated solution (T_eq = 3.82 C, 20 % solute)
    try:
        progH = dict(start=15, end=-50, rate=2.0 / 60, holds=[], t_tot=3600.0, dt=1.0)
        exH = {"solution": {"T_eq": 3.82, "solid_fraction": 0.2, "k_f": 2.05, "M_s": 0.18}}
        SH = sr.make(dim="spatial_1D", conf="shelf", height=0.05, diameter=0.05, K=200, prog=progH, extra=exH)
        dtH, _ = sr.step_info(SH); progH["t_tot"] = float(int(dtH * 9800))
        SH = sr.make(dim="spatial_1D", conf="shelf", height=0.05, diameter=0.05, K=200, prog=progH, extra=exH)
        recH = dict(label="spatial_1D/shelf h=0.05 K=200 T_eq=3.82 C, 20 % solute", dim="spatial_1D", conf="shelf", S=SH, dt=dtH, prog=progH, error=None, must_complete=True)
        sr.run(SH)
    except Exception as e:
        recH["error"] = e
    recs.append(recH)
    # 2D: shelf and jacket, default and non-default aspect ratios
    for conf, h, d in ([("jacket", 0.06, 0.06), ("jacket", 0.05, 0.12), ("VISF", 0.06, 0.12)] if tier == "quick" else
                       [("jacket", 0.06, 0.06), ("jacket", 0.05, 0.12), ("jacket", 0.08, 0.05), ("shelf", 0.06, 0.12), ("shelf", 0.05, 0.05), ("VISF", 0.06, 0.12), ("VISF", 0.06, 0.03)]):
        prog = dict(start=20, end=-50, rate=2 / 60, holds=[], t_tot=3600.0, dt=1.0)
        # VISF: a long vacuum window during cooling, height != diameter (the top flux is an axial gradient)
        ex = {"VISF": {"t_vac_start": 0.1, "t_vac_duration": 1.0, "kappa": 0.02}} if conf == "VISF" else None
        S = sr.make(dim="spatial_2D", conf=conf, height=h, diameter=d, K=300, prog=prog, extra=ex)
        dt, _ = sr.step_info(S)
        prog["t_tot"] = float(int(dt * 9800))
        S = sr.make(dim="spatial_2D", conf=conf, height=h, diameter=d, K=300, prog=prog, extra=ex)
        rec = dict(label="spatial_2D/%s h=%g d=%g K=300" % (conf, h, d), dim="spatial_2D", conf=conf, S=S, dt=dt, nsteps=9801, prog=prog, error=None)
        try:
            sr.run(S)
        except Exception as e:
            rec["error"] = e
        recs.append(rec)
    c1, l1, c2, l2 = [], [], [], []
    for rec in recs:
        lab = rec["label"]
        if rec["error"] is not None:
            rep.case(lab, nontrivial=False); rep.count("raised: %s" % type(rec["error"]).__name__)
            if rec.get("must_complete"):
                # a fixed corpus configuration (independent of the seed) whose process is long enough: it completes on the pinned tree
                rep.violation("corpus-run-raises", "%s: the run raises %r although the process is long enough for this vial" % (lab, rec["error"]), dict(run=lab, error=repr(rec["error"])))
            continue
        rep.case(lab, nontrivial=True, sample=dict(run=lab) if len(rep.samples) < 4 else None)
        rep.count(rec["dim"] + "/" + rec["conf"])
        if rec["dim"] == "spatial_1D":
            audit_1d(rep, rec)
            txt, info = sr.sn1d_case(rec["S"], rec["dt"], rng); c1.append(txt); l1.append(lab)
        else:
            audit_2d(rep, rec)
            txt, info = sr.sn2d_case(rec["S"], rec["dt"], rng); c2.append(txt); l2.append(lab)
    rc, out = common.coq_eval("c02_0", c07.HEAD % (coq_list(c1), "(@nil (@Sn1D.p1d PrimFloat.float * PrimFloat.float * list (PrimFloat.float * PrimFloat.float * PrimFloat.float) * list (PrimFloat.float * PrimFloat.float * PrimFloat.float * PrimFloat.float) * list (PrimFloat.float * PrimFloat.float * PrimFloat.float * PrimFloat.float * PrimFloat.float)))"), timeout=900)
    blocks = common.eval_blocks(out)
    if rc != 0 or len(blocks) != 2:
        rep.violation("correspondence-run", "Coq evaluation failed: " + out[-500:], dict(log=out[-2000:]), found_input=False)
    else:
        b1 = common.parse_nat_list(blocks[0])
        rep.coverage["traces_validated_against_impl"] = len(c1) - len(b1)
        for b in b1:
            rep.violation("model-vs-impl 1D", "one-step correspondence model/Sn1D.v <-> _run_1D no longer checks on %s" % l1[b], dict(correspondence="model/Sn1D.v", run=l1[b]), found_input=False)
    c07.coq_2d(rep, c2, l2, "c02_2d")
    if not ok:
        rep.violation("proof-broken", "proof obligations of C02 do not check: " + msg, dict(theorem="props/C02.v", log=msg), found_input=False)
