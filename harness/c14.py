"""C14  Spatial repetitions are reproducible in every execution mode."""
import multiprocessing as mp
import random

import numpy as np

import common
import impl
import snowing_runs as sr


def table(S):
    """rows of the results table with the values taken BY COLUMN NAME (sorted names), so that a mislabelled column is a difference"""
    df = S.results
    cols = sorted(df.columns)
    return [[None if v is None else float(v) for v in row] for row in df[cols].to_numpy().tolist()], list(df.index)


def same(a, b):
    return len(a) == len(b) and all((x is None and y is None) or (x is not None and y is not None and (x == y or (np.isnan(x) and np.isnan(y)))) for x, y in zip(a, b))


def check(rep, tier):
    rng = random.Random(rep.seed)
    ok, msg = common.proof_stage(rep, "C14", ["theories/model/SnRep.vo"])
    rep.rule = ("multi-repetition Snowing studies (Nrep in 1..8; homogeneous, 1D, (thorough) 2D; shelf / VISF) run sequentially and in parallel with mp.cpu_count overridden to 1, 2, 4, 16: "
                "the table must have one row per repetition in seed order, be bit-identical between modes and worker counts, row i must equal the single run with seed i on a fresh object, "
                "a single run (Nrep=1) must equal repetition 0, and repeating run() must reproduce the table; non-trivial = Nrep >= 2")
    rep.trusted = ["Coq 8.16.1 kernel", "each repetition is a pure function of its seed (np.random.seed(2024); np.random.seed(seed)) -- the hypothesis `f` of the theorems, checked here by bit-identity",
                   "multiprocessing fork start method; OS scheduling sampled via cpu_count override; the order freedom of unordered pool APIs (imap_unordered) is exercised adversarially by a harness-side pool wrapper"]
    plans = [("homogeneous", 3, [("sequential", None), ("async", 2), ("async", 16)]), ("homogeneous", 5, [("sequential", None), ("async", 4)]),
             ("spatial_1D", 2, [("sequential", None), ("async", 2)]),
             ("spatial_2D", 2, [("sequential", None), ("async", 2)])]       # 2D: sequential (several repetitions in ONE process) and parallel rows vs single runs with seed i
    if tier != "quick":
        plans += [("homogeneous", 8, [("sequential", None), ("async", 1), ("async", 3)]), ("spatial_1D", 3, [("sequential", None), ("async", 16)]),
                  ("spatial_2D", 2, [("sequential", None), ("async", 2)])]
    orig_cpu = mp.cpu_count
    for dim, Nrep, modes in plans:
        conf = "shelf" if dim != "spatial_1D" or rng.random() < 0.5 else "VISF"
        if dim == "homogeneous":
            kw = dict(dim=dim, conf="shelf", height=0.01, diameter=0.01, K=rng.choice([30, 50]), prog=dict(start=20, end=-50, rate=1 / 60, holds=[], t_tot=2.5 * 3600, dt=1.0))
        elif dim == "spatial_1D":
            kw = dict(dim=dim, conf=conf, height=0.06, diameter=0.05, K=300, prog=dict(start=20, end=-50, rate=2 / 60, holds=[], t_tot=9000.0, dt=1.0))
        else:
            kw = dict(dim=dim, conf="shelf", height=0.06, diameter=0.12, K=300, prog=dict(start=20, end=-50, rate=2 / 60, holds=[], t_tot=10500.0, dt=1.0))
        lab = "%s/%s Nrep=%d" % (dim, kw["conf"], Nrep)
        tables = {}
        try:
            # single runs with seed i on fresh objects
            singles = []
            for i in range(Nrep):
                S1 = sr.make(**kw)
                sr.run(S1, seed=i)                 # one repetition with seed i on a fresh object; its values are read by name
                singles.append(table(S1)[0][0])
            S0 = sr.make(**kw); sr.run(S0)
            rep0, _ = table(S0)
            for how, ncpu in modes:
                mp.cpu_count = (lambda n=ncpu: n) if ncpu else orig_cpu
                S = sr.make(Nrep=Nrep, **kw)
                with impl.quiet(), impl.adversarial_pool():
                    S.run(how=how)
                    tb, idx = table(S)
                    if how == "sequential" and dim != "spatial_2D":
                        S.run(how=how)
                        tb2, _ = table(S)
                        if not all(same(a, b) for a, b in zip(tb, tb2)) or len(tb) != len(tb2):
                            rep.violation("repeat-differs", "%s: running the study twice on the same object gives different tables" % lab, dict(run=lab, how=how))
                tables[(how, ncpu)] = tb
                rep.case("%s %s cpu=%s" % (lab, how, ncpu), nontrivial=Nrep >= 2, sample=dict(run=lab, how=how, cpu_count=ncpu, rows=len(tb)) if len(rep.samples) < 4 else None)
                rep.count(how)
                if idx != list(range(Nrep)) or len(tb) != Nrep:
                    rep.violation("rows-not-in-seed-order %s" % how, "%s how=%r: table index %s, expected 0..%d" % (lab, how, idx, Nrep - 1), dict(run=lab, how=how, cpu_count=ncpu)); continue
                for i in range(Nrep):
                    if not same(tb[i], singles[i]):
                        rep.violation("rep-vs-single %s" % how, "%s how=%r cpu_count=%r: row %d = %s but the single run with seed %d gives %s" % (lab, how, ncpu, i, tb[i], i, singles[i]),
                                      dict(run=lab, how=how, cpu_count=ncpu, repetition=i)); break
            if not same(rep0[0], singles[0]):
                rep.violation("single-run-vs-rep0", "%s: a plain single run gives %s, repetition 0 gives %s" % (lab, rep0[0], singles[0]), dict(run=lab))
            vals = list(tables.values())
            if any(len(v) != len(vals[0]) or not all(same(a, b) for a, b in zip(v, vals[0])) for v in vals[1:]):
                rep.violation("modes-differ", "%s: tables differ between execution modes / worker counts %s" % (lab, list(tables)), dict(run=lab))
        except Exception as e:
            rep.violation("study-crash %s" % type(e).__name__, "%s (%s) raises %r" % (lab, list(tables) or modes[0], e), dict(run=lab, error=repr(e)))
        finally:
            mp.cpu_count = orig_cpu
    # ---- histories of one object: a parallel study, then the shelf coefficient / the program / a constant is changed (in memory, and with the
    #      configuration file no longer matching what the object holds), then another parallel study: rows = single runs of the object as it is NOW ----
    import os, shutil, yaml
    for dim in (["homogeneous"] if tier == "quick" else ["homogeneous", "spatial_1D"]):
        lab = "%s history: async study, change k / opcond / const (file rewritten), async study" % dim
        try:
            h, d = (0.01, 0.01) if dim == "homogeneous" else (0.06, 0.05)
            prog = dict(start=20, end=-50, rate=1 / 60 if dim == "homogeneous" else 2 / 60, holds=[], t_tot=2.5 * 3600 if dim == "homogeneous" else 9000.0, dt=1.0)
            over = sr.make_over(dim, "shelf", h, d, None)
            path = os.path.join(impl.scratch(), "c14_hist_%s.yaml" % dim)
            open(path, "w").write(yaml.safe_dump(over))
            sn = impl.snowing_mod()
            S = sn.Snowing(k={"int": 0, "ext": 0, "s0": 50 if dim == "homogeneous" else 300, "s_sigma_rel": 0}, opcond=sr.gen_opcond.build(prog, impl.opcond_mod()), Nrep=3, configPath=path)
            mp.cpu_count = lambda: 2
            with impl.quiet(), impl.adversarial_pool():
                S.run(how="sequential"); t0, _ = table(S)
                S.run(how="async"); t1, _ = table(S)
                if len(t0) != len(t1) or not all(same(a, b) for a, b in zip(t0, t1)):
                    rep.violation("history parallel-vs-sequential", "%s: first sequential and parallel studies of the same object differ" % lab, dict(run=lab))
                # change the object in memory: another shelf coefficient, another program, another kinetic constant; the file on disk is rewritten
                # with something else entirely (the object holds its own constants)
                S.k = dict(S.k, s0=S.k["s0"] * 0.8)
                prog2 = dict(prog, rate=prog["rate"] * 1.5)
                S.opcond = sr.gen_opcond.build(prog2, impl.opcond_mod())
                S.const["b"] = 30.0
                open(path, "w").write(yaml.safe_dump(dict(over, kinetics={"a": 22.0, "b": 12.0})))
                S.run(how="sequential"); t3, _ = table(S)      # a sequential study of the changed object (there was a sequential study before the change)
                S.run(how="async"); t2, idx2 = table(S)
            rep.case(lab, nontrivial=True); rep.count("history-studies")
            if idx2 != [0, 1, 2] or len(t2) != 3 or len(t3) != 3 or not all(same(a, b) for a, b in zip(t2, t3)):
                rep.violation("history parallel-vs-sequential", "%s: the parallel table after the changes %s differs from the sequential table of the same object %s (first study gave %s)" % (
                    lab, t2[:1], t3[:1], t1[:1]), dict(run=lab, history=["async", "k, opcond, const changed; file rewritten", "async", "sequential"]))
            elif all(same(a, b) for a, b in zip(t1, t2)):
                rep.violation("history stale-study", "%s: the second parallel study reproduces the first one although shelf coefficient, program and a constant were changed" % lab, dict(run=lab))
        except Exception as e:
            rep.violation("study-crash %s" % type(e).__name__, "%s raises %r" % (lab, e), dict(run=lab, error=repr(e)))
        finally:
            mp.cpu_count = orig_cpu
    if not ok:
        rep.violation("proof-broken", "proof obligations of C14 do not check: " + msg, dict(theorem="props/C14.v", log=msg), found_input=False)
