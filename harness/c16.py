"""C16  Vial position groups partition the batch and mean the same everywhere."""
import random

import numpy as np

import common
import impl
import c09
from common import zlit, coq_list

GROUPS = ["corner", "edge", "side", "core"]
CODE = {"corner": 1, "edge": 2, "side": 3, "core": 4, "center": 5, "all": 6}
LCODE = {"corner": 1, "edge": 2, "side": 3, "core": 4}
ARR = {"square": "Square", "hexagonal": "Hexagonal"}


def expected_class(arr, nz, e):
    flat = 1 if nz == 1 else 0
    if arr == "square":
        return {3 - flat: "corner", 2 - flat: "edge"}.get(e, "side" if e == 1 else "core" if e == 0 else None)
    if e == 5 - flat:
        return "corner"
    if 0 < e < 5 - flat:
        return "edge"
    return "core" if e == 0 else None


def canon(arr, nz, g):
    """'side' is a synonym of 'edge' on a flat shelf and in hexagonal packing."""
    if g == "side" and (arr == "hexagonal" or nz == 1):
        return "edge"
    if g == "center":
        return "core"
    return g


def check(rep, tier):
    rng = random.Random(rep.seed)
    sf = impl.snowflake_mod()
    oc = impl.opcond_mod()
    from ethz_snow import snowfall as sfall
    ok, msg = common.proof_stage(rep, "C16", ["theories/model/Groups.vo"])
    rep.rule = ("all batch shapes with nx,ny >= 2 in the box, both arrangements; per shape: getVialGroup for every group and 8 random "
                "combinations, the group label of every vial in the statistics table and in the trajectory table, the Snowfall "
                "group filters and the recording selection by group; compared with model/Groups.v and with the geometric class; "
                "non-trivial = the shape has at least two different classes")
    rep.trusted = ["Coq 8.16.1 kernel + vm_compute", "pandas .loc assignment / melt / isin semantics as modelled by `relabel`",
                   "model/Groups.v hand-written; tied to snowflake.py/snowfall.py by this correspondence"]
    if tier == "quick":
        shapes = [(x, y, z) for x in range(2, 6) for y in range(2, 6) for z in (1, 2, 3)]
    else:
        shapes = [(x, y, z) for x in range(2, 8) for y in range(2, 8) for z in (1, 2, 3, 4)]
        shapes += [(rng.randint(2, 11), rng.randint(2, 11), rng.randint(1, 3)) for _ in range(15)]
    op = oc.OperatingConditions(t_tot=20, cooling={"rate": 0.5, "start": 20, "end": 10})
    cases = []
    for arr in ("square", "hexagonal"):
        cfg = impl.arrangement_cfg(arr)
        for shape in shapes:
            nx, ny, nz = shape
            N = nx * ny * nz
            key = "%s %dx%dx%d" % (arr, nx, ny, nz)
            rep.count(arr); rep.count("flat" if nz == 1 else "pallet")
            G = c09.geometric(arr, nx, ny, nz)
            maxI = (4 if arr == "square" else 6) + (2 if nz > 1 else 0)
            ext = maxI - G.sum(axis=1)
            cls = [expected_class(arr, nz, int(e)) for e in ext]
            rep.case(key, nontrivial=len(set(cls)) > 1, sample=dict(arrangement=arr, shape=shape, classes=sorted(set(map(str, cls)))) if rng.random() < 0.03 else None)
            # position classes are geometry: they must not depend on the heat-transfer coefficients (incl. insulated batches, k_ext = 0)
            k = {"int": rng.choice([5, 0, 50]), "ext": rng.choice([5, 0, 0, 40]), "s0": 20, "s_sigma_rel": 0}
            rep.count("k_ext=0" if k["ext"] == 0 else "k_ext>0")
            try:
                with impl.quiet():
                    S = sf.Snowflake(k=dict(k), N_vials=shape, configPath=cfg, opcond=op, dt=10, storeStates="all")
                    fresh = {g: np.asarray(S.getVialGroup(g), dtype=bool) for g in GROUPS + ["all", "center"]}      # before anything was built
                    S.run()
                    masks = {g: np.asarray(S.getVialGroup(g), dtype=bool) for g in GROUPS + ["all", "center"]}
                    combos = [rng.sample(GROUPS + ["center"], rng.randint(2, 3)) for _ in range(8)]
                    cmasks = [np.asarray(S.getVialGroup(c), dtype=bool) for c in combos]
                    stats_df, traj_df = S.to_frame(n_timeSteps=2)
                    # recording selection by group
                    recs, reclab, subsel = {}, {}, {}
                    for g in GROUPS:
                        if masks[g].any():
                            Sg = sf.Snowflake(k=dict(k), N_vials=shape, configPath=cfg, opcond=op, dt=10, storeStates=g)
                            Sg.run()
                            _, tg = Sg.to_frame(n_timeSteps=2)
                            recs[g] = sorted(set(int(v) for v in tg["vial"]))
                            reclab[g] = sorted(set((int(v), str(l)) for v, l in zip(tg["vial"], tg["group"])))
                            # a random / uniform sub-selection of the group must stay inside the group
                            nsel = rng.randint(1, int(masks[g].sum()))
                            word = rng.choice(["random", "uniform"])
                            Sr = sf.Snowflake(k=dict(k), N_vials=shape, configPath=cfg, opcond=op, dt=10,
                                              storeStates=rng.choice(["%s_%s_%d", "%s.%s.%d"]) % (g, word, nsel))
                            Sr.run()
                            _, tr = Sr.to_frame(n_timeSteps=2)
                            subsel[g] = (word, nsel, sorted(set((int(v), str(l)) for v, l in zip(tr["vial"], tr["group"]))))
                    SF = sfall.Snowfall(Nrep=2, k=dict(k), N_vials=shape, configPath=cfg, opcond=op, dt=10)
                    SF.run(how="sequential")
                    fdf = SF.to_frame()
                    filt = {}
                    tn_rows = fdf[fdf.variable == "t_nucleation"]
                    flab = {int(x["vial"]): str(x["group"]) for _, x in fdf[fdf.seed == 0].iterrows()}
                    for g in GROUPS:
                        # the vials the group filter of the accessors selects: its values are matched against the table rows, vial by vial
                        api = np.asarray(SF.nucleationTimes(group=g), dtype=float)
                        per_vial = [tn_rows[tn_rows.vial == v]["value"].to_numpy(dtype=float) for v in range(N)]
                        sel = [v for v in range(N) if masks[g][v]]
                        want_vals = tn_rows[tn_rows.vial.isin(sel)]["value"].to_numpy(dtype=float)
                        same_vals = len(api) == len(want_vals) and np.array_equal(api, want_vals, equal_nan=True)
                        # which vials would have to be selected to produce what the accessor returned (by count per repetition)
                        filt[g] = (sel if same_vals else sorted(set(int(v) for v in fdf[fdf.group.isin([g]) & (fdf.seed == 0)]["vial"])), len(api))
            except Exception as e:
                rep.violation("crash %s" % type(e).__name__,
                              "%s: group machinery raises %s: %s" % (key, type(e).__name__, str(e)[:200]),
                              dict(arrangement=arr, shape=shape, error=repr(e)[:500]))
                continue
            # ---- oracle: the property stated directly -----------------------------------------------
            for v in range(N):
                if canon(arr, nz, flab.get(v, "?")) != cls[v]:
                    rep.violation("snowfall-table-label %s" % arr, "%s vial %d of class %s is labelled %r in the Snowfall table" % (key, v, cls[v], flab.get(v)), dict(arrangement=arr, shape=shape, vial=v))
                    break
            for g in fresh:
                if not np.array_equal(fresh[g], masks[g]):
                    rep.violation("getVialGroup history", "%s (k=%r): getVialGroup(%r) is %s on the fresh object and %s after run()" % (
                        key, k, g, np.nonzero(fresh[g])[0].tolist()[:8], np.nonzero(masks[g])[0].tolist()[:8]), dict(arrangement=arr, shape=shape, k=k, group=g))
                    break
            slab = stats_df[stats_df.variable == "t_nucleation"].sort_values("vial")["group"].tolist()
            tl = traj_df[(traj_df.state == "temperature")]
            tl = tl[tl.Time == tl.Time.min()].sort_values("vial")["group"].tolist()
            for i in range(N):
                inn = [g for g in ("corner", "edge", "side", "core") if masks[g][i]]
                classes = set(canon(arr, nz, g) for g in inn)
                if len(classes) != 1 or classes != {cls[i]}:
                    rep.violation("getVialGroup %s %s" % (arr, "flat" if nz == 1 else "pallet"),
                                  "%s vial %d (exposure %d, class %s) is in groups %s" % (key, i, ext[i], cls[i], inn),
                                  dict(arrangement=arr, shape=shape, vial=i, groups=inn, expected=cls[i]))
                    break
                if canon(arr, nz, str(slab[i])) != cls[i]:
                    rep.violation("stats-label %s %s %s" % (arr, "flat" if nz == 1 else "pallet", cls[i]),
                                  "%s vial %d of class %s is labelled %r in the statistics table" % (key, i, cls[i], slab[i]),
                                  dict(arrangement=arr, shape=shape, vial=i, label=str(slab[i]), expected=cls[i]))
                    break
                if canon(arr, nz, str(tl[i])) != cls[i]:
                    rep.violation("traj-label %s %s %s" % (arr, "flat" if nz == 1 else "pallet", cls[i]),
                                  "%s vial %d of class %s is labelled %r in the trajectory table" % (key, i, cls[i], tl[i]),
                                  dict(arrangement=arr, shape=shape, vial=i, label=str(tl[i]), expected=cls[i]))
                    break
            if not (masks["all"] == (masks["corner"] | masks["edge"] | masks["side"] | masks["core"])).all() or not masks["all"].all():
                rep.violation("all-not-union", "%s: 'all' is not the union of the classes" % key, dict(arrangement=arr, shape=shape))
            for g in GROUPS:
                want = sorted(np.nonzero(masks[g])[0].tolist())
                if g in recs and recs[g] != want:
                    rep.violation("record-by-group %s" % g, "%s: storeStates=%r records %s but getVialGroup gives %s" % (key, g, recs[g][:8], want[:8]),
                                  dict(arrangement=arr, shape=shape, group=g, recorded=recs[g], expected=want))
                for (v, l) in reclab.get(g, []):
                    if canon(arr, nz, l) != cls[v]:
                        rep.violation("traj-label recorded-subset", "%s with storeStates=%r: vial %d of class %s is labelled %r in the trajectory table" % (key, g, v, cls[v], l),
                                      dict(arrangement=arr, shape=shape, storeStates=g, vial=v, label=l, expected=cls[v]))
                        break
                if g in subsel:
                    word, nsel, vl = subsel[g]
                    outside = [v for v, _ in vl if not masks[g][v]]
                    wrong = [(v, l) for v, l in vl if canon(arr, nz, l) != cls[v]]
                    if outside or len(vl) > nsel or (word == "random" and len(vl) != nsel) or wrong:
                        rep.violation("record-subselection %s" % word,
                                      "%s with storeStates='%s_%s_%d' records vials %s (labels %s); group %r is %s" % (key, g, word, nsel, [v for v, _ in vl], wrong[:3], g, want[:10]),
                                      dict(arrangement=arr, shape=shape, group=g, word=word, count=nsel, recorded=vl))
                got, n_api = filt[g]
                if got != want or n_api != 2 * len(want):
                    syn = g == "side" and (arr == "hexagonal" or nz == 1)
                    rep.violation("snowfall-filter side synonym" if syn else "snowfall-filter %s" % g,
                                  "%s: Snowfall filter group=%r returns vials %s (%d values for 2 repetitions) but getVialGroup(%r) is %s" % (
                                      key, g, got[:8], n_api, g, want[:8]),
                                  dict(arrangement=arr, shape=shape, group=g, filter=got, query=want))
            # ---- material for the Coq correspondence -------------------------------------------------
            gl = [[CODE[g]] for g in GROUPS + ["all", "center"]] + [[CODE[g] for g in c] for c in combos]
            ml = [masks[g] for g in GROUPS + ["all", "center"]] + cmasks
            mtxt = coq_list("(%s, %s)" % (coq_list(zlit(c) for c in gs), coq_list(common.coq_bool(b) for b in m)) for gs, m in zip(gl, ml))
            sl = coq_list(zlit(LCODE.get(str(x), 0)) for x in slab)
            tt = coq_list(zlit(LCODE.get(str(x), 0)) for x in tl)
            fl = coq_list("(%s, %s)" % (zlit(CODE[g]), coq_list(zlit(v) for v in filt[g][0])) for g in GROUPS)
            cases.append((key, "(%s, %s, %s, %s, %s, %s, %s, %s)" % (ARR[arr], zlit(nx), zlit(ny), zlit(nz), mtxt, sl, tt, fl)))
    body = ("From Coq Require Import ZArith List Bool. Import ListNotations.\nFrom Snow Require Import Topology Groups.\nOpen Scope Z_scope.\n"
            "Definition cases := %s.\nEval vm_compute in bad_cases c16_case_ok cases.\n")
    bad = []
    CH = 40
    for ci in range(0, len(cases), CH):
        ch = cases[ci:ci + CH]
        rc, out = common.coq_eval("c16_%d" % ci, body % coq_list(c for _, c in ch), timeout=900)
        blocks = common.eval_blocks(out)
        if rc != 0 or len(blocks) != 1:
            rep.violation("correspondence-run", "Coq evaluation of the groups model failed: " + out[-400:], dict(log=out[-2000:]), found_input=False)
            continue
        bad += [ch[b][0] for b in common.parse_nat_list(blocks[0])]
    rep.coverage["traces_validated_against_impl"] = len(cases) - len(bad)
    flagged = " ".join(v["what"] for v in rep.violations) + " ".join(w for _, w in rep.known_hit)
    for kbad in bad:
        if kbad not in flagged:
            rep.violation("model-vs-impl " + kbad.split()[0],
                          "correspondence model/Groups.v <-> snowflake.py/snowfall.py no longer checks on %s (the direct oracle accepts the implementation there)" % kbad,
                          dict(correspondence="model/Groups.v", case=kbad), found_input=False)
    if not ok:
        rep.violation("proof-broken", "proof obligations of C16 do not check: " + msg, dict(theorem="props/C16.v", log=msg), found_input=False)
