"""Generator of cooling programs (shared by C05 / C10 / Snowflake-side checks)."""
import math


def gen_program(rng, max_holds=4, allow_equal_temps=True):
    start = rng.choice([20, 20, 25, 10, 5, 0, -5, round(rng.uniform(-10, 40), rng.choice([0, 1, 3]))])
    span = rng.choice([0, 0.5, 5, 30, 70, round(rng.uniform(0, 80), rng.choice([0, 1, 2]))])
    if rng.random() < 0.06:
        span = 0
    end = start - span
    rate = rng.choice([0.5 / 60, 1 / 60, 0.1, 0.5, 1.0, round(10 ** rng.uniform(-3, 0), 5)])
    dt = rng.choice([0.1, 0.5, 1, 2, 2, 5, 10, 10, 60, round(rng.uniform(0.1, 30), rng.choice([0, 1, 2]))])
    if dt <= 0:
        dt = 1
    nh = rng.choice([0, 0, 1, 1, 2, 3, max_holds])
    holds = []
    for _ in range(nh):
        kind = rng.random()
        if kind < 0.12 and allow_equal_temps and holds:
            temp = rng.choice(holds)["temp"]
        elif kind < 0.2:
            temp = start
        elif kind < 0.28:
            temp = end
        else:
            temp = round(rng.uniform(end, start), rng.choice([0, 1, 2]))
            temp = min(max(temp, end), start)
        dk = rng.random()
        if dk < 0.1:
            dur = 0
        elif dk < 0.25:
            dur = round(rng.uniform(0, dt), 3)
        elif dk < 0.55:
            dur = dt * rng.randint(1, 40)
        else:
            dur = round(rng.uniform(0, 3000), rng.choice([0, 1]))
        holds.append({"duration": dur, "temp": temp})
    implied = (start - end) / rate + sum(h["duration"] for h in holds)
    tk = rng.random()
    if tk < 0.35:
        t_tot = dt * rng.randint(1, 60) + math.ceil(implied / dt) * dt * rng.choice([0, 1, 1])
    elif tk < 0.5:
        t_tot = max(dt / 2, round(implied * rng.uniform(0.2, 0.95), 2)) if implied > 0 else dt * 3.5
    else:
        t_tot = round(implied * rng.uniform(1.0, 1.6) + rng.uniform(0, 40 * dt), rng.choice([0, 1, 2]))
    if t_tot <= 0:
        t_tot = dt * 2.2
    # keep the profile small enough to ship to Coq
    while t_tot / dt > 400:
        dt = dt * 10
    return dict(start=start, end=end, rate=rate, dt=float(dt), t_tot=float(t_tot), holds=holds,
                container=rng.choice(["list", "list", "tuple", "dict"]))


def build(prog, oc, cnTemp=None):
    holding = None
    if prog["holds"]:
        holding = [dict(h) for h in prog["holds"]]
        if len(holding) == 1 and prog.get("container") == "dict":
            holding = holding[0]
        elif prog.get("container") == "tuple":
            holding = tuple(holding)
    return oc.OperatingConditions(t_tot=prog["t_tot"], cooling={"rate": prog["rate"], "start": prog["start"], "end": prog["end"]},
                                  holding=holding, cnTemp=cnTemp)


def continuous(prog):
    """The continuous piecewise-linear program as a function t -> T, and the segment end times."""
    hs = sorted(prog["holds"], key=lambda h: -h["temp"])
    pts = [(0.0, prog["start"])]
    t, T = 0.0, prog["start"]
    for h in hs + [{"temp": prog["end"], "duration": float("inf")}]:
        tr = (T - h["temp"]) / prog["rate"]
        t += tr; T = h["temp"]; pts.append((t, T))
        t += h["duration"]; pts.append((t, T))
    def P(x):
        for (t0, T0), (t1, T1) in zip(pts, pts[1:]):
            if x <= t1:
                if t1 == t0 or T1 == T0:
                    return T1 if x >= t0 else T0
                return T0 + (T1 - T0) * (x - t0) / (t1 - t0)
        return pts[-1][1]
    return P, pts
