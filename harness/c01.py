"""C01  Every vial step obeys the shelf-scale heat and phase balance."""
import random

import numpy as np

import common
import impl
import c09
import flake_runs as fr
from common import coq_list

HEAD = ("From Coq Require Import ZArith List PrimFloat. Import ListNotations.\nFrom Snow Require Import Topology Flake FlakeF.\n"
        "Definition cases := %s.\nEval vm_compute in bad_cases flake_case_ok cases.\n"
        "Definition runs := %s.\nEval vm_compute in bad_cases flake_run_ok runs.\n")


def numpy_step(S, G, hshelf, Tsh, T, sig, dec):
    """Independent restatement of one step of the published model (geometric neighbours)."""
    c = S.const
    A = c["A"]
    deg = G.sum(axis=1)
    maxI = (4 if c["vial_arrangement"] == "square" else 6) + (2 if S.N_vials[2] > 1 else 0)
    q = S.k["int"] * A * (G @ T - deg * T) + (maxI - deg) * S.k["ext"] * A * (Tsh - T) + hshelf * (Tsh - T)
    T2, s2 = T.copy(), sig.copy()
    solid = sig != 0
    cp = c["solid_fraction"] * c["cp_s"] + (1 - c["solid_fraction"]) * (sig * (c["cp_i"] - c["cp_w"]) + c["cp_w"])
    with np.errstate(all="ignore"):
        ds = q / (c["alpha"] - c["depression"] * c["mass"] * cp / (1 - sig) ** 2) * S.dt
    s2[solid] = sig[solid] + ds[solid]
    T2[solid] = c["T_eq"] - c["depression"] / (1 - s2[solid])
    liq = ~solid
    T2[liq] = T[liq] + q[liq] / c["hl"] * S.dt
    j = liq & dec
    if S.initIce == "indirect":
        s2[j] = (c["T_eq_l"] - T2[j]) / (c["depression"] + c["Dh"] * (1 - c["solid_fraction"]) / c["cp_solution"])
    else:
        g = c["Dh"] * (1 - c["solid_fraction"]) / c["cp_solution"]
        x = c["T_eq"] - T2[j]
        s2[j] = (x + g - np.sqrt((x - g) ** 2 + 4 * g * c["depression"])) / (2 * g)
    T2[j] = c["T_eq"] - c["depression"] / (1 - s2[j])
    return T2, s2, q


def check(rep, tier):
    rng = random.Random(rep.seed)
    ok, msg = common.proof_stage(rep, "C01", ["theories/model/FlakeF.vo"])
    nruns = 40 if tier == "quick" else 400
    cap = 25000 if tier == "quick" else 250000
    rep.rule = ("random Snowflake runs (shapes up to 6x6x3 capped by vial count, both arrangements, k sets incl. random shelf variability and zeros, "
                "dt 2..40, 0-2 holds, T_init, solution/kinetic overrides, both initial-ice methods, real generator); a case = one recorded "
                "step (columns k, k+1 of the state matrix): every step with a nucleation event plus a random sample; the binary64 instance of the "
                "Coq step must reproduce column k+1 from column k (2^-30 relative); an independent numpy restatement with geometric "
                "neighbours is the failing-input search; non-trivial = the step contains a nucleation jump or a solidifying vial")
    rep.trusted = ["Coq 8.16.1 kernel + vm_compute", "binary64 instance of the generic model (rounding not analysed; tolerance 2^-30)",
                   "nucleation decisions are observed from the implementation (the probability law is C03)",
                   "scipy CSR mat-vec = sum over stored entries", "harness/c01.py numpy restatement"]
    rep.assumptions = ["H_shelf (random shelf variability) is an input observed from the object", "k_int, k_ext, A from the configuration"]
    step_cases, run_cases, meta = [], [], []
    used = 0
    for ri in range(nruns):
        cfg = fr.gen_config(rng, max_vials=36 if tier == "quick" else 150, cn=(ri % 3 == 2))
        if ri % 8 == 1:
            # always some flat shelves with a large random shelf variability: some draws are negative and are clipped to 0
            cfg["shape"] = (cfg["shape"][0] + 1, cfg["shape"][1] + 1, 1); cfg["k"] = dict(cfg["k"], s_sigma_rel=1.0)
        try:
            r = fr.run(cfg)
        except Exception as e:
            rep.violation("crash %s" % type(e).__name__, "Snowflake.run raises %r for %s" % (e, cfg), dict(config=cfg, error=repr(e)))
            continue
        todo = [(cfg, r, "")]
        shp = cfg["shape"]
        if ri % 4 == 1 and shp[0] != shp[1]:
            # history on one object: the batch is re-shaped (same number of vials) and run again
            shp2 = (shp[1], shp[0], shp[2])
            try:
                def reshape(S_, shp2=shp2):
                    S_.N_vials = shp2
                r2 = fr.rerun(r, reshape)
                todo.append((dict(cfg, shape=shp2, history="run %s, N_vials = %s, run" % (shp, shp2)), r2, "after re-shaping the same object: "))
                rep.count("reshape-history")
            except Exception as e:
                rep.violation("crash %s" % type(e).__name__, "re-shaped Snowflake.run raises %r for %s -> %s" % (e, cfg, shp2), dict(config=cfg, error=repr(e)))
        if ri % 4 == 3:
            # history on one object: the cooling program is edited in place (same dt and t_tot) and the object is run again;
            # the shelf temperature of every step is the one of the program configured NOW
            warm = min(cfg["prog"]["start"], cfg["prog"]["end"] + 25)
            prog2 = dict(cfg["prog"], end=warm, holds=[h for h in cfg["prog"]["holds"] if warm <= h["temp"]])
            try:
                def edit(S_, prog2=prog2, warm=warm):
                    S_.opcond.cooling["end"] = warm
                    S_.opcond.holding = [dict(h) for h in prog2["holds"]] or None
                r3 = fr.rerun(r, edit)
                todo.append((dict(cfg, prog=prog2, history="run, cooling program edited in place, run"), r3, "after editing the cooling program of the same object: "))
                rep.count("program-edit-history")
            except Exception as e:
                rep.violation("crash %s" % type(e).__name__, "Snowflake.run after an in-place program edit raises %r for %s" % (e, cfg), dict(config=cfg, error=repr(e)))
        for cfg, r, pre in todo:
          nv0 = len(rep.violations)
          for _once in (0,):
            S, N, n = r["S"], r["N"], r["nsteps"]
            dec = fr.decisions(r)
            G = c09.geometric(cfg["arr"], *cfg["shape"])
            ev = [int(k) for k in np.nonzero(dec.any(axis=1))[0] if k < n - 1]
            some = sorted(set(ev[:40] + [0, 1, n - 2] + rng.sample(range(n - 1), min(n - 1, 40))))
            some = [k for k in some if 0 <= k < n - 1]
            rep.count(cfg["arr"]); rep.count(cfg["initIce"]); rep.count("sigma_rel>0" if cfg["k"]["s_sigma_rel"] > 0 else "sigma_rel=0")
            rep.count("nucleation-steps", len(ev))
            # the shelf coefficients used are the configured ones: the (clipped, non-negative) k['shelf'] times the vial's base area
            ksh = np.broadcast_to(np.asarray(S.k["shelf"], dtype=float), (N,)) if "shelf" in S.k else None
            if (r["hshelf"] < 0).any() or (ksh is not None and not np.allclose(r["hshelf"], ksh * S.const["A"], rtol=1e-12, atol=0)):
                i = int(np.argmax((r["hshelf"] < 0) | (ksh is not None and ~np.isclose(r["hshelf"], ksh * S.const["A"], rtol=1e-12, atol=0))))
                rep.violation("shelf-coefficient", "run %s: vial %d exchanges heat with the shelf with H_shelf=%r W/K, the configured (clipped) coefficient gives %r" % (
                    cfg["shape"], i, r["hshelf"][i], None if ksh is None else ksh[i] * S.const["A"]), dict(config=cfg, vial=i))
            # oracle on every stored step of the run (cheap)
            for k in range(n - 1):
                T2, s2, q = numpy_step(S, G, r["hshelf"], r["shelf"][k], r["XT"][:, k], r["XS"][:, k], dec[k])
                Tl = r["XT"][:, k] + q / S.const["hl"] * S.dt
                wrongjump = dec[k] & ~(Tl < S.const["T_eq_l"])
                if wrongjump.any():
                    i = int(np.argmax(wrongjump))
                    rep.violation("jump-not-supercooled", "run %s step %d vial %d jumps to sigma=%r although its temperature %r is not below T_eq_l=%r" % (
                        cfg["shape"], k, i, r["XS"][i, k + 1], Tl[i], S.const["T_eq_l"]), dict(config=cfg, step=k, vial=i))
                    break
                bad = ~(np.isclose(T2, r["XT"][:, k + 1], rtol=1e-9, atol=1e-9) & np.isclose(s2, r["XS"][:, k + 1], rtol=1e-9, atol=1e-11))
                if bad.any():
                    i = int(np.argmax(bad))
                    kind = "solid" if r["XS"][i, k] != 0 else ("jump-%s" % cfg["initIce"] if dec[k][i] else "liquid")
                    rep.violation("step-%s" % kind,
                                  "run %s step %d vial %d (%s): implementation goes (T,sigma)=(%r,%r)->(%r,%r), the published balance gives (%r,%r)" % (
                                      cfg["shape"], k, i, kind, r["XT"][i, k], r["XS"][i, k], r["XT"][i, k + 1], r["XS"][i, k + 1], T2[i], s2[i]),
                                  dict(config=cfg, step=k, vial=i, kind=kind))
                    break
            for k in some:
                nt = bool(dec[k].any() or (r["XS"][:, k] != 0).any())
                rep.case("%d%s:%d" % (ri, "r" if pre else "", k), nontrivial=nt)
            if used + len(some) * N <= cap:
                used += len(some) * N
                step_cases.append(fr.coq_step_case(r, some))
                meta.append(cfg)
                if n * N <= 12000:
                    # whole-run replay (states compared after MANY model steps) only inside the stability range: outside it an unstable
                    # trajectory amplifies rounding differences and model and implementation may legitimately drift apart
                    import c06
                    if c06.hypotheses(cfg, r)["stability"] and np.abs(r["XS"]).max() < 1:
                        run_cases.append((cfg, fr.coq_run_case(r)))
            if len(rep.samples) < 4:
                rep.samples.append(dict(config={k: v for k, v in cfg.items() if k != "over"}, steps_checked=len(some), nucleation_steps=len(ev)))
          for v in rep.violations[nv0:]:
              if pre:
                  v["what"] = pre + v["what"]
    # ---- process history: a configuration FILE that is rewritten between two objects -- the second object follows the constants the file
    #      holds when it is built (compared bit for bit with an object built from a fresh file of the same content) ----
    import os, yaml
    for hi in range(2 if tier == "quick" else 8):
        cfgA = fr.gen_config(rng, max_vials=12, max_steps=300); cfgB = dict(cfgA)
        cfgA["over"] = dict(cfgA["over"], solution={"solid_fraction": 0.03, "cp_s": 1500}, water={"cp_w": 4000})
        cfgB["over"] = dict(cfgB["over"], solution={"solid_fraction": 0.12, "cp_s": 1100}, vial={"geometry": {"height": 0.02, "length": 0.012, "width": 0.01}})
        path = os.path.join(impl.scratch(), "rewritten_%d.yaml" % hi)
        try:
            with impl.quiet():
                sfm = impl.snowflake_mod()
                def build_at(cfg, p_):
                    op = fr.gen_opcond.build(cfg["prog"], impl.opcond_mod(), cnTemp=cfg.get("cnTemp"))
                    return sfm.Snowflake(k=dict(cfg["k"]), N_vials=cfg["shape"], initialStates={"temp": cfg["T_init"], "sigma": None}, storeStates="all",
                                         solidificationThreshold=cfg.get("thr", 0.9), dt=cfg["dt"], seed=cfg["seed"], seed_v=cfg["seed_v"], opcond=op, configPath=p_, initIce=cfg["initIce"])
                open(path, "w").write(yaml.safe_dump(cfgA["over"])); SA = build_at(cfgA, path); SA.run()
                open(path, "w").write(yaml.safe_dump(cfgB["over"])); SB = build_at(cfgB, path); SB.run()
                SF_ = build_at(cfgB, impl.cfg_path(cfgB["over"])); SF_.run()
            rep.case("rewritten-config %d" % hi, nontrivial=True); rep.count("rewritten-config-file")
            if not (np.array_equal(np.array(SB.X_T), np.array(SF_.X_T), equal_nan=True) and np.array_equal(np.array(SB.X_sigma), np.array(SF_.X_sigma), equal_nan=True)):
                k = int(np.argmax((np.array(SB.X_T) != np.array(SF_.X_T)).any(axis=0)))
                rep.violation("stale-constants-after-config-rewrite", "an object built after its configuration file was rewritten does not follow the file's current constants: first difference from an "
                              "object built from a fresh file with the same content in column %d (%s)" % (k, cfgB["shape"]), dict(config=cfgB, first_file=cfgA["over"], history=["write A", "build+run", "write B to the same path", "build+run"]))
        except Exception as e:
            rep.violation("crash %s" % type(e).__name__, "rewritten-config history raises %r" % e, dict(config=cfgB, error=repr(e)))
    rc, out = common.coq_eval("c01_0", HEAD % (coq_list(step_cases), coq_list(c for _, c in run_cases)), timeout=1500)
    blocks = common.eval_blocks(out)
    if rc != 0 or len(blocks) != 2:
        rep.violation("correspondence-run", "Coq evaluation of the step model failed: " + out[-500:], dict(log=out[-2000:]), found_input=False)
    else:
        bad_s = common.parse_nat_list(blocks[0]); bad_r = common.parse_nat_list(blocks[1])
        rep.coverage["traces_validated_against_impl"] = len(step_cases) - len(bad_s)
        rep.coverage["whole_runs_validated"] = len(run_cases) - len(bad_r)
        flagged = [v["replay"].get("config") for v in rep.violations]
        for b in bad_s:
            if meta[b] not in flagged:
                rep.violation("model-vs-impl step", "correspondence model/Flake.v step <-> Snowflake.run no longer checks on run %s (numpy restatement accepts it)" % meta[b],
                              dict(correspondence="model/Flake.v step", config=meta[b]), found_input=False)
        for b in bad_r:
            if run_cases[b][0] not in flagged:
                rep.violation("model-vs-impl run", "correspondence model/Flake.v run/statistics <-> Snowflake.run no longer checks on run %s" % run_cases[b][0],
                              dict(correspondence="model/Flake.v run_from", config=run_cases[b][0]), found_input=False)
    if not ok:
        rep.violation("proof-broken", "proof obligations of C01 do not check: " + msg, dict(theorem="props/C01.v", log=msg), found_input=False)
