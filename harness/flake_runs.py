"""Generation and execution of Snowflake runs (shared by C01/C03/C06/C10/C12/...)."""
import math

import numpy as np

import gen_opcond
import impl
from common import fhex, zlit, coq_list, coq_bool

ARR = {"square": "Square", "hexagonal": "Hexagonal"}


def gen_config(rng, max_vials=30, max_steps=900, cn=False):
    arr = rng.choice(["square", "square", "hexagonal"])
    while True:
        shape = (rng.randint(1, 6), rng.randint(1, 6), rng.choice([1, 1, 1, 2, 3]))
        if shape[0] * shape[1] * shape[2] <= max_vials:
            break
    k = {"int": rng.choice([0, 5, 20, 20, 50]), "ext": rng.choice([0, 5, 20, 20, 40]),
         "s0": rng.choice([10, 20, 20, 50, 100]), "s_sigma_rel": rng.choice([0, 0, 0.1, 0.3, 0.6])}
    start = rng.choice([20, 20, 10, 5, 0])
    end = rng.choice([-50, -50, -40, -30, -60])
    rate = rng.choice([0.5 / 60, 1 / 60, 2 / 60, 0.1])
    holds = []
    for _ in range(rng.choice([0, 0, 1, 1, 2])):
        holds.append({"duration": rng.choice([0, 300, 600, 1800, 3600, round(rng.uniform(10, 3000), 1)]),
                      "temp": rng.choice([-5, -8, -10, -12, -15, -20, round(rng.uniform(end, start), 1)])})
    dt = rng.choice([2, 5, 10, 10, 20])
    implied = (start - end) / rate + sum(h["duration"] for h in holds)
    t_tot = implied * rng.choice([0.6, 1.0, 1.3, 2.0]) + rng.choice([0, 7, 1000, 4000])
    while t_tot / dt > max_steps:
        dt *= 2
    over = {}
    if rng.random() < 0.5:
        over["solution"] = {"solid_fraction": rng.choice([0.01, 0.05, 0.1, 0.2])}
    if rng.random() < 0.3:
        # another solvent melting point (heavy water 3.82 C, all-kelvin units 273.15) and solute
        over.setdefault("solution", {}).update(T_eq=rng.choice([3.82, -0.5, 273.15]), k_f=rng.choice([1.853, 2.05]), M_s=rng.choice([0.3423, 0.18]))
    if rng.random() < 0.3:
        over.setdefault("vial", {})["geometry"] = {"height": rng.choice([0.005, 0.01, 0.02]), "length": rng.choice([0.01, 0.015]), "width": 0.01}
    if rng.random() < 0.3:
        over["kinetics"] = {"a": rng.choice([25.0, 29.0, 20.0]), "b": rng.choice([29.3, 20.0, 12.0]), "c": rng.choice([0.0, 1.0, 0.5])}
    over.setdefault("snowfall_parameters", {})["vial_arrangement"] = arr
    T_init = rng.choice([None, None, start, start + 5, 25])
    if over.get("solution", {}).get("T_eq") == 273.15:
        # kelvin configuration: the program and the initial temperature are in kelvin too
        start, end = start + 273.15, end + 273.15
        for h in holds:
            h["temp"] = round(h["temp"] + 273.15, 2)
        T_init = None if T_init is None else T_init + 273.15
    cfg = dict(arr=arr, shape=shape, k=k, dt=float(dt), T_init=T_init, over=over,
               initIce=rng.choice(["indirect", "direct"]), seed=rng.randint(0, 10 ** 6), seed_v=rng.randint(0, 10 ** 6),
               prog=dict(start=start, end=end, rate=rate, holds=holds, t_tot=float(round(t_tot, 1)), dt=float(dt)),
               cnTemp=None, thr=rng.choice([0.9, 0.9, 0.5, 0.95, 0.05, 0.12]))
    if cn:
        off = 273.15 if over.get("solution", {}).get("T_eq") == 273.15 else 0.0
        lo = max(end, -25 + off)
        cfg["cnTemp"] = rng.choice([h["temp"] for h in holds] + [round(rng.uniform(lo, min(start, -2 + off)), 1)]) if rng.random() < 0.7 or not holds \
            else holds[0]["temp"]
    return cfg


class CountingRng:
    """Wraps the Snowflake's generator: records every uniform vector drawn inside run()."""
    def __init__(self, inner):
        self.inner = inner
        self.draws = []
    def random(self, n=None):
        r = self.inner.random(n)
        self.draws.append(np.array(r, copy=True))
        return r
    def __getattr__(self, name):
        return getattr(self.inner, name)


class ScriptedRng:
    """Replacement generator whose uniform draws are produced by a callback(step_index, n)."""
    def __init__(self, inner, script):
        self.inner, self.script, self.calls = inner, script, 0
        self.draws = []
    def random(self, n=None):
        r = np.asarray(self.script(self.calls, n), dtype=float)
        self.calls += 1
        self.draws.append(r.copy())
        return r
    def __getattr__(self, name):
        return getattr(self.inner, name)


class patched_rng:
    """While active, np.random.default_rng(seed) returns wrap(real generator) -- Snowflake.run() re-creates its
    generator from the seed, so the harness hooks the factory (harness-side only; /repo is not instrumented)."""
    def __init__(self, wrap):
        self.wrap = wrap
        self.made = []
    def __enter__(self):
        self.orig = np.random.default_rng
        def factory(*a, **k):
            g = self.wrap(self.orig(*a, **k))
            self.made.append(g)
            return g
        np.random.default_rng = factory
        return self
    def __exit__(self, *a):
        np.random.default_rng = self.orig


def build(cfg, storeStates="all", **kw):
    sf = impl.snowflake_mod()
    oc = impl.opcond_mod()
    op = gen_opcond.build(cfg["prog"], oc, cnTemp=cfg.get("cnTemp"))
    init = {"temp": cfg["T_init"], "sigma": None}
    S = sf.Snowflake(k=dict(cfg["k"]), N_vials=cfg["shape"], initialStates=init, storeStates=storeStates,
                     solidificationThreshold=cfg.get("thr", 0.9), dt=cfg["dt"], seed=cfg["seed"], seed_v=cfg["seed_v"],
                     opcond=op, configPath=impl.cfg_path(cfg["over"]), initIce=cfg["initIce"], **kw)
    return S


def run(cfg, storeStates="all", script=None):
    with impl.quiet():
        S = build(cfg, storeStates)
        wrap = (lambda g: ScriptedRng(g, script)) if script else CountingRng
        S._rng = wrap(S._rng)
        with patched_rng(wrap) as pr:
            S.run()
        if pr.made:
            S._rng = pr.made[-1]
    N = S.N_vials_total
    hs = np.broadcast_to(np.asarray(S.H_shelf, dtype=float), (N,)).copy()
    return dict(S=S, XT=np.array(S.X_T), XS=np.array(S.X_sigma), stats={k: np.array(v) for k, v in S.stats.items()},
                shelf=np.asarray(S.opcond.tempProfile(S.dt), dtype=float), hshelf=hs, draws=S._rng.draws, N=N, shape=tuple(S.N_vials),
                nsteps=int(math.ceil(S.opcond.t_tot / S.dt)) + 1)


def rerun(r, mutate):
    """run the SAME object again after mutate(S) (a history on one object); returns a fresh result dict"""
    S = r["S"]
    with impl.quiet():
        mutate(S)
        with patched_rng(CountingRng) as pr:
            S.run()
        if pr.made:
            S._rng = pr.made[-1]
    N = S.N_vials_total
    hs = np.broadcast_to(np.asarray(S.H_shelf, dtype=float), (N,)).copy()
    return dict(S=S, XT=np.array(S.X_T), XS=np.array(S.X_sigma), stats={k: np.array(v) for k, v in S.stats.items()},
                shelf=np.asarray(S.opcond.tempProfile(S.dt), dtype=float), hshelf=hs, draws=getattr(S._rng, "draws", []), N=N, shape=tuple(S.N_vials),
                nsteps=int(math.ceil(S.opcond.t_tot / S.dt)) + 1)


def coq_params(S):
    c = S.const
    f = [S.dt, c["hl"], c["alpha"], c["beta_solution"], c["depression"], c["mass"], c["cp_s"], c["cp_w"], c["cp_i"],
         c["cp_solution"], c["solid_fraction"], c["T_eq"], c["T_eq_l"], S.k["int"] * c["A"], S.solidificationThreshold]
    return "(MkParams %s %s)" % (" ".join(fhex(x) for x in f), coq_bool(S.initIce == "direct"))


def decisions(r):
    """Per step: which vials nucleated in that step (observed from the recorded trajectory / stats)."""
    XS, st, S = r["XS"], r["stats"], r["S"]
    n = r["nsteps"]
    dec = np.zeros((n, r["N"]), dtype=bool)
    dec[:-1] = (XS[:, :-1] == 0).T & (XS[:, 1:] != 0).T
    tn = st["t_nucleation"]
    last = np.isclose(tn, (n - 1) * S.dt + S.dt) & (XS[:, -1] == 0)
    dec[-1] = last
    return dec


def flist(v):
    return coq_list(fhex(x) for x in v)


def blist(v):
    return coq_list(coq_bool(bool(x)) for x in v)


def coq_step_case(r, steps):
    """text of one flake_case_ok case holding the given step indices (each k needs column k+1)"""
    S, cfg_shape = r["S"], r.get("shape") or r["S"].N_vials
    dec = decisions(r)
    recs = []
    for k in steps:
        recs.append("(%s, %s, %s, %s, %s, %s, %s)" % (zlit(k), fhex(r["shelf"][k]), flist(r["XT"][:, k]), flist(r["XS"][:, k]),
                                                      blist(dec[k]), flist(r["XT"][:, k + 1]), flist(r["XS"][:, k + 1])))
    arr = ARR[S.const["vial_arrangement"]]
    return "(%s, %s, %s, %s, %s, %s, %s, %s, %s)" % (arr, zlit(cfg_shape[0]), zlit(cfg_shape[1]), zlit(cfg_shape[2]), coq_params(S),
                                                     fhex(S.k["ext"]), fhex(S.const["A"]), flist(r["hshelf"]), coq_list(recs))


def coq_run_case(r):
    S, shp = r["S"], r.get("shape") or r["S"].N_vials
    dec = decisions(r)
    st = r["stats"]
    stats = coq_list("(%s, %s, %s)" % (fhex(a), fhex(b), fhex(c)) for a, b, c in zip(st["t_nucleation"], st["T_nucleation"], st["t_solidification"]))
    arr = ARR[S.const["vial_arrangement"]]
    return "(%s, %s, %s, %s, %s, %s, %s, %s, %s, %s, %s, %s)" % (
        arr, zlit(shp[0]), zlit(shp[1]), zlit(shp[2]), coq_params(S), fhex(S.k["ext"]), fhex(S.const["A"]), flist(r["hshelf"]),
        fhex(S.T_k_0), flist(r["shelf"][: r["nsteps"]]), coq_list(blist(d) for d in dec), stats)
