"""Access to the implementation under test (/repo working tree) with harness-side shims only."""
import atexit
import os
import shutil
import sys
import tempfile
import warnings

import common  # noqa: F401  (forces sys.path / env)
import numpy as np
import yaml

_SCRATCH = tempfile.mkdtemp(prefix="snowverif_")
atexit.register(lambda: shutil.rmtree(_SCRATCH, ignore_errors=True))
_cfg_cache = {}


def scratch():
    return _SCRATCH


def cfg_path(overrides):
    """Write a partial YAML config (nested dict) and return its path; None for defaults."""
    if not overrides:
        return None
    key = yaml.safe_dump(overrides, sort_keys=True)
    if key not in _cfg_cache:
        p = os.path.join(_SCRATCH, "cfg_%d.yaml" % len(_cfg_cache))
        with open(p, "w") as f:
            f.write(key)
        _cfg_cache[key] = p
    return _cfg_cache[key]


def expected_config(overrides):
    """An independent reading of the layered configuration: the package's default YAML parsed by the harness itself,
    with exactly the named entries overridden (deep merge).  Used by oracles so that constants leaking from other
    objects / earlier loads are not silently accepted."""
    import common
    d = yaml.safe_load(open(os.path.join(common.REPO, "src", "ethz_snow", "config", "snowConfig_default.yaml")))
    def deep(a, u):
        for k, v in (u or {}).items():
            if isinstance(v, dict) and isinstance(a.get(k), dict):
                deep(a[k], v)
            else:
                a[k] = v
    deep(d, overrides)
    return d


def arrangement_cfg(arr, extra=None):
    d = {"snowfall_parameters": {"vial_arrangement": arr}}
    if extra:
        for k, v in extra.items():
            d.setdefault(k, {}).update(v) if isinstance(v, dict) else d.__setitem__(k, v)
    return cfg_path(d)


def install_simps_shim():
    """scipy >= 1.14 removed scipy.integrate.simps; snowing.py imports it by name."""
    import scipy.integrate as si
    if not hasattr(si, "simps"):
        si.simps = lambda y, x=None, dx=1.0, axis=-1: si.simpson(y, x=x, dx=dx, axis=axis)


def snowflake_mod():
    warnings.filterwarnings("ignore")
    from ethz_snow import snowflake
    return snowflake


def opcond_mod():
    from ethz_snow import operatingConditions
    return operatingConditions


def snowing_mod():
    install_simps_shim()
    warnings.filterwarnings("ignore")
    from ethz_snow import snowing
    return snowing


class quiet:
    """Silence prints of the implementation."""
    def __enter__(self):
        self._o = sys.stdout
        sys.stdout = open(os.devnull, "w")
    def __exit__(self, *a):
        sys.stdout.close()
        sys.stdout = self._o


class adversarial_pool:
    """While active, multiprocessing.Pool(...) returns a pool that honours every API contract but uses the freedom the contracts
    leave to the scheduler against the caller: results of the *unordered* APIs (imap_unordered) are delivered in reverse submission
    order, ordered APIs (map, starmap, starmap_async().get(), imap) are untouched.  Harness-side only; /repo is not instrumented."""
    def __enter__(self):
        import multiprocessing as mp
        self.mp, self.orig = mp, mp.Pool
        orig = self.orig

        class Pool:
            def __init__(self, *a, **k):
                self._p = orig(*a, **k)
            def __enter__(self):
                self._p.__enter__(); return self
            def __exit__(self, *a):
                return self._p.__exit__(*a)
            def imap_unordered(self, func, iterable, chunksize=1):
                res = self._p.map(func, list(iterable), chunksize)
                return iter(list(reversed(res)))
            # ordered APIs: the tasks are SUBMITTED in reverse order (so side effects such as writes into a shared dict happen in the
            # opposite of the seed order) and the results are put back into submission order, as the contract demands
            def starmap(self, func, iterable, chunksize=None):
                items = list(iterable)
                return list(reversed(self._p.starmap(func, list(reversed(items)), 1)))
            def map(self, func, iterable, chunksize=None):
                items = list(iterable)
                return list(reversed(self._p.map(func, list(reversed(items)), 1)))
            def starmap_async(self, func, iterable, chunksize=None, callback=None, error_callback=None):
                items = list(iterable)
                inner = self._p.starmap_async(func, list(reversed(items)), 1, None, error_callback)
                class _R:
                    def get(self_, timeout=None):
                        r = list(reversed(inner.get(timeout)))
                        return r
                    def wait(self_, timeout=None):
                        return inner.wait(timeout)
                    def ready(self_):
                        return inner.ready()
                    def successful(self_):
                        return inner.successful()
                return _R()
            def __getattr__(self, name):
                return getattr(self._p, name)
        mp.Pool = Pool
        return self
    def __exit__(self, *a):
        self.mp.Pool = self.orig
