"""Shared machinery of the /verif checks (driver side).

Everything here runs under /venv/bin/python with /repo/src forced to the front of
sys.path, so the implementation that is exercised is /repo's *current working tree*.
"""
import fcntl
import glob
import hashlib
import json
import os
import random
import re
import subprocess
import sys
import time

VERIF = os.path.dirname(os.path.dirname(os.path.abspath(__file__)))
REPO = os.environ.get("SNOW_REPO", "/repo")
COQ = os.path.join(VERIF, "coq")
THEORIES = os.path.join(COQ, "theories")
CASES = os.path.join(COQ, "cases")
EVID = os.path.join(VERIF, "evidence")
REPLAY = os.path.join(EVID, "replay")
GUARD = "SPL_ETHZ_SNOW_VERIF"

os.environ["PYTHONHASHSEED"] = "0"
os.environ[GUARD] = "1"
os.environ.setdefault("MPLBACKEND", "Agg")
if os.path.join(REPO, "src") not in sys.path[:1]:
    sys.path.insert(0, os.path.join(REPO, "src"))

AXIOM_WHITELIST = {
    # declared by Coq's standard library (Reals are classical) -- never by this development
    "ClassicalDedekindReals.sig_forall_dec",
    "ClassicalDedekindReals.sig_not_dec",
    "ClassicalDedekindReals.sig_not_dec",
    "FunctionalExtensionality.functional_extensionality_dep",
    "Classical_Prop.classic",
}
BANNED = re.compile(
    r"\b(Admitted|admit|Axiom|Axioms|Parameter|Parameters|Conjecture|Conjectures|"
    r"Admit Obligations|bypass_check|native_compute)\b|Unset\s+Guard|Unset\s+Positivity|"
    r"Unset\s+Universe|type-in-type|impredicative-set")


def sh(cmd, timeout=600, cwd=None, env=None):
    t0 = time.time()
    try:
        p = subprocess.run(cmd, shell=isinstance(cmd, str), cwd=cwd, env=env,
                           stdout=subprocess.PIPE, stderr=subprocess.STDOUT,
                           timeout=timeout, text=True, errors="replace")
        return p.returncode, p.stdout, time.time() - t0
    except subprocess.TimeoutExpired as e:
        out = e.stdout if isinstance(e.stdout, str) else (e.stdout or b"").decode("utf8", "replace")
        return 124, (out or "") + "\n[timeout after %ss]" % timeout, time.time() - t0


class Lock:
    def __init__(self, name="build"):
        os.makedirs(CASES, exist_ok=True)
        self.path = os.path.join(CASES, "." + name + ".lock")

    def __enter__(self):
        self.f = open(self.path, "w")
        fcntl.flock(self.f, fcntl.LOCK_EX)
        return self

    def __exit__(self, *a):
        fcntl.flock(self.f, fcntl.LOCK_UN)
        self.f.close()


def all_v_files():
    fs = []
    for root, _, names in os.walk(THEORIES):
        for n in names:
            if n.endswith(".v"):
                fs.append(os.path.relpath(os.path.join(root, n), COQ))
    return sorted(fs)


def write_coqproject():
    txt = "-Q theories Snow\n-arg -w -arg -inexact-float,-deprecated-hint-without-locality,-notation-overridden\n" + "\n".join(all_v_files()) + "\n"
    p = os.path.join(COQ, "_CoqProject")
    old = open(p).read() if os.path.exists(p) else None
    if old != txt or not os.path.exists(os.path.join(COQ, "Makefile")):
        open(p, "w").write(txt)
        rc, out, _ = sh("coq_makefile -f _CoqProject -o Makefile", cwd=COQ, timeout=120)
        if rc != 0:
            raise RuntimeError("coq_makefile failed: " + out)


def coq_make(targets, timeout=1500, jobs=16):
    """Build the given .vo targets (relative to coq/). Returns (ok, log)."""
    with Lock():
        write_coqproject()
        tg = " ".join(targets)
        rc, out, dt = sh("timeout %d make -j%d %s" % (timeout, jobs, tg), cwd=COQ, timeout=timeout + 30)
    return rc == 0, out


def audit_sources():
    """Textual audit of the whole development; returns list of offending lines."""
    bad = []
    for f in all_v_files():
        src = open(os.path.join(COQ, f)).read()
        src_nc = re.sub(r"\(\*.*?\*\)", "", src, flags=re.S)
        stack = []
        for i, line in enumerate(src_nc.splitlines(), 1):
            if BANNED.search(line):
                bad.append("%s:%d:%s" % (f, i, line.strip()))
            m = re.match(r"\s*Section\s+(\w+)\s*\.", line)
            if m:
                stack.append(m.group(1))
            m = re.match(r"\s*End\s+(\w+)\s*\.", line)
            if m and stack and stack[-1] == m.group(1):
                stack.pop()
            if re.match(r"\s*(Variable|Variables|Hypothesis|Hypotheses|Context)\b", line) and not stack:
                bad.append("%s:%d:%s (outside section)" % (f, i, line.strip()))
    return bad


def print_assumptions(prop_file):
    """Re-compile a props file (deps already built) and parse its Print Assumptions output.
    Returns (ok, theorems:list[(name, axioms)], log)."""
    os.makedirs(CASES, exist_ok=True)
    base = os.path.splitext(os.path.basename(prop_file))[0]
    d = os.path.join(CASES, "pa_%d" % os.getpid())
    os.makedirs(d, exist_ok=True)
    out_vo = os.path.join(d, base + ".vo")
    rc, out, _ = sh("timeout 600 coqc -Q theories Snow -w -inexact-float -o %s %s" % (out_vo, prop_file), cwd=COQ, timeout=630)
    import shutil
    shutil.rmtree(d, ignore_errors=True)
    src = open(os.path.join(COQ, prop_file)).read()
    names = re.findall(r"Print Assumptions\s+([\w\.']+)\s*\.", src)
    blocks = []
    cur = None
    for line in out.splitlines():
        if line.startswith("Closed under the global context"):
            blocks.append([])
            cur = None
        elif line.startswith("Axioms:"):
            cur = []
            blocks.append(cur)
        elif cur is not None:
            m = re.match(r"^([A-Za-z_][\w\.']*)\s*(:.*)?$", line)
            if m:
                cur.append(m.group(1))
    ok = rc == 0 and len(blocks) == len(names)
    return ok, list(zip(names, blocks)), out


def coq_eval(name, body, timeout=600):
    """Write coq/cases/<name>.v, run coqc on it, return (rc, stdout)."""
    os.makedirs(CASES, exist_ok=True)
    p = os.path.join(CASES, name + ".v")
    open(p, "w").write(body)
    rc, out, dt = sh("ulimit -s unlimited 2>/dev/null; timeout %d coqc -Q theories Snow -w -inexact-float,-abstract-large-number,-large-nat %s" % (timeout, p),
                     cwd=COQ, timeout=timeout + 30)
    for ext in (".vo", ".glob", ".vos", ".vok"):
        try:
            os.remove(p[:-2] + ext)
        except OSError:
            pass
    aux = os.path.join(CASES, "." + name + ".aux")
    if os.path.exists(aux):
        os.remove(aux)
    return rc, out


def eval_blocks(out):
    """Split coqc stdout into the values printed by successive `Eval ... in` commands."""
    blocks, cur = [], None
    for line in out.splitlines():
        if line.startswith("     = "):
            if cur is not None:
                blocks.append(cur)
            cur = line[7:]
        elif line.startswith("     : "):
            if cur is not None:
                blocks.append(cur)
                cur = None
        elif cur is not None:
            cur += " " + line.strip()
    if cur is not None:
        blocks.append(cur)
    return [re.sub(r"\s+", " ", b).strip() for b in blocks]


def parse_nat_list(s):
    """'[3; 17]%nat' / '[]' / 'nil' -> python list of ints"""
    s = s.strip()
    s = re.sub(r"%\w+$", "", s).strip()
    if s in ("[]", "nil"):
        return []
    m = re.match(r"^\[(.*)\]$", s)
    if not m:
        raise ValueError("cannot parse nat list: " + s[:200])
    return [int(re.sub(r"%\w+", "", x).strip().strip("()")) for x in m.group(1).split(";") if x.strip()]


def fhex(x):
    """python float -> Coq primitive float literal (bit-exact)."""
    x = float(x)
    if x != x:
        return "PrimFloat.nan"
    if x == float("inf"):
        return "PrimFloat.infinity"
    if x == float("-inf"):
        return "PrimFloat.neg_infinity"
    h = x.hex()
    if h.startswith("-"):
        return "(%s)%%float" % h
    return "%s%%float" % h


def zlit(n):
    n = int(n)
    return "(%d)%%Z" % n if n < 0 else "%d%%Z" % n


def coq_list(items):
    return "[" + "; ".join(items) + "]"


def coq_bool(b):
    return "true" if b else "false"


def seed_from_env(default=20260930):
    try:
        return int(os.environ.get("VERIF_SEED", default))
    except ValueError:
        return default


def known_findings():
    p = os.path.join(VERIF, "known_findings.json")
    if not os.path.exists(p):
        return []
    return json.load(open(p))["findings"]


class Report:
    """Collects what one check run did and turns it into stdout lines, replay files,
    the evidence file and the exit status."""

    def __init__(self, prop, tier, level="proof", replay_of=None):
        self.prop, self.tier, self.level = prop, tier, level
        self.seed = seed_from_env()
        self.t0 = time.time()
        self.replay_of = replay_of          # replay mode: the recorded violation (dict); nothing under evidence/ is rewritten
        if replay_of is None:
            for f in glob.glob(os.path.join(REPLAY, prop + "_*.json")):
                os.remove(f)
        self.violations = []      # dict(key, what, replay_obj, found_input:bool)
        self.known_hit = []
        self.obligations = []     # (name, ok, axioms)
        self.coverage = {}
        self.samples = []
        self.evaluations = 0
        self.distinct = set()
        self.assumptions = []
        self.notes = []
        self.trusted = []
        self.checker_cmd = ""
        self.rule = ""
        self.dist = {}

    # -- case accounting -----------------------------------------------------------
    def case(self, key, nontrivial=True, sample=None):
        self.evaluations += 1
        if nontrivial:
            self.distinct.add(key if isinstance(key, str) else json.dumps(key, sort_keys=True, default=str))
        if sample is not None and len(self.samples) < 6:
            self.samples.append(sample)

    def count(self, k, n=1):
        self.dist[k] = self.dist.get(k, 0) + n

    # -- verdicts ------------------------------------------------------------------
    def violation(self, key, what, replay_obj, found_input=True):
        for kf in known_findings():
            if kf.get("property") == self.prop and kf.get("status") == "known" and kf.get("key") == key:
                if key not in [k for k, _ in self.known_hit]:
                    self.known_hit.append((key, kf.get("what", what)))
                return False
        self.violations.append(dict(key=key, what=what, replay=replay_obj, found_input=found_input))
        return True

    def obligation(self, name, ok, axioms=None):
        self.obligations.append((name, bool(ok), axioms or []))

    def finish_replay(self, path):
        """replay mode: the check was re-run under the recorded seed and tier; report whether the recorded violation shows again"""
        hit = [v for v in self.violations if v["key"] == self.replay_of.get("key")]
        known = [k for k, _ in self.known_hit if k == self.replay_of.get("key")]
        if hit:
            tail = "" if hit[0]["found_input"] else " no-failing-input-found"
            print("VIOLATION property=%s replay=%s%s" % (self.prop, path, tail))
            print("  # reproduced: " + hit[0]["what"][:300])
        elif known:
            print("KNOWN-FINDING: property=%s %s" % (self.prop, self.replay_of.get("what", "")[:300]))
        else:
            print("REPLAY property=%s key=%r: not reproduced on the current tree (seed %s, tier %s)" % (self.prop, self.replay_of.get("key"), self.seed, self.tier))
        sys.stdout.flush()
        return 1 if hit else 0

    def finish(self):
        os.makedirs(REPLAY, exist_ok=True)
        wall = time.time() - self.t0
        lines = []
        for key, what in self.known_hit:
            lines.append("KNOWN-FINDING: property=%s %s" % (self.prop, what))
        seen = set()
        nviol = 0
        for v in self.violations:
            if v["key"] in seen:
                continue
            seen.add(v["key"])
            nviol += 1
            h = hashlib.sha1(v["key"].encode()).hexdigest()[:10]
            path = os.path.join(REPLAY, "%s_%s.json" % (self.prop, h))
            json.dump(dict(property=self.prop, key=v["key"], what=v["what"], replay=v["replay"],
                           seed=self.seed, tier=self.tier), open(path, "w"), indent=1, default=str)
            tail = "" if v["found_input"] else " no-failing-input-found"
            lines.append("VIOLATION property=%s replay=%s%s" % (self.prop, path, tail))
            lines.append("  # " + v["what"][:300])
        nob = len(self.obligations)
        ndis = sum(1 for _, ok, _ in self.obligations if ok)
        cov = dict(self.coverage)
        cov.update(dict(
            obligations=max(nob, 0), discharged=ndis,
            checker_cmd=self.checker_cmd or "make -C /verif/coq theories/props/%s.vo (coqc 8.16.1, full .vo) + Print Assumptions" % self.prop,
            trusted_base=self.trusted,
            evaluations=self.evaluations, distinct_nontrivial=len(self.distinct),
            rule=self.rule, samples=self.samples[:6] or ["(none)"],
            input_distribution=self.dist,
            theorems=[dict(name=n, checked=ok, axioms=ax) for n, ok, ax in self.obligations],
            known_findings_reproduced=[k for k, _ in self.known_hit],
            notes=self.notes,
        ))
        ev = dict(property_id=self.prop, tier=self.tier, seed=self.seed, level=self.level,
                  coverage=cov, assumptions=self.assumptions, wall_s=round(wall, 2), violations=nviol)
        os.makedirs(EVID, exist_ok=True)
        json.dump(ev, open(os.path.join(EVID, self.prop + ".json"), "w"), indent=1, default=str)
        for l in lines:
            print(l)
        print("%s %s: %d obligations (%d discharged), %d cases (%d distinct non-trivial), %d violation(s), %d known finding(s), %.1fs"
              % (self.prop, self.tier, nob, ndis, self.evaluations, len(self.distinct), nviol, len(self.known_hit), wall))
        sys.stdout.flush()
        return 1 if nviol else 0


def proof_stage(rep, prop, extra_targets=()):
    """Build props/<prop>.vo (and whatever it depends on), audit, Print Assumptions.
    Records one obligation per theorem.  Returns (ok, message)."""
    prop_file = "theories/props/%s.v" % prop
    targets = ["theories/props/%s.vo" % prop] + list(extra_targets)
    ok, log = coq_make(targets)
    bad = audit_sources()
    if bad:
        rep.obligation("source-audit", False)
        return False, "source audit failed: " + "; ".join(bad[:5])
    if not ok:
        m = re.findall(r'File "([^"]+)", line (\d+)', log)
        where = "%s:%s" % m[-1] if m else "?"
        # name the theorems of the props file as undischarged
        src = open(os.path.join(COQ, prop_file)).read() if os.path.exists(os.path.join(COQ, prop_file)) else ""
        for n in re.findall(r"Print Assumptions\s+([\w\.']+)\s*\.", src):
            rep.obligation(n, False)
        tail = "\n".join(log.strip().splitlines()[-12:])
        return False, "Coq build failed at %s:\n%s" % (where, tail)
    ok2, thms, out = print_assumptions(prop_file)
    if not ok2:
        rep.obligation("print-assumptions", False)
        return False, "Print Assumptions run failed: " + out[-400:]
    allok = True
    msg = ""
    for name, axs in thms:
        extra = [a for a in axs if a not in AXIOM_WHITELIST and not a.startswith(("PrimFloat.", "Uint63.", "PrimInt63.", "FloatOps.", "Float"))]
        rep.obligation(name, not extra, axs)
        if extra:
            allok = False
            msg += "theorem %s depends on non-whitelisted axioms %s; " % (name, extra)
    return allok, msg
