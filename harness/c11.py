"""C11  Spatial controlled nucleation waits until the product reaches cnTemp."""
import random

import numpy as np

import common
import impl
import snowing_runs as sr
from common import coq_list, fhex

HEAD = ("From Coq Require Import ZArith List Bool PrimFloat. Import ListNotations.\nFrom Snow Require Import Topology SnLoop.\n"
        "(* (coldest product temperature after each cooling step, cnTemp [K], observed trigger step) *)\n"
        "Definition case_ok (c : list float * float * nat) : bool := let '(mins, cn, obs) := c in\n"
        "  match find_first (fun i => PrimFloat.leb (nth i mins PrimFloat.infinity) cn) 0 (length mins) with Some i => Nat.eqb i obs | None => false end.\n"
        "Definition cases := %s.\nEval vm_compute in bad_cases case_ok cases.\n")


def check(rep, tier):
    rng = random.Random(rep.seed)
    ok, msg = common.proof_stage(rep, "C11", ["theories/model/SnLoop.vo"])
    rep.rule = ("Snowing runs with a controlled-nucleation temperature in 0D, 1D and 2D (shelf / VISF / jacket, with and without holds, several geometries); every cooling step is saved, so the "
                "coldest product temperature after each step is known: the trigger step must be the first with min T <= cnTemp (compared with find_first of model/SnLoop.v evaluated on the "
                "observed minima), the reported T_nuc(_min) <= cnTemp < coldest temperature one step earlier, t_nuc > 0; non-trivial = completed run whose trigger lies after the first step")
    rep.trusted = ["Coq 8.16.1 kernel + vm_compute", "simps shim", "every step saved (<= 10000 steps)"]
    recs = sr.catalogue(rng, tier, dims=("homogeneous", "spatial_1D"), cn=True, n0=2, n1=1 if tier == "quick" else 4)
    # a trigger temperature colder than where the vial would nucleate spontaneously: controlled nucleation still waits for it
    recs += sr.catalogue(rng, tier, dims=("homogeneous", "spatial_1D"), cn=-19, n0=1, n1=1, confs=["shelf"])
    # 2D: the coldest point need not be in the layer touching the shelf (VISF: the top is cooled by evaporation)
    recs += sr.catalogue(rng, tier, dims=("spatial_2D",), cn=True, n2=1 if tier == "quick" else 3, confs=["VISF", "jacket", "shelf"], early_vacuum=True)
    # a trigger of exactly 0 C (a falsy number), in every dimensionality
    recs += sr.catalogue(rng, tier, dims=("homogeneous", "spatial_1D") if tier == "quick" else ("homogeneous", "spatial_1D", "spatial_2D"), cn=0.0, n0=1, n1=1, n2=1, confs=["shelf"])
    # fixed corpus (default solution and kinetics, independent of the seed): a trigger ABOVE the freezing point (nothing is supercooled when it is
    # reached) and a trigger colder than the temperature at which this vial nucleates spontaneously with seed 0
    for dimF, cnF in (("spatial_1D", 2.0), ("spatial_1D", -19.0)) if tier == "quick" else (("spatial_1D", 2.0), ("spatial_1D", -19.0), ("spatial_2D", 2.0), ("spatial_1D", -0.1)):
        progF = dict(start=10, end=-50, rate=(2.0 if cnF > -10 else 1.0) / 60, holds=[], t_tot=3600.0, dt=1.0)
        try:
            SF = sr.make(dim=dimF, conf="shelf", height=0.05, diameter=0.05 if dimF == "spatial_1D" else 0.1, K=400 if cnF < -10 else 200, prog=progF, cnTemp=cnF)
            dtF, _ = sr.step_info(SF); progF["t_tot"] = float(int(dtF * 9800))
            SF = sr.make(dim=dimF, conf="shelf", height=0.05, diameter=0.05 if dimF == "spatial_1D" else 0.1, K=400 if cnF < -10 else 200, prog=progF, cnTemp=cnF)
            recF = dict(label="%s/shelf h=0.05 default solution cn=%r (fixed corpus)" % (dimF, cnF), dim=dimF, conf="shelf", S=SF, dt=dtF, prog=progF, cnTemp=cnF, error=None, must_complete=True)
            sr.run(SF)
        except Exception as e:
            recF["error"] = e
        recs.append(recF)
    # the trigger temperature given as a numpy scalar (element of an array / arange), not a python number
    import numpy as _np
    recs += sr.catalogue(rng, tier, dims=("homogeneous", "spatial_1D"), cn=_np.int64(-6), n0=1, n1=1, confs=["shelf"])
    if tier != "quick":
        recs += sr.catalogue(rng, tier, dims=("homogeneous", "spatial_1D", "spatial_2D"), cn=_np.float32(-6.5), n0=1, n1=1, n2=1, confs=["shelf"])
    # history: the trigger temperature is changed IN PLACE on the object's operating conditions after construction
    for dim in (("homogeneous", "spatial_1D") if tier == "quick" else ("homogeneous", "spatial_1D", "spatial_2D")):
        for first in ((-10.0,) if tier == "quick" else (-10.0, None)):
            prog = dict(start=10, end=-50, rate=2.0 / 60, holds=[], t_tot=3600.0, dt=1.0)
            h, d = (0.01, 0.01) if dim == "homogeneous" else (0.05, 0.05 if dim == "spatial_1D" else 0.1)
            try:
                S = sr.make(dim=dim, conf="shelf", height=h, diameter=d, K=200 if dim != "homogeneous" else 50, prog=prog, cnTemp=first)
                dt, _ = sr.step_info(S)
                if dim != "homogeneous":
                    prog["t_tot"] = float(int(dt * 9800))
                    S = sr.make(dim=dim, conf="shelf", height=h, diameter=d, K=200, prog=prog, cnTemp=first)
                rec = dict(label="%s/shelf history: built with cnTemp=%r, then S.opcond.cnTemp = -5 in place, run" % (dim, first), dim=dim, conf="shelf", S=S, dt=dt, prog=prog, cnTemp=-5.0, error=None, must_complete=True)
                S.opcond.cnTemp = -5.0
                sr.run(S)
            except Exception as e:
                rec = dict(label="%s history cnTemp in place" % dim, dim=dim, S=None, dt=None, cnTemp=-5.0, error=e)
            recs.append(rec)
    cases, labs = [], []
    for rec in recs:
        S, dt, lab = rec["S"], rec["dt"], rec["label"]
        if rec["error"] is not None:
            rep.case(lab, nontrivial=False); rep.count("raised")
            if rec.get("must_complete"):
                # a fixed corpus configuration (independent of the seed) whose process is long enough: it completes on the pinned tree
                rep.violation("corpus-run-raises", "%s: the run raises %r although the process is long enough for this vial" % (lab, rec["error"]), dict(run=lab, error=repr(rec["error"])))
            continue
        cn = rec["cnTemp"]
        res = S.results.iloc[0]
        T = np.asarray(S.temp)
        t = np.asarray(S.time) * 3600
        tn = float(res["t_nuc"]) * 60
        ie = int(round(tn / dt))
        Tn = float(res["T_nuc"] if rec["dim"] == "homogeneous" else res["T_nuc_min"])
        rep.case(lab, nontrivial=ie > 0, sample=dict(run=lab, trigger_step=ie, T_nuc=Tn) if len(rep.samples) < 4 else None)
        rep.count(rec["dim"])
        if rec["dim"] == "homogeneous":
            mins = T[:ie]                        # rows 0..ie-1 = temperatures after steps 0..ie-1; the trigger step's own temperature is T_nuc
            mins = np.append(mins, Tn)
        else:
            mins = T[: ie + 1].reshape(ie + 1, -1).min(axis=1)
        if not Tn <= cn + 1e-9:
            rep.violation("triggered-too-warm", "%s: nucleation triggered at T=%r C although cnTemp=%r (t_nuc=%r s)" % (lab, Tn, cn, tn), dict(run=lab, T_nuc=Tn, cnTemp=cn))
            continue
        if ie == 0:
            T0 = S.opcond.cooling["start"]
            if T0 > cn:
                rep.violation("triggered-at-step-0", "%s: triggered in the very first step (start %r C, cnTemp %r)" % (lab, T0, cn), dict(run=lab)); continue
        elif not mins[ie - 1] > cn - 1e-12:
            rep.violation("triggered-too-late", "%s: the product was already at %r <= cnTemp=%r one step before the trigger" % (lab, mins[ie - 1], cn), dict(run=lab)); continue
        if abs(mins[ie] - Tn) > 1e-6:
            rep.violation("Tnuc-not-field-minimum", "%s: reported T_nuc(_min)=%r, coldest saved temperature at that step %r" % (lab, Tn, mins[ie]), dict(run=lab))
        cases.append("(%s, %s, %d)" % (coq_list(fhex(x + 273.15) for x in mins), fhex(cn + 273.15), ie)); labs.append(lab)
    rc, out = common.coq_eval("c11_0", HEAD % coq_list(cases), timeout=600)
    blocks = common.eval_blocks(out)
    if rc != 0 or len(blocks) != 1:
        rep.violation("correspondence-run", "Coq evaluation failed: " + out[-500:], dict(log=out[-2000:]), found_input=False)
    else:
        bad = common.parse_nat_list(blocks[0])
        rep.coverage["traces_validated_against_impl"] = len(cases) - len(bad)
        for b in bad:
            rep.violation("model-vs-impl trigger", "trigger step of %s is not the first step with min T <= cnTemp (model/SnLoop.v find_first)" % labs[b], dict(correspondence="find_first", run=labs[b]), found_input=False)
    if not ok:
        rep.violation("proof-broken", "proof obligations of C11 do not check: " + msg, dict(theorem="props/C11.v", log=msg), found_input=False)
