"""C08  Spatial model nucleates at the first crossing of its hazard integral."""
import random

import numpy as np
from scipy.stats import norm

import common
import impl
import snowing_runs as sr
from c03 import rlit
from common import coq_list, fhex

HEAD = ("From Coq Require Import ZArith List Bool PrimFloat. Import ListNotations.\nFrom Snow Require Import Topology SnLoop.\n"
        "(* (cumulative probability 1 - exp(-E_i) after each cooling step, the repetition's uniform number, observed nucleation step) *)\n"
        "Definition case_ok (c : list float * float * nat) : bool := let '(Fn, F, obs) := c in\n"
        "  match find_first (fun i => PrimFloat.ltb F (nth i Fn PrimFloat.neg_infinity)) 0 (length Fn) with Some i => Nat.eqb i obs | None => false end.\n"
        "Definition cases := %s.\nEval vm_compute in bad_cases case_ok cases.\n")


def kb_of(c):
    st = np.random.get_state()
    np.random.seed(2024)
    xi = norm.ppf(np.random.rand())
    np.random.set_state(st)
    return 10 ** (-(c["a"] + xi * c["c"]))


def frand(seed):
    st = np.random.get_state()
    np.random.seed(seed)
    f = np.random.random()
    np.random.set_state(st)
    return f


def simps_weights(x):
    import scipy.integrate as si
    n = len(x)
    return np.array([si.simps(np.eye(n)[k], x) for k in range(n)])


def check(rep, tier):
    rng = random.Random(rep.seed)
    ok, msg = common.proof_stage(rep, "C08", ["theories/model/SnLoop.vo"])
    rep.rule = ("stochastic Snowing runs in 0D / 1D / 2D (all configurations, several geometries, seeds) with every cooling step saved: the rate field J = k (T_eq_l - T)^b on the supercooled mask, "
                "its volume integral K_v (quadrature weights measured from the integrator, required non-negative) and E = sum K_v dt are recomputed from the saved fields by an independent oracle; "
                "the nucleation step must be the first with 1 - exp(-E) > F(seed) (checked with find_first of model/SnLoop.v on the recomputed sequence), and the four reported temperatures must "
                "be min / kinetic mean / mean / max of the field at that step; a sample of J values is certified against the R definition by `interval`; non-trivial = completed run")
    rep.trusted = ["Coq 8.16.1 kernel + vm_compute; Interval", "simps shim around scipy.integrate.simpson: weights measured, not derived", "numpy global stream: np.random.seed(seed); random()",
                   "harness/c08.py recomputation of J, K_v, E"]
    import scipy.integrate as si
    recs = []
    for s_i in range(2 if tier == "quick" else 8):
        # 1D: shelf and VISF (top supercooled before the bottom); 2D: jacket (radially varying rate field), thorough also shelf / VISF
        recs += sr.catalogue(rng, tier, dims=("homogeneous", "spatial_1D"), n0=2, n1=1, confs=["VISF", "shelf"][s_i % 2:] + ["VISF"])
    recs += sr.catalogue(rng, tier, dims=("spatial_1D",), confs=["VISF"], n1=1, early_vacuum=True)
    recs += sr.catalogue(rng, tier, dims=("spatial_2D",), confs=["jacket"] if tier == "quick" else ["jacket", "shelf", "VISF"], n2=1 if tier == "quick" else 3)
    # histories: (a) the configuration file is re-pointed after construction (other kinetics), then the object is run: the hazard is the one
    # of the configuration the object reports NOW; (b) a sequential study of two repetitions: the last repetition's field and row
    for kind in ("repoint", "study"):
        prog = dict(start=10, end=-50, rate=2.0 / 60, holds=[], t_tot=3600.0, dt=1.0)
        try:
            S = sr.make(dim="spatial_1D", conf="shelf", height=0.05, diameter=0.05, K=200, prog=prog, Nrep=2 if kind == "study" else 1)
            dt, _ = sr.step_info(S)
            prog["t_tot"] = float(int(dt * 9800))
            S = sr.make(dim="spatial_1D", conf="shelf", height=0.05, diameter=0.05, K=200, prog=prog, Nrep=2 if kind == "study" else 1)
            rec = dict(label="spatial_1D/shelf h=0.05 K=200 history: %s" % ("configPath re-pointed to a file with kinetics a=22, b=20 after construction" if kind == "repoint" else "sequential study Nrep=2, last repetition"),
                       dim="spatial_1D", conf="shelf", S=S, dt=dt, prog=prog, error=None, row=-1 if kind == "study" else 0, seed=1 if kind == "study" else 0, must_complete=True)
            with impl.quiet():
                if kind == "repoint":
                    S.configPath = impl.cfg_path(sr.make_over("spatial_1D", "shelf", 0.05, 0.05, {"kinetics": {"a": 22.0, "b": 20.0}}))
                    S.run()
                else:
                    S.run(how="sequential")
        except Exception as e:
            rec = dict(label="history %s" % kind, dim="spatial_1D", conf="shelf", S=None, dt=None, error=e)
            rep.violation("history-crash %s" % type(e).__name__, "history %s raises %r" % (kind, e), dict(history=kind))
        recs.append(rec)
    # corpus: a 2D VISF run whose short, weak vacuum pulse supercools the top WITHOUT nucleating it (the hazard integral grows to ~0.5); the top
    # then warms up again and for minutes no point is supercooled; the vial nucleates later from the bottom.  What was accumulated still counts.
    try:
        progP = dict(start=20, end=-60, rate=3.0 / 60, holds=[], t_tot=5200.0, dt=1.0)
        exP = {"VISF": {"p_vac": 200, "t_vac_start": 1 / 60, "t_vac_duration": 46.0 / 3600}, "kinetics": {"a": 20.7}}      # E reaches ~0.5 (< 0.80) during the pulse
        SP = sr.make(dim="spatial_2D", conf="VISF", height=0.04, diameter=0.08, K=400, prog=progP, extra=exP)
        dtP, _ = sr.step_info(SP)
        recP = dict(label="spatial_2D/VISF h=0.04 d=0.08 K=400 vacuum pulse 60-106 s at 200 Pa, a=20.7 (hazard accumulated, then nothing supercooled, then nucleation)",
                    dim="spatial_2D", conf="VISF", S=SP, dt=dtP, prog=progP, error=None, must_complete=True)
        sr.run(SP)
    except Exception as e:
        recP["error"] = e
    recs.append(recP)
    # fixed corpus: another weight c of the vial-dependent part of the pre-exponential factor k = 10^-(a + c xi) (c = 1 is the packaged default), 1D and 0D
    for dimK, cK in (("spatial_1D", 0.5), ("homogeneous", 0.0)):
        try:
            progK = dict(start=10, end=-50, rate=2.0 / 60, holds=[], t_tot=3600.0 if dimK != "homogeneous" else 3 * 3600.0, dt=1.0)
            hK, dK, KK = (0.05, 0.05, 200) if dimK != "homogeneous" else (0.01, 0.01, 50)
            exK = {"kinetics": {"c": cK}}
            SK = sr.make(dim=dimK, conf="shelf", height=hK, diameter=dK, K=KK, prog=progK, extra=exK)
            dtK, _ = sr.step_info(SK)
            if dimK != "homogeneous":
                progK["t_tot"] = float(int(dtK * 9800)); SK = sr.make(dim=dimK, conf="shelf", height=hK, diameter=dK, K=KK, prog=progK, extra=exK)
            recK = dict(label="%s/shelf kinetics c=%g (fixed corpus)" % (dimK, cK), dim=dimK, conf="shelf", S=SK, dt=dtK, prog=progK, error=None, must_complete=True)
            sr.run(SK)
        except Exception as e:
            recK["error"] = e
        recs.append(recK)
    # a LONG 1D run (more than 10000 steps: the cooling stage is saved with a stride): the nucleation step and field are those of an independent
    # numpy re-simulation that accumulates the hazard on every step
    try:
        progL = dict(start=10, end=-50, rate=0.5 / 60, holds=[], t_tot=22000.0, dt=1.0)
        SL = sr.make(dim="spatial_1D", conf="shelf", height=0.05, diameter=0.05, K=200, prog=progL)
        dtL, nL = sr.step_info(SL)
        sr.run(SL)
        iL, TL, _ = sr.resim_cooling_1d(SL, dtL)
        resL = SL.results.iloc[0]
        labL = "spatial_1D/shelf h=0.05 K=200 0.5 K/min t_tot=22000 s (%d steps, saved with a stride)" % nL
        rep.case(labL, nontrivial=True); rep.count("long-run-resimulated")
        rep.coverage["long_run_steps"] = int(nL)
        if iL is None or abs(float(resL["t_nuc"]) * 60 - dtL * iL) > 0.5 * dtL:
            rep.violation("not-first-crossing long run", "%s: nucleation reported at t=%r s (step %.1f) but the hazard integral accumulated on every step first crosses F at step %r"
                          % (labL, float(resL["t_nuc"]) * 60, float(resL["t_nuc"]) * 60 / dtL, iL), dict(run=labL, first_crossing=iL))
        else:
            for kname, v in (("T_nuc_min", TL.min()), ("T_nuc_mean", TL.mean()), ("T_nuc_max", TL.max())):
                if abs(float(resL[kname]) + 273.15 - v) > 1e-6:
                    rep.violation("stat-%s long run" % kname, "%s: reported %s=%r, the field at the first crossing has %r" % (labL, kname, float(resL[kname]), v - 273.15), dict(run=labL)); break
    except Exception as e:
        rep.violation("long-run-crash %s" % type(e).__name__, "long 1D run / re-simulation raises %r" % e, dict(error=repr(e)))
    cases, labs, certs = [], [], []
    for rec in recs:
        if rec["error"] is not None:
            rep.case(rec["label"], nontrivial=False); rep.count("raised")
            if rec.get("must_complete"):
                # a fixed corpus configuration (independent of the seed) whose process is long enough: it completes on the pinned tree
                rep.violation("corpus-run-raises", "%s: the run raises %r although the process is long enough for this vial" % (rec["label"], rec["error"]), dict(run=rec["label"], error=repr(rec["error"])))
            continue
        S, dt, lab, c = rec["S"], rec["dt"], rec["label"], rec["S"].const
        seed = rec.get("seed", 0)
        res = S.results.iloc[rec.get("row", 0)]
        kb = kb_of(c)
        Teql = c["T_eq"] + 273.15 - c["depression"]
        T = np.asarray(S.temp) + 273.15
        tn = float(res["t_nuc"]) * 60
        ie = int(round(tn / dt))
        F = frand(seed)
        rep.case(lab, nontrivial=True, sample=dict(run=lab, nucleation_step=ie, F=F) if len(rep.samples) < 4 else None)
        rep.count(rec["dim"])
        if rec["dim"] == "homogeneous":
            Tc = np.append(T[:ie], float(res["T_nuc"]) + 273.15)            # temperatures after steps 0..ie
            J = np.where(Tc < Teql, kb * np.abs(Teql - Tc) ** c["b"], 0.0)
            Kv = J * c["V"]
            fieldN = Tc[-1:]
        elif rec["dim"] == "spatial_1D":
            z = np.linspace(0, c["height"], 30)
            w = simps_weights(z)
            if (w < -1e-18).any():
                rep.violation("negative-quadrature-weight", "the z-quadrature has a negative weight", dict(run=lab)); continue
            Tc = T[: ie + 1]
            J = np.where(Tc < Teql, kb * np.abs(Teql - Tc) ** c["b"], 0.0)
            Kv = c["A"] * (J @ w)
            fieldN = Tc[ie]
            Jn = J[ie]
            kin = (c["A"] / Kv[ie]) * si.simps(fieldN * Jn, z) if Kv[ie] > 0 else 273.15
        else:
            z = np.linspace(0, c["height"], 30); r = np.linspace(0, c["diameter"] / 2, 15)
            wz, wr = simps_weights(z), simps_weights(r)
            if (wz < -1e-18).any() or (wr < -1e-18).any():
                rep.violation("negative-quadrature-weight", "a quadrature weight is negative", dict(run=lab)); continue
            Tc = T[: ie + 1]
            J = np.where(Tc < Teql, kb * np.abs(Teql - Tc) ** c["b"], 0.0)
            Kv = np.einsum("z,tzr,r->t", wz, J * r[None, None, :], wr) * 2 * np.pi
            fieldN = Tc[ie]
            Jn = J[ie]
            fz = 2 * np.pi * si.simps(r * fieldN * Jn, r)
            kin = (1 / Kv[ie]) * si.simps(fz, z) if Kv[ie] > 0 else 273.15
        E = np.cumsum(Kv * dt)
        gap = int(((E > 0) & (Kv == 0)).sum())
        if gap:
            rep.count("steps with nothing supercooled after the hazard integral had become positive", gap)
            rep.coverage["hazard_integral_carried_through_the_gap"] = max(rep.coverage.get("hazard_integral_carried_through_the_gap", 0.0), float(E[(E > 0) & (Kv == 0)].max()))
        Fn = 1 - np.exp(-E)
        first = np.nonzero(Fn > F)[0]
        if not len(first) or first[0] != ie:
            rep.violation("not-first-crossing", "%s: nucleation reported at step %d (t=%r s) but 1-exp(-E) first exceeds F=%r at step %s" % (lab, ie, tn, F, first[0] if len(first) else None),
                          dict(run=lab, step=ie, first_crossing=int(first[0]) if len(first) else None)); continue
        # reported temperatures
        if rec["dim"] != "homogeneous":
            want = dict(T_nuc_min=fieldN.min(), T_nuc_mean=fieldN.mean(), T_nuc_max=fieldN.max(), T_nuc_kin=kin)
            for k, v in want.items():
                if abs(float(res[k]) + 273.15 - v) > 1e-7:
                    rep.violation("stat-%s" % k, "%s: reported %s=%r, field at the nucleation step gives %r" % (lab, k, float(res[k]), v - 273.15), dict(run=lab)); break
            mn, kn, me, mx = (float(res[k]) for k in ("T_nuc_min", "T_nuc_kin", "T_nuc_mean", "T_nuc_max"))
            if not (mn <= me + 1e-12 <= mx + 2e-12 and mn - 1e-9 <= kn <= c["T_eq"] + 1e-9):
                rep.violation("stat-order", "%s: min %r, kinetic %r, mean %r, max %r, T_eq %r" % (lab, mn, kn, me, mx, c["T_eq"]), dict(run=lab))
        cases.append("(%s, %s, %d)" % (coq_list(fhex(x) for x in Fn), fhex(F), ie)); labs.append(lab)
        # a few certificates of the rate law
        flat = np.ravel(Tc[-1] if rec["dim"] != "homogeneous" else Tc[-3:])
        for Tv in flat[flat < Teql][:3]:
            Jv = kb * (Teql - Tv) ** c["b"]
            # relative tolerance 1e-9, widened where T_eq_l - T is a difference of two nearly equal kelvin temperatures (17-digit decimal literals)
            tolJ = max(1e-9, 40 * abs(c["b"]) * 2.2e-16 * Teql / max(Teql - Tv, 1e-300))
            if 1e-280 < Jv < 1e200 and tolJ <= 1e-4:
                certs.append("Goal Rabs (Jrate %s %s %s %s - %s) <= %s.\nProof. unfold Jrate, NumR.Rltb. destruct (Rlt_dec _ _) as [_|H]; [|exfalso; apply H; lra]. unfold Rpower. interval with (i_prec 90). Qed.\n"
                             % (rlit(kb), rlit(c["b"]), rlit(Teql), rlit(Tv), rlit(Jv), rlit(Jv * tolJ)))
    rc, out = common.coq_eval("c08_0", HEAD % coq_list(cases), timeout=900)
    blocks = common.eval_blocks(out)
    if rc != 0 or len(blocks) != 1:
        rep.violation("correspondence-run", "Coq evaluation failed: " + out[-500:], dict(log=out[-2000:]), found_input=False)
    else:
        bad = common.parse_nat_list(blocks[0])
        rep.coverage["traces_validated_against_impl"] = len(cases) - len(bad)
        for b in bad:
            rep.violation("model-vs-impl crossing", "nucleation step of %s is not find_first of the crossing predicate (model/SnLoop.v)" % labs[b], dict(correspondence="find_first", run=labs[b]), found_input=False)
    body = ("From Coq Require Import Reals Lra.\nFrom Interval Require Import Tactic.\nFrom Snow Require Import NumR SnHazard.\nLocal Open Scope R_scope.\n" + "\n".join(certs[:40]) + "\nEval vm_compute in 12345%nat.\n")
    rc, out = common.coq_eval("c08_certs", body, timeout=900)
    rep.coverage["interval_certificates"] = len(certs[:40])
    if not (rc == 0 and "12345" in out):
        rep.violation("certificate", "a rate-law certificate fails: " + out[-400:], dict(log=out[-1500:]), found_input=False)
    if not ok:
        rep.violation("proof-broken", "proof obligations of C08 do not check: " + msg, dict(theorem="props/C08.v", log=msg), found_input=False)
