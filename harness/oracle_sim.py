"""An independent re-statement of the published shelf-scale model (numpy), run in lockstep with the
implementation through a scripted random generator: the harness decides every dice value relative to
the step probability it computed itself, so the set of vials that must nucleate in every step is known."""
import math

import numpy as np
from scipy.stats import norm

import c01
import c09


class Lockstep:
    def __init__(self, cfg, S, hshelf, rng, mode="mixed"):
        self.cfg, self.S, self.rng, self.mode = cfg, S, rng, mode
        # kinetic constants and vial volume are read from the configuration by the harness itself (defaults + named overrides)
        import impl
        ex = impl.expected_config(cfg.get("over"))
        geo = ex["vial"]["geometry"]
        c = dict(S.const)
        want = dict(a=float(ex["kinetics"]["a"]), b=float(ex["kinetics"]["b"]), c=float(ex["kinetics"]["c"]),
                    V=float(geo["height"]) * float(geo["length"]) * float(geo["width"]))
        self.const_mismatch = {k: (S.const[k], v) for k, v in want.items() if not math.isclose(S.const[k], v, rel_tol=1e-12, abs_tol=0)}
        c.update(want)
        self.c = c
        self.N = S.N_vials_total
        self.G = c09.geometric(cfg["arr"], *cfg["shape"])
        self._hshelf = hshelf
        self.shelf = np.asarray(S.opcond.tempProfile(S.dt), dtype=float)
        self.n = int(math.ceil(S.opcond.t_tot / S.dt)) + 1
        self.T = np.ones(self.N) * S.T_k_0
        self.sig = np.zeros(self.N)
        st = np.random.get_state()
        np.random.seed(S.seed_v)
        self.xi = norm.ppf(np.random.rand(self.N))
        np.random.set_state(st)
        self.kb = 10 ** (-(c["a"] + self.xi * c["c"]))
        self.k = 0
        self.tn = np.full(self.N, np.nan); self.Tn = np.full(self.N, np.nan)
        self.problems = []
        if self.const_mismatch:
            self.problems.append(("constants-not-from-configuration", "the object's kinetic constants / volume differ from its configuration (defaults + overrides) {name: (object, configuration)}: %r" % self.const_mismatch))
        self.samples = []          # (xi, Tstar, P) actually used, for the interval certificates
        # trigger step of controlled nucleation (C10): first grid step at or after the last 1 s sample >= cnTemp
        self.k_cn = None
        if S.opcond.cnTemp is not None:
            p1 = np.asarray(S.opcond.tempProfile(1), dtype=float)
            idx = np.nonzero(p1 >= S.opcond.cnTemp)[0]
            cnt = idx[-1] if len(idx) else len(p1) - 1
            ks = np.nonzero(np.arange(self.n) * S.dt >= cnt)[0]
            self.k_cn = int(ks[0]) if len(ks) else None
        # each vial gets a random "wish" step after which the harness lets it nucleate
        self.wish = np.array([rng.randint(0, self.n - 1) for _ in range(self.N)])
        self.cand_counts = []
        self.served = []            # the dice vectors actually handed to the implementation, one per call

    @property
    def hshelf(self):
        # the shelf coefficients of THIS run (read when first needed: run() has built them before the time loop)
        if self._hshelf is None:
            self._hshelf = np.broadcast_to(np.asarray(self.S._H_shelf, dtype=float), (self.N,)).copy()
        return self._hshelf

    def advance_solid_only(self):
        """steps in which no vial is liquid consume no draws"""
        while self.k < self.n and not (self.sig == 0).any():
            self._step(np.zeros(self.N, bool))

    def _step(self, dec):
        T2, s2, q = c01.numpy_step(self.S, self.G, self.hshelf, self.shelf[self.k], self.T, self.sig, dec)
        self.T, self.sig = T2, s2
        self.k += 1

    def script(self, call, m):
        self.advance_solid_only()
        S, c = self.S, self.c
        if self.k >= self.n:
            self.problems.append(("extra-draw", "generator asked for draws after the last step"))
            return np.zeros(m)
        # liquid update first, to know T* and the candidates
        T2, s2, q = c01.numpy_step(S, self.G, self.hshelf, self.shelf[self.k], self.T, self.sig, np.zeros(self.N, bool))
        liquid = self.sig == 0
        cand = liquid & (T2 < c["T_eq_l"])
        idx = np.nonzero(cand)[0]
        self.cand_counts.append(len(idx))
        if m != len(idx):
            self.problems.append(("candidate-count", "step %d: %d draws requested, %d vials are liquid and supercooled" % (self.k, m, len(idx))))
        with np.errstate(all="ignore"):
            P = self.kb * c["V"] * (c["T_eq_l"] - T2) ** c["b"] * S.dt
        # a supercooling so small that the rounding difference between this restatement and the implementation (temperatures near 273 in
        # kelvin configurations) could move P = k_v V dT^b dt across a dice value placed right next to it: such vials only get dice far from P
        tie = (c["T_eq_l"] - T2) < 1e-6 * max(1.0, abs(c["T_eq_l"]))
        dice = np.empty(len(idx)); dec = np.zeros(self.N, bool)
        cn_step = (self.k_cn is not None and self.k == self.k_cn)
        for t, i in enumerate(idx):
            Pi = P[i]
            yes = self.k >= self.wish[i] and self.rng.random() < 0.5
            if cn_step:
                dice[t] = self.rng.choice([0.0, 0.5, 0.999999999]); dec[i] = True
            elif Pi >= 1:
                dice[t] = self.rng.choice([0.0, 0.999999999]); dec[i] = True      # certain once P reaches 1
            elif yes and Pi > 1e-300:
                dice[t] = Pi * (1 - 1e-4) if (self.rng.random() < 0.7 and not tie[i]) else 0.0; dec[i] = True
            else:
                dice[t] = min(Pi * (1 + 1e-4), 0.999999999) if (self.rng.random() < 0.7 and Pi > 1e-300 and not tie[i]) else 0.999999999
                if dice[t] < Pi:          # Pi*(1+1e-6) rounded below Pi cannot happen; 0.999999999 < Pi < 1 can
                    dec[i] = True
            if len(self.samples) < 400 and 1e-290 < Pi < 1e6 and self.rng.random() < 0.05:
                self.samples.append((float(self.xi[i]), float(T2[i]), float(Pi)))
        for i in idx[dec[idx]]:
            self.tn[i] = self.k * S.dt + S.dt; self.Tn[i] = T2[i]
        self._step(dec)
        out = np.zeros(m)
        out[: min(m, len(dice))] = dice[: min(m, len(dice))]
        self.served.append(out.copy())
        return out

    def posthoc(self):
        """The rate law checked step by step on the IMPLEMENTATION's own stored states (nothing accumulates, so an unstable configuration in
        which this restatement and the implementation drift apart from rounding cannot raise an alarm): with the dice that were actually
        served in step k, the vials that get ice in column k+1 are exactly the liquid, supercooled ones whose dice value is below
        k_v V (T_eq_l - T)^b dt (all candidates at the controlled-nucleation step), and the recorded temperature is the supercooled one."""
        S, c = self.S, self.c
        XT, XS = np.array(S.X_T), np.array(S.X_sigma)
        st = {k: np.asarray(v, float) for k, v in S.stats.items()}
        n = XT.shape[1]
        out = []
        call = 0
        tol_T = 1e-9 * max(1.0, abs(c["T_eq_l"]))
        for k in range(n):
            liquid = XS[:, k] == 0
            if not liquid.any():
                continue
            if call >= len(self.served):
                out.append(("missing-draw", "step %d has liquid vials but the generator was not asked for draws" % k)); break
            dice = self.served[call]; call += 1
            T2, s2, q = c01.numpy_step(S, self.G, self.hshelf, self.shelf[k], XT[:, k], XS[:, k], np.zeros(self.N, bool))
            cand = liquid & (T2 < c["T_eq_l"])
            unsure = liquid & (np.abs(T2 - c["T_eq_l"]) <= tol_T)
            idx = np.nonzero(cand)[0]
            if len(dice) != len(idx):
                if not unsure.any():
                    out.append(("candidate-count", "step %d: %d draws requested, %d vials are liquid and supercooled" % (k, len(dice), len(idx))))
                    break
                continue
            with np.errstate(all="ignore"):
                P = c["b"] * 0 + self.kb * c["V"] * np.abs(c["T_eq_l"] - T2) ** c["b"] * S.dt
            if self.k_cn is not None and k == self.k_cn:
                P = np.ones(self.N)
            want = np.zeros(self.N, bool); tie = np.zeros(self.N, bool)
            for t_, i in enumerate(idx):
                want[i] = dice[t_] < P[i]
                tie[i] = abs(dice[t_] - P[i]) <= 1e-7 * max(P[i], 1e-300)
            if k < n - 1:
                got = liquid & (XS[:, k + 1] != 0)
            else:
                got = liquid & np.isclose(st["t_nucleation"], (k + 1) * S.dt)
            bad = (want != got) & ~tie & ~unsure
            if bad.any():
                i = int(np.argmax(bad))
                out.append(("nucleation-step", "step %d vial %d: liquid and supercooled by %r K, dice %r, k_v V dT^b dt = %r: the law says %s, the implementation %s" % (
                    k, i, c["T_eq_l"] - T2[i], (dice[list(idx).index(i)] if i in idx else None), P[i], "nucleates" if want[i] else "stays liquid", "nucleates" if got[i] else "stays liquid")))
                break
            for i in np.nonzero(got & want)[0]:
                if abs(st["t_nucleation"][i] - (k + 1) * S.dt) > 1e-9 * (1 + (k + 1) * S.dt):
                    out.append(("nucleation-step", "vial %d gets ice in step %d but t_nucleation = %r" % (i, k, st["t_nucleation"][i]))); break
                if abs(st["T_nucleation"][i] - T2[i]) > 1e-9 * (1 + abs(T2[i])):
                    out.append(("nucleation-temperature", "vial %d: recorded T_nucleation %r, supercooled temperature at that moment %r" % (i, st["T_nucleation"][i], T2[i]))); break
            if out:
                break
        else:
            if call < len(self.served):
                out.append(("extra-draw", "the generator was asked for draws %d times, only %d steps have liquid vials" % (len(self.served), call)))
        return out

    def finish(self):
        while self.k < self.n:
            if (self.sig == 0).any():
                self.problems.append(("missing-draw", "step %d has liquid vials but the generator was not asked for draws" % self.k))
            self._step(np.zeros(self.N, bool))
