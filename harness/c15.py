"""C15  The model hierarchy is consistent across its shared limits."""
import math
import random

import numpy as np

import common
import impl
import flake_runs as fr
import gen_opcond
import snowing_runs as sr


def zero_d_vs_snowflake(rep, rng, K, tt, sol=None, reuse=False):
    sf = impl.snowflake_mod()
    prog = dict(start=20, end=-50, rate=2 / 60, holds=[], t_tot=tt, dt=1.0)
    geo = {"vial": {"geometry": {"height": 0.01, "length": 0.012, "width": 0.01}}}
    if sol:
        geo["solution"] = dict(sol)      # other solution constants (e.g. heavy water, T_eq = 3.82 C), same in both models
    if reuse:
        # history: the 0D object has already simulated another program; it is then given the program under test and run again
        prog0 = dict(prog, rate=1 / 60, t_tot=tt + 1800.0)
        S0 = sr.make(dim="homogeneous", height=0.01, diameter=0.01, K=K, prog=prog0, extra=geo)
        sr.run(S0)
        S0.opcond = gen_opcond.build(prog, impl.opcond_mod())
        sr.run(S0)
    else:
        S0 = sr.make(dim="homogeneous", height=0.01, diameter=0.01, K=K, prog=prog, extra=geo)
        sr.run(S0)
    res = S0.results.iloc[0]
    ie = int(round(float(res["t_nuc"]) * 60 / 0.1))
    lab = "0D vs Snowflake(1,1,1) K=%g t_tot=%g%s%s" % (K, tt, " solution=%r" % sol if sol else "", " (0D object re-used after another program)" if reuse else "")
    over = dict(geo); over["snowing_parameters"] = {"dimensionality": "homogeneous", "configuration": "shelf"}
    over["vial"]["geometry"]["diameter"] = 0.01
    cfg = dict(arr="square", shape=(1, 1, 1), k={"int": 0, "ext": 0, "s0": K, "s_sigma_rel": 0}, dt=0.1, T_init=None, over=over, initIce="direct",
               seed=0, seed_v=0, prog=prog, cnTemp=None, thr=0.9)
    r = fr.run(cfg, script=lambda call, m: np.zeros(m) if call == ie else np.full(m, 0.9999999999))
    XT, XS, st = r["XT"][0], r["XS"][0], r["stats"]
    T0d = np.asarray(S0.temp)
    rep.case(lab, nontrivial=True, sample=dict(pair=lab, nucleation_step=ie))
    # same cooling curve
    a, b = XT[1: ie + 1], T0d[:ie]
    if len(a) != len(b) or np.abs(a - b).max() > 1e-9 * (1 + np.abs(b).max()):
        k = int(np.argmax(np.abs(a - b))) if len(a) == len(b) else -1
        rep.violation("0D-vs-flake cooling", "%s: cooling curves differ at step %d: Snowflake %r, Snowing 0D %r" % (lab, k, a[k] if k >= 0 else None, b[k] if k >= 0 else None), dict(pair=lab)); return
    # same nucleation state for the same nucleation instant
    if abs(st["t_nucleation"][0] - float(res["t_nuc"]) * 60 - 0.1) > 1e-6 or abs(st["T_nucleation"][0] - float(res["T_nuc"])) > 1e-9 * (1 + abs(float(res["T_nuc"]))):
        rep.violation("0D-vs-flake nucleation", "%s: nucleation (t, T) Snowflake (%r, %r) vs 0D (%r, %r)" % (lab, st["t_nucleation"][0], st["T_nucleation"][0], float(res["t_nuc"]) * 60, float(res["T_nuc"])), dict(pair=lab)); return
    c = S0.const
    # ice formed: Snowflake sigma right after the jump vs the 0D quadratic (sigma = m_i / m_water)
    Tm = c["T_eq"] + 273.15; Tn = float(res["T_nuc"]) + 273.15
    g = c["Dh"] * c["mass_water"] / (c["cp_solution"] * c["mass"]); h = c["mass_solute"] * (c["k_f"] / c["M_s"]) * c["Dh"] / (c["cp_solution"] * c["mass"])
    B = -Tm - Tn - g; C = g * Tm - h + Tm * Tn
    x = 0.5 * (-B - math.sqrt(B * B - 4 * C))
    sig0 = (c["mass_water"] - c["mass_solute"] * (c["k_f"] / c["M_s"]) / (Tm - x)) / c["mass_water"]
    if abs(XS[ie + 1] - sig0) > 1e-7 or abs(XT[ie + 1] + 273.15 - x) > 1e-6:
        rep.violation("0D-vs-flake nucleation-state", "%s: after nucleation Snowflake has (T, sigma) = (%r, %r), the 0D balance gives (%r, %r)" % (lab, XT[ie + 1], XS[ie + 1], x - 273.15, sig0), dict(pair=lab)); return
    # same solidification time (two explicit Euler forms of the same ODE: agreement to O(dt))
    ts_f, ts_0 = st["t_solidification"][0], float(res["t_sol"]) * 60
    rep.coverage["tsol_flake_vs_0D"] = [float(ts_f), float(ts_0)]
    if not (abs(ts_f - ts_0) <= 0.01 * ts_0 + 1.0):
        rep.violation("0D-vs-flake solidification", "%s: solidification time Snowflake %r s vs 0D %r s" % (lab, ts_f, ts_0), dict(pair=lab))


def thin_identity(rep, S, dt, lab):
    """C15_1D_mean_follows_0D_law_up_to_bottom_offset evaluated on the implementation's own stored 1D cooling states (no evaporation):
    mean(T_{k+1}) - cool0(mean T_k) = dt K/(rho cp H) (mean T_k - T_k[bottom]), the 0D step computed as the 0D model does (A, mass, cp)."""
    try:
        sr.every_step_saved(S, dt)
    except RuntimeError:
        return
    ie = sr.split_run(S, dt)
    if ie is None or ie < 3:
        return
    c = S.const
    T = np.asarray(S.temp) + 273.15
    sh = np.asarray(S.shelfTemp) + 273.15
    K = S.k["s0"]
    m0, m1 = T[:ie].mean(axis=1), T[1:ie + 1].mean(axis=1)
    zero_d = m0 + dt * (c["A"] * K * (sh[1:ie + 1] - m0)) / (c["cp_solution"] * c["mass"])
    rhs = dt * K / (c["rho_l"] * c["cp_solution"] * c["height"]) * (m0 - T[:ie, 0])
    err = float(np.abs((m1 - zero_d) - rhs).max())
    rep.coverage["thin_limit_identity"] = dict(steps=int(ie), max_abs_err_K=err, largest_offset_term_K=float(np.abs(rhs).max()),
                                               largest_mean_minus_bottom_K=float(np.abs(m0 - T[:ie, 0]).max()))
    rep.case(lab + " thin-limit identity", nontrivial=bool(np.abs(rhs).max() > 1e-6), sample=dict(pair=lab, steps=int(ie), err=err))
    if not err <= 1e-8:
        k = int(np.abs((m1 - zero_d) - rhs).argmax())
        rep.violation("1D mean does not follow the 0D law", "%s: cooling step %d: mean(T_new) - cool0(mean T) = %.6e K but dt K/(rho cp H) (mean - bottom) = %.6e K "
                      "(exact identity of the 1D cooling step, theorem C15_1D_mean_follows_0D_law_up_to_bottom_offset)" % (lab, k, float((m1 - zero_d)[k]), float(rhs[k])),
                      dict(pair=lab, step=k))


def one_d_vs_two_d(rep, rng, conf, tier):
    h, d = 0.06, 0.12
    area = math.pi * (d / 2) ** 2
    prog = dict(start=20, end=-50, rate=2 / 60, holds=[], t_tot=10000.0, dt=1.0)
    extra = {"vial": {"geometry": {"length": math.sqrt(area), "width": math.sqrt(area)}}}
    if conf == "VISF":
        extra["VISF"] = {"t_vac_start": 0.3, "t_vac_duration": 0.25, "kappa": 0.05}
    S1 = sr.make(dim="spatial_1D", conf=conf, height=h, diameter=d, K=300, prog=prog, extra=extra)
    S2 = sr.make(dim="spatial_2D", conf=conf, height=h, diameter=d, K=300, prog=prog, extra=extra)
    dt1, _ = sr.step_info(S1); dt2, _ = sr.step_info(S2)
    sr.run(S1); sr.run(S2)
    lab = "1D vs 2D %s h=%g d=%g equal cross-section" % (conf, h, d)
    T2 = np.asarray(S2.temp); t2 = np.asarray(S2.time) * 3600
    ie2 = sr.split_run(S2, dt2)
    spread = (T2[: ie2 + 1].max(axis=2) - T2[: ie2 + 1].min(axis=2)).max()
    r1, r2 = S1.results.iloc[0], S2.results.iloc[0]
    rep.case(lab, nontrivial=True, sample=dict(pair=lab, radial_spread_K=float(spread), t_nuc_1D=float(r1["t_nuc"]), t_nuc_2D=float(r2["t_nuc"])))
    try:
        rep._c2.append(sr.sn2d_case(S2, dt2, rng)[0]); rep._l2.append(lab)
    except Exception as e:
        rep.violation("correspondence-case-2D", "cannot build the 2D one-step case: %r" % e, dict(pair=lab), found_input=False)
    rep.coverage["radial_spread_K_" + conf] = float(spread)
    if conf == "shelf":
        thin_identity(rep, S1, dt1, lab)
    rep.coverage["t_nuc_1D_vs_2D_" + conf] = [float(r1["t_nuc"]), float(r2["t_nuc"])]
    if spread > 1e-6:
        # the known finding is the non-uniformity the in-place sweep produces in THESE pairs (0.2 - 0.7 K); anything larger is something else
        rep.violation("2D radial non-uniformity (in-place sweep)" if spread <= 1.0 else "2D radial non-uniformity larger than the in-place sweep's", "%s: with no radial heat flux the 2D temperature field is not radially uniform: spread %.3g K during cooling; "
                      "t_nuc 1D %.2f min vs 2D %.2f min" % (lab, spread, float(r1["t_nuc"]), float(r2["t_nuc"])), dict(pair=lab, spread=float(spread)))
    if conf == "VISF":
        # evaporative cooling of the (liquid) top surface: a weak, early vacuum pulse that does not nucleate the vial (0.1 h + 0.05 h, kappa 0.001, chamber at 1000 Pa), judged
        # at the end of the window and 300 s after it has closed, relative to the shelf-only run: 1D and 2D agree within 10 %
        exw = dict(extra); exw["VISF"] = {"t_vac_start": 0.1, "t_vac_duration": 0.05, "kappa": 0.001, "p_vac": 1000}
        Sv1 = sr.make(dim="spatial_1D", conf="VISF", height=h, diameter=d, K=300, prog=prog, extra=exw); sr.run(Sv1)
        Sv2 = sr.make(dim="spatial_2D", conf="VISF", height=h, diameter=d, K=300, prog=prog, extra=exw); sr.run(Sv2)
        Sa = sr.make(dim="spatial_1D", conf="shelf", height=h, diameter=d, K=300, prog=prog, extra=extra); sr.run(Sa)
        Sb = sr.make(dim="spatial_2D", conf="shelf", height=h, diameter=d, K=300, prog=prog, extra=extra); sr.run(Sb)
        thin_identity(rep, Sa, sr.step_info(Sa)[0], "1D shelf h=%g d=%g" % (h, d))
        try:
            rep._c2.append(sr.sn2d_case(Sv2, dt2, rng)[0]); rep._l2.append(lab + " (weak early vacuum pulse)")
        except Exception as e:
            rep.violation("correspondence-case-2D", "cannot build the 2D one-step case: %r" % e, dict(pair=lab), found_input=False)
        def top(S, two, tq):
            t = np.asarray(S.time) * 3600; k = int(np.argmin(np.abs(t - tq)))
            T = np.asarray(S.temp)
            return float(T[k][-1].mean() if two else T[k][-1])
        tnmin = min(float(S_.results.iloc[0]["t_nuc"]) * 60 for S_ in (Sv1, Sv2, Sa, Sb))
        for name, tq in (("at the end of the vacuum window", (0.1 + 0.05) * 3600 - 5), ("300 s after the vacuum window closed", (0.1 + 0.05) * 3600 + 300)):
            d1 = top(Sa, False, tq) - top(Sv1, False, tq)
            d2 = top(Sb, True, tq) - top(Sv2, True, tq)
            rep.coverage["evaporative_cooling_top_1D_vs_2D_K " + name] = [d1, d2]
            if tnmin > tq and d1 > 0.05 and not (0.9 <= d2 / d1 <= 1.1):
                rep.violation("2D evaporative cooling differs from 1D", "%s: %s the top surface is %.3f K colder than without vacuum in 1D but %.3f K in 2D" % (lab, name, d1, d2), dict(pair=lab, d1=d1, d2=d2, when=name))
        rep.case(lab + " weak early vacuum pulse", nontrivial=tnmin > (0.1 + 0.05) * 3600 + 300)


def check(rep, tier):
    rng = random.Random(rep.seed)
    ok, msg = common.proof_stage(rep, "C15", ["theories/model/Sn2DF.vo"])
    rep._c2, rep._l2 = [], []
    rep.rule = ("paired runs in the overlap of two models: (a) Snowing 0D vs an isolated 1x1x1 Snowflake (k_int = k_ext = 0, H_shelf = K A, dt = 0.1 s, direct initial-ice method, nucleation instant "
                "scripted to the 0D one): cooling curve to 1e-9, nucleation state, solidification time to 1 %; (b) 1D vs 2D of equal cross-section, shelf and VISF: radial uniformity of the 2D field, "
                "nucleation times, evaporative cooling of the top surface during the vacuum window; non-trivial = every pair")
    rep.trusted = ["Coq 8.16.1 kernel (theorems on the 0D <-> Snowflake identities)", "harness/c15.py paired-run oracle; tolerances 1e-9 / 1 % / 10 %",
                   "the thermally-thin 1D -> 0D limit: the exact discrete identity of the cooling step is a theorem and is evaluated on the stored 1D states; the asymptotic rate is a thorough tier oracle"]
    hw = {"T_eq": 3.82, "solid_fraction": 0.08, "k_f": 2.05, "M_s": 0.18}
    for K, tt, sol, reuse in ([(50, 5400.0, None, True), (50, 5400.0, hw, False)] if tier == "quick" else
                              [(50, 5400.0, None, False), (50, 5400.0, None, True), (50, 5400.0, hw, False), (100, 4000.0, {"T_eq": -0.5}, True), (20, 9000.0, None, False), (100, 4000.0, hw, True)]):
        try:
            zero_d_vs_snowflake(rep, rng, K, tt, sol, reuse)
        except Exception as e:
            rep.violation("pair-crash %s" % type(e).__name__, "0D vs Snowflake pair raises %r" % e, dict(K=K, t_tot=tt))
    for conf in (["VISF"] if tier == "quick" else ["shelf", "VISF"]):
        try:
            one_d_vs_two_d(rep, rng, conf, tier)
        except Exception as e:
            rep.violation("pair-crash %s" % type(e).__name__, "1D vs 2D %s pair raises %r" % (conf, e), dict(conf=conf))
    import c07
    c07.coq_2d(rep, rep._c2, rep._l2, "c15_2d")
    if not ok:
        rep.violation("proof-broken", "proof obligations of C15 do not check: " + msg, dict(theorem="props/C15.v", log=msg), found_input=False)
