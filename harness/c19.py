"""C19  Configuration layering and derived constants are exact."""
import ast
import contextlib
import copy
import io
import os
import random

import yaml

import common
import impl
import translator
from common import fhex, zlit, coq_list

HEAD = ("From Coq Require Import ZArith List String PrimFloat. Import ListNotations.\nFrom Snow Require Import Topology Layer GenConstants ConfigCheck.\nOpen Scope string_scope.\n"
        "Definition lcases : list (cfg * cfg * option cfg * list string) := %s.\nEval vm_compute in bad_cases layer_case_ok lcases.\n"
        "Definition ccases : list (leaves float * enums * option (list (string * float) * list string)) := %s.\nEval vm_compute in bad_cases consts_case_ok ccases.\n")


def default_cfg():
    return yaml.load(open(os.path.join(common.REPO, "src/ethz_snow/config/snowConfig_default.yaml")), Loader=yaml.FullLoader)


def leaf_paths(d, pre=()):
    for k, v in d.items():
        if isinstance(v, dict):
            yield from leaf_paths(v, pre + (k,))
        else:
            yield pre + (k,)


def get_path(d, p):
    for k in p:
        d = d[k]
    return d


def set_path(d, p, v):
    for k in p[:-1]:
        d = d.setdefault(k, {})
    d[p[-1]] = v


def spell(rng, x):
    """write a number as int, float or exponent string (pyyaml parses some exponent forms as strings)"""
    r = rng.random()
    if r < 0.25 and float(x) == int(float(x)):
        return int(float(x))
    if r < 0.5:
        return float(x)
    if r < 0.75:
        return "%.6e" % float(x)          # e.g. '2.500900e+06' -> pyyaml float
    m = "%e" % float(x)
    return m.replace("e+0", "e").replace("e+", "e").replace("e-0", "e-")   # e.g. '2.5009e6' -> pyyaml string


def gen_custom(rng, dflt, force_shadow=False):
    custom, notes = {}, dict(unknown=[], bad_enum=None, malformed=False)
    lp = list(leaf_paths(dflt))
    for p in rng.sample(lp, rng.choice([0, 1, 2, 3, 5, 8, len(lp)])):
        v = get_path(dflt, p)
        if isinstance(v, str) and not _isnum(v):
            continue
        base = float(v)
        new = base * rng.choice([0.5, 0.9, 1.0, 1.1, 2.0, 0.0]) if base != 0 else rng.choice([0.0, 0.5, -1.0])
        if new == 0 and p[-1] in ("M_s", "rho_l", "cp_w", "cp_s", "height", "length", "width"):
            new = base
        if p == ("solution", "solid_fraction"):
            new = rng.choice([0.01, 0.05, 0.1, 0.3])
        set_path(custom, p, spell(rng, new))
    r = rng.random()
    if r < 0.35:
        for _ in range(rng.choice([1, 2])):
            where = rng.choice([(), ("solution",), ("vial",), ("vial", "geometry"), ("brand_new_section",)])
            key = rng.choice(["bogus", "kb", "radius", "T_init", "speed"]) + str(rng.randint(0, 9))
            set_path(custom, where + (key,), rng.choice([1, 2.5, "text", {"deep": 3}]))
            notes["unknown"].append(key)
    r = rng.random()
    if r < 0.2 or force_shadow:
        # entries that only SHARE THE NAME of a real parameter: inside an unknown section (reported by the section's name), or a valid name in the
        # wrong section (the source acknowledges that this is not reported) - neither may move any derived constant
        names = ["height", "length", "width", "rho_l", "solid_fraction", "cp_w", "k_f", "M_s", "T_eq", "Dh", "lambda_w"]
        for _ in range(rng.choice([1, 2])):
            nm = rng.choice(names)
            val = rng.choice([0.05, 0.2, 1e2, 3.0, 0.5])
            kind = rng.choice(["section", "section", "deep", "misplaced"])
            if kind == "section":
                sec = rng.choice(["lab_notes", "zz_archive", "aaa_old"]) + str(rng.randint(0, 9))
                set_path(custom, (sec, nm), val); notes["unknown"].append(sec)
            elif kind == "deep":
                sec = rng.choice(["zz_archive", "notes"]) + str(rng.randint(0, 9))
                set_path(custom, (sec, "old_values", nm), val); notes["unknown"].append(sec)
            else:
                home = [p_ for p_ in lp if p_[-1] == nm]
                wrong = rng.choice([("solution",), ("vial",), ("vial", "geometry"), ("snowfall_parameters",), ("water",), ("kinetics",)])
                if home and home[0][:-1] != wrong and isinstance(get_path(dflt, wrong), dict) and nm not in get_path(dflt, wrong):
                    set_path(custom, wrong + (nm,), val); notes["misplaced"] = notes.get("misplaced", []) + [".".join(wrong + (nm,))]
    r = rng.random()
    if r < 0.45:
        conf = rng.choice(["shelf", "VISF", "jacket", "jacket", "VISF", "Shelf", "visf", "freezer"])
        dim = rng.choice(["homogeneous", "spatial_1D", "spatial_2D", "spatial_3D", "0D"])
        set_path(custom, ("snowing_parameters", "configuration"), conf)
        set_path(custom, ("snowing_parameters", "dimensionality"), dim)
        if rng.random() < 0.4:
            set_path(custom, ("snowfall_parameters", "vial_arrangement"), rng.choice(["square", "hexagonal", "hex", "triangular"]))
        if rng.random() < 0.3:
            set_path(custom, ("vial", "geometry", "shape"), rng.choice(["cube", "cubic", "cub", "cylinder", "cyl", "sphere"]))
    if rng.random() < 0.04:
        set_path(custom, ("solution", "T_eq"), {"nested": 1})     # a mapping where the default has a value
        notes["malformed"] = True
    return custom, notes


def _isnum(s):
    try:
        float(s); return True
    except (TypeError, ValueError):
        return False


def merge_oracle(d, u):
    d = copy.deepcopy(d)
    for k, v in u.items():
        if isinstance(v, dict):
            sub = d.get(k, {})
            if not isinstance(sub, dict):
                raise TypeError("mapping over value")
            d[k] = merge_oracle(sub, v)
        else:
            d[k] = v
    return d


def all_keys(d):
    out = []
    if isinstance(d, dict):
        for v in d.values():
            out += all_keys(v)
        out += list(d.keys())
    return out


class Ids:
    def __init__(self):
        self.m = {}
    def id(self, v):
        key = repr(v)
        return self.m.setdefault(key, len(self.m))


def coq_tree(d, ids):
    if isinstance(d, dict):
        return "(Node [%s])" % "; ".join('("%s", %s)' % (k, coq_tree(v, ids)) for k, v in d.items())
    return "(Leaf %s)" % zlit(ids.id(d))


def later_rejections():
    """'rejected when the configuration is loaded, never later': no NotImplementedError guarded by an enumeration in the simulators"""
    bad = []
    for fn in ("snowflake.py", "snowing.py", "snowfall.py", "operatingConditions.py"):
        src = open(os.path.join(common.REPO, "src/ethz_snow", fn)).read()
        tree = ast.parse(src)
        parents = {}
        for n in ast.walk(tree):
            for ch in ast.iter_child_nodes(n):
                parents[ch] = n
        for n in ast.walk(tree):
            if isinstance(n, ast.Raise) and isinstance(n.exc, ast.Call) and getattr(n.exc.func, "id", "") == "NotImplementedError":
                p, tests = n, []
                while p in parents:
                    p = parents[p]
                    if isinstance(p, (ast.If, ast.While)):
                        tests.append(ast.get_source_segment(src, p.test) or "")
                if any(w in t for t in tests for w in ("configuration", "dimensionality", "vial_arrangement", '"shape"', "'shape'")):
                    bad.append("%s:%d %s" % (fn, n.lineno, tests[0][:80]))
    return bad


def check(rep, tier):
    rng = random.Random(rep.seed)
    errs = translator.regenerate()
    info = translator.gen_constants() if not errs.get("constants") else None
    ok, msg = common.proof_stage(rep, "C19", ["theories/model/ConfigCheck.vo"])
    if errs.get("constants"):
        ok, msg = False, errs["constants"]
    n = 300 if tier == "quick" else 4000
    rep.rule = ("random partial YAML files (any subset of the default's entries at any depth, numbers spelled as int / float / exponent strings, unknown keys at several depths, "
                "every enumeration incl. unsupported values and combinations, a mapping over a plain value); compared: merged configuration vs the Coq layering model and a deep-merge "
                "oracle, reported unknown keys, calculateDerived vs the binary64 instance of the GENERATED definitions, exported key list, NotImplementedError vs `rejected`; "
                "non-trivial = the file overrides at least one entry used by a derived constant or an enumeration")
    rep.trusted = ["Coq 8.16.1 kernel + vm_compute", "harness/translator.py: " + "; ".join(translator.LOG), "PyYAML parsing and python float()", "leaf values are opaque in the layering model"]
    from ethz_snow import constants as C
    dflt = default_cfg()
    lcases, ccases, meta, lmeta = [], [], [], []
    bad_later = later_rejections()
    if bad_later:
        rep.violation("rejected-later", "an enumeration is (also) rejected after loading: %s" % bad_later, dict(sites=bad_later))
    for i in range(n):
        custom, notes = gen_custom(rng, dflt, force_shadow=(i < 8))      # the first inputs always carry name-shadowing entries
        path = os.path.join(impl.scratch(), "c19_%d.yaml" % i)
        with open(path, "w") as f:
            yaml.safe_dump(custom, f, sort_keys=False)
        reparsed = yaml.load(open(path), Loader=yaml.FullLoader) or {}
        buf = io.StringIO()
        merged = None
        try:
            with contextlib.redirect_stdout(buf):
                merged = C._loadConfig(path)
        except TypeError:
            merged = None
        except Exception as e:
            rep.violation("load-crash %s" % type(e).__name__, "_loadConfig raises %r for %s" % (e, custom), dict(custom=custom)); continue
        if i % 12 == 0 and merged is not None:
            # the same file named in the other forms open() accepts (pathlib.Path, bytes): the same layered configuration
            import pathlib
            for form, pth in (("pathlib.Path", pathlib.Path(path)), ("bytes", path.encode())):
                try:
                    with contextlib.redirect_stdout(io.StringIO()):
                        m2 = C._loadConfig(pth)
                    rep.count("path given as " + form)
                    if m2 != merged:
                        rep.violation("path-form-ignored", "_loadConfig(%s) gives another configuration than _loadConfig(str) for the same file %s" % (form, custom), dict(custom=custom, form=form))
                except Exception as e:
                    rep.violation("path-form-crash", "_loadConfig(%s) raises %r although the str path loads (%s)" % (form, e, custom), dict(custom=custom, form=form))
        rep.case(repr(custom), nontrivial=bool(custom), sample=custom if i < 3 else None)
        rep.count("unknown-keys" if notes["unknown"] else "known-only"); rep.count("malformed" if notes["malformed"] else "wellformed")
        # ---- oracle: layering ---------------------------------------------------------------------------
        try:
            want = merge_oracle(dflt, reparsed)
        except TypeError:
            want = None
        if (merged is None) != (want is None) or (want is not None and merged != want):
            rep.violation("layering", "merged configuration differs from 'override exactly the named entries' for custom file %s" % custom, dict(custom=custom)); continue
        unk = sorted(set(all_keys(reparsed)) - set(all_keys(dflt)))
        printed = buf.getvalue()
        if merged is not None and bool(unk) != ("WARNING" in printed) or any(k not in printed for k in unk if merged is not None):
            rep.violation("unknown-keys-report", "unknown keys %s not (correctly) reported: %r" % (unk, printed[:200]), dict(custom=custom, unknown=unk))
        ids = Ids()
        lcases.append("(%s, %s, %s, %s)" % (coq_tree(dflt, ids), coq_tree(reparsed, ids), "None" if merged is None else "(Some %s)" % coq_tree(merged, ids),
                                          coq_list('"%s"' % k for k in unk)))
        lmeta.append(custom)
        if merged is None:
            continue
        # ---- derived constants ----------------------------------------------------------------------------
        res = None
        try:
            with contextlib.redirect_stdout(io.StringIO()):
                res = C.calculateDerived(path)
        except NotImplementedError:
            res = None
        except Exception as e:
            rep.violation("derive-crash %s" % type(e).__name__, "calculateDerived raises %r for %s" % (e, custom), dict(custom=custom)); continue
        rep.count("rejected" if res is None else "accepted")
        if res is not None:
            g = lambda *pth: float(get_path(merged, pth))
            ws = res["solid_fraction"]
            rel = {
                "A = length*width": (res["A"], g("vial", "geometry", "length") * g("vial", "geometry", "width")),
                "V = A*height": (res["V"], res["A"] * res["height"]),
                "mass = rho_l*V": (res["mass"], res["rho_l"] * res["V"]),
                "mass_solute + mass_water = mass": (res["mass_solute"] + res["mass_water"], res["mass"]),
                "mass_solute = mass*w_s": (res["mass_solute"], res["mass"] * ws),
                "cp_solution": (res["cp_solution"], ws * res["cp_s"] + (1 - ws) * res["cp_w"]),
                "hl = mass*cp_solution": (res["hl"], res["mass"] * res["cp_solution"]),
                "T_eq_l = T_eq - k_f/M_s*w_s/(1-w_s)": (res["T_eq_l"], res["T_eq"] - res["k_f"] / res["M_s"] * ws / (1 - ws)),
                "depression": (res["depression"], res["k_f"] / res["M_s"] * ws / (1 - ws)),
                "alpha = -mass*Dh*(1-w_s)": (res["alpha"], -res["mass"] * res["Dh"] * (1 - ws)),
                "beta_solution = depression*mass*cp_solution": (res["beta_solution"], res["depression"] * res["mass"] * res["cp_solution"]),
                "height/diameter/T_eq copied": (res["height"] + res["diameter"] + res["T_eq"], g("vial", "geometry", "height") + g("vial", "geometry", "diameter") + g("solution", "T_eq")),
            }
            if "lambda_solution" in res:
                rel["lambda_solution"] = (res["lambda_solution"], ws * res["lambda_s"] + (1 - ws) * res["lambda_w"])
            for name, (a, b) in rel.items():
                if abs(a - b) > 1e-9 * (abs(a) + abs(b)) + 1e-300:
                    rep.violation("relation " + name.split(" ")[0], "derived constants violate %s: %r vs %r for custom file %s" % (name, a, b, custom), dict(custom=custom, relation=name))
                    break
        conf, dim = str(get_path(merged, ("snowing_parameters", "configuration"))), str(get_path(merged, ("snowing_parameters", "dimensionality")))
        arrg, shp = str(get_path(merged, ("snowfall_parameters", "vial_arrangement"))), str(get_path(merged, ("vial", "geometry", "shape")))
        supported = (conf in ("shelf", "VISF", "jacket") and arrg in ("hexagonal", "square") and dim in ("homogeneous", "spatial_1D", "spatial_2D") and shp.startswith("cub")
                     and not (conf == "VISF" and dim == "homogeneous") and not (conf == "jacket" and dim != "spatial_2D"))
        if supported != (res is not None):
            rep.violation("acceptance", "configuration=%r dimensionality=%r arrangement=%r shape=%r is %s at load time" % (conf, dim, arrg, shp, "accepted" if res is not None else "rejected"),
                          dict(custom=custom))
        # unknown keys have no effect
        def foreign(dd, ref):
            return any(k not in ref or (isinstance(dd[k], dict) and isinstance(ref[k], dict) and foreign(dd[k], ref[k])) for k in dd)
        if (unk or foreign(reparsed, dflt)) and res is not None:
            rep.count("entries outside the default schema (unknown names or valid names in the wrong place): effect on derived constants judged")
            clean = copy.deepcopy(reparsed)
            def strip(dd, ref):
                for k in list(dd):
                    if k not in ref:
                        del dd[k]
                    elif isinstance(dd[k], dict) and isinstance(ref[k], dict):
                        strip(dd[k], ref[k])
            strip(clean, dflt)
            p2 = path + ".clean.yaml"
            yaml.safe_dump(clean, open(p2, "w"), sort_keys=False)
            with contextlib.redirect_stdout(io.StringIO()):
                res2 = C.calculateDerived(p2)
            if res2 != res:
                rep.violation("unknown-keys-effect", "entries outside the default schema (unknown keys %s, misplaced %s) change derived constants: %s" % (unk, notes.get("misplaced", []), sorted(k for k in res if k not in res2 or res2[k] != res[k])[:6]), dict(custom=custom))
        try:
            lv = "(MkLeaves float %s)" % " ".join(fhex(float(get_path(merged, p))) for p in info["leaves"])
        except (TypeError, ValueError) as e:
            continue
        en = "(MkEnums %s)" % " ".join('"%s"' % str(get_path(merged, p)) for p in info["enum_paths"])
        if res is None:
            im = "None"
        else:
            nums = [(k, v) for k, v in res.items() if isinstance(v, float) or (isinstance(v, int) and not isinstance(v, bool))]
            im = "(Some (%s, %s))" % (coq_list('("%s", %s)' % (k, fhex(v)) for k, v in nums), coq_list('"%s"' % k for k in res.keys()))
        ccases.append("(%s, %s, %s)" % (lv, en, im)); meta.append(custom)
    for ci in range(0, max(len(lcases), len(ccases)), 100):
        rc, out = common.coq_eval("c19_%d" % ci, HEAD % (coq_list(lcases[ci:ci + 100]), coq_list(ccases[ci:ci + 100])), timeout=900)
        blocks = common.eval_blocks(out)
        if rc != 0 or len(blocks) != 2:
            rep.violation("correspondence-run", "Coq evaluation failed: " + out[-500:], dict(log=out[-2000:]), found_input=False); continue
        for b in common.parse_nat_list(blocks[0]):
            rep.violation("model-vs-impl layering", "correspondence model/Layer.v <-> _nestedDictUpdate no longer checks for custom file %s" % lmeta[ci + b], dict(correspondence="model/Layer.v", custom=lmeta[ci + b]), found_input=False)
        for b in common.parse_nat_list(blocks[1]):
            rep.violation("model-vs-impl constants", "generated constants / rejection / exported keys differ from calculateDerived for custom file %s" % meta[ci + b],
                          dict(correspondence="gen/GenConstants.v (binary64) vs calculateDerived", custom=meta[ci + b]), found_input=False)
    rep.coverage["traces_validated_against_impl"] = len(lcases) + len(ccases)
    if not ok:
        rep.violation("proof-broken", "proof obligations of C19 do not check against the current constants.py: " + msg, dict(theorem="props/C19.v", log=msg), found_input=False)
