"""C12  Reported statistics and counters agree with the trajectories."""
import random

import numpy as np

import common
import impl
import c01
import c09
import flake_runs as fr
from common import coq_list

HEAD = ("From Coq Require Import ZArith List PrimFloat. Import ListNotations.\nFrom Snow Require Import Topology Flake FlakeF.\n"
        "Definition runs := %s.\nEval vm_compute in bad_cases flake_run_ok runs.\n")


def nan_eq(a, b, tol=1e-9):
    a, b = np.asarray(a, float), np.asarray(b, float)
    return ((np.isnan(a) & np.isnan(b)) | (np.abs(a - b) <= tol * (1 + np.abs(b)))).all() if a.shape == b.shape else False


def oracle(rep, cfg, r, rng):
    S, N, n, dt = r["S"], r["N"], r["nsteps"], r["S"].dt
    st, XS, XT = r["stats"], r["XS"], r["XT"]
    thr = S.solidificationThreshold
    G = c09.geometric(cfg["arr"], *cfg["shape"])
    dec = fr.decisions(r)
    tgrid = np.arange(n) * dt
    inside = 0
    for i in range(N):
        sig = XS[i]
        tn, Tn, ts = st["t_nucleation"][i], st["T_nucleation"][i], st["t_solidification"][i]
        iced = np.nonzero(sig != 0)[0]
        # once iced stays iced / the hypotheses of the theorem
        if len(iced) and not (sig[iced[0]:] != 0).all():
            rep.count("outside-theorem-hypothesis(remelt)")
        else:
            inside += 1
        if np.isnan(tn):
            if len(iced):
                rep.violation("tnuc-missing", "%s vial %d has ice from column %d but no nucleation time" % (cfg["shape"], i, iced[0]), dict(config=cfg, vial=i))
            if not np.isnan(ts):
                rep.violation("tsol-without-tnuc", "%s vial %d has a solidification time but no nucleation time" % (cfg["shape"], i), dict(config=cfg, vial=i))
            continue
        kf = tn / dt
        if abs(kf - round(kf)) > 1e-6 or tn < dt - 1e-9:
            rep.violation("tnuc-off-grid", "%s vial %d nucleation time %r is not on the grid (dt=%r)" % (cfg["shape"], i, tn, dt), dict(config=cfg, vial=i))
            continue
        j1 = int(round(kf))          # first column with ice
        if j1 > n - 1:
            rep.violation("last-step-nucleation", "%s vial %d nucleates in the last step: t_nucleation=%r lies beyond the grid end %r and is never stored"
                          % (cfg["shape"], i, tn, tgrid[-1]), dict(config=cfg, vial=i, t_nucleation=float(tn)))
            continue
        if not (len(iced) and iced[0] == j1):
            rep.violation("tnuc-vs-trajectory", "%s vial %d: reported t_nucleation %r (column %d) but ice first appears in column %s" % (
                cfg["shape"], i, tn, j1, iced[0] if len(iced) else None), dict(config=cfg, vial=i))
            continue
        # supercooled temperature reached in step j1-1
        T2, s2, q = c01.numpy_step(S, G, r["hshelf"], r["shelf"][j1 - 1], XT[:, j1 - 1], XS[:, j1 - 1], np.zeros(N, bool))
        if abs(T2[i] - Tn) > 1e-9 * (1 + abs(Tn)) or not Tn < S.const["T_eq_l"]:
            rep.violation("Tnuc-vs-trajectory", "%s vial %d: reported T_nucleation %r, supercooled temperature of that step is %r (T_eq_l %r)" % (
                cfg["shape"], i, Tn, T2[i], S.const["T_eq_l"]), dict(config=cfg, vial=i))
        over = np.nonzero(sig > thr)[0]
        if np.isnan(ts):
            if len(over):
                rep.violation("tsol-missing", "%s vial %d exceeds the threshold in column %d but has no solidification time" % (cfg["shape"], i, over[0]), dict(config=cfg, vial=i))
        else:
            if ts < 0 or not len(over) or abs(tgrid[over[0]] - tn - ts) > 1e-9 * (1 + ts):
                rep.violation("tsol-vs-trajectory", "%s vial %d: t_solidification %r but threshold first exceeded at t=%s, t_nuc=%r" % (
                    cfg["shape"], i, ts, tgrid[over[0]] if len(over) else None, tn), dict(config=cfg, vial=i))
    return inside


def accessors(rep, cfg, r, rng):
    """values derived from stored states equal the recorded ones; counters count the trajectory"""
    S, N, n, dt = r["S"], r["N"], r["nsteps"], r["S"].dt
    st, XS = r["stats"], r["XS"]
    thr = S.solidificationThreshold
    if (XS < 0).any() or (XS >= 1).any():
        # a trajectory that leaves the admissible range (ice fraction below 0 or above 1: a configuration outside the stability range, C06): "has
        # ice" then means different things for the recorded statistics (nucleated at some time) and for the stored states (sigma > 0); the
        # accessor clauses are stated for admissible trajectories only
        rep.count("accessor clauses skipped: ice fraction leaves [0,1)")
        return
    mask = np.asarray(S._storageMask, bool)
    late = np.nan_to_num(st["t_nucleation"], nan=0) > (n - 1) * dt + 1e-9
    exp_tn = np.where(mask & ~late, st["t_nucleation"], np.nan)
    with impl.quiet():
        tn_s = S.nucleationTimes(fromStates=True)
        ts_s = S.solidificationTimes(fromStates=True)
        Tn_s = S.nucleationTemperatures(fromStates=True)
    if not nan_eq(tn_s, exp_tn):
        rep.violation("tnuc-fromStates", "%s: nucleationTimes(fromStates=True) differs from the recorded times for stored vials" % (cfg["shape"],), dict(config=cfg, fromStates=tn_s.tolist(), recorded=exp_tn.tolist()))
    exp_ts = np.where(mask & ~late, st["t_solidification"], np.nan)
    if not nan_eq(ts_s, exp_ts):
        rep.violation("tsol-fromStates", "%s: solidificationTimes(fromStates=True) differs from the recorded ones" % (cfg["shape"],), dict(config=cfg))
    exp_Tn = np.where(mask & ~late, st["T_nucleation"], np.nan)
    if not nan_eq(Tn_s, exp_Tn):
        # the known finding is precisely: the STORED temperature of the column before the first ice column (the state at the start of the
        # nucleating step) is returned; anything else is a different defect
        XTs = r["XT"][np.nonzero(mask)[0]] if r["XT"].shape[0] == N else r["XT"]
        XSs = XS[np.nonzero(mask)[0]] if XS.shape[0] == N else XS
        pre = np.full(N, np.nan)
        for row, v in enumerate(np.nonzero(mask)[0]):
            ice = np.nonzero(XSs[row] != 0)[0]
            if len(ice) and ice[0] > 0:
                pre[v] = XTs[row][ice[0] - 1]
        rep.violation("Tnuc-fromStates pre-step" if nan_eq(Tn_s, pre) else "Tnuc-fromStates", "%s: nucleationTemperatures(fromStates=True) returns the stored temperature one column before nucleation (e.g. %r) "
                      "instead of the recorded supercooled temperature (%r)" % (cfg["shape"], Tn_s[~np.isnan(Tn_s)][:1].tolist(), exp_Tn[~np.isnan(exp_Tn)][:1].tolist()),
                      dict(config=cfg))
    # counters at grid times
    if mask.all():
        tt = [float(rng.randrange(n) * dt) for _ in range(6)]
        # a list of query times in arbitrary order gives, per entry, the count of the trajectory at that time
        want0 = [int(np.sum(XS[:, int(round(t / dt))] != 0)) for t in tt]
        want1 = [int(np.sum(XS[:, int(round(t / dt))] > thr)) for t in tt]
        with impl.quiet():
            got0 = [int(x) for x in S.sigmaCounter(list(tt), threshold=0, fromStates=True)]
            got1 = [int(x) for x in S.sigmaCounter(list(tt), fromStates=True)]
            got0s = [int(x) for x in S.sigmaCounter(list(tt), threshold=0)]
        if got0 != want0 or got1 != want1 or got0s != want0:
            rep.violation("counter-list-of-times", "%s: sigmaCounter(%s) = %s / %s / %s, trajectory has %s nucleated and %s solidified" % (
                cfg["shape"], tt, got0, got1, got0s, want0, want1), dict(config=cfg, times=tt))
        for t in tt:
            k = int(round(t / dt))
            nuc_traj = int(np.sum(XS[:, k] != 0)); sol_traj = int(np.sum(XS[:, k] > thr))
            with impl.quiet():
                cs0 = S.sigmaCounter(t, threshold=0, fromStates=True)[0]; cs1 = S.sigmaCounter(t, fromStates=True)[0]
                c0 = S.sigmaCounter(t, threshold=0)[0]; c1 = S.sigmaCounter(t)[0]
            if cs0 != nuc_traj or cs1 != sol_traj:
                rep.violation("counter-fromStates", "%s: sigmaCounter(%r, fromStates=True) = (%r nucleated, %r solidified), trajectory has (%d, %d)" % (
                    cfg["shape"], t, cs0, cs1, nuc_traj, sol_traj), dict(config=cfg, time=t))
            if c0 != nuc_traj:
                rep.violation("counter-stats-nucleated", "%s: sigmaCounter(%r, threshold=0) = %r, trajectory has %d nucleated vials" % (cfg["shape"], t, c0, nuc_traj), dict(config=cfg, time=t))
            if c1 != sol_traj:
                # the known finding is precisely: the count of vials whose DURATION t_solidification is <= the clock time t
                known_wrong = int(np.sum(np.nan_to_num(st["t_solidification"], nan=np.inf) <= t + 1e-9))
                rep.violation("sigmaCounter stats threshold>0" if int(c1) == known_wrong else "counter-stats-solidified", "%s: sigmaCounter(%r) (fromStates=False, solidification threshold) = %r but %d vials are solidified at that "
                              "time in the trajectory: the duration t_solidification is compared with clock time" % (cfg["shape"], t, c1, sol_traj), dict(config=cfg, time=t))


def check(rep, tier):
    rng = random.Random(rep.seed)
    ok, msg = common.proof_stage(rep, "C12", ["theories/model/FlakeF.vo"])
    nruns = 36 if tier == "quick" else 360
    rep.rule = ("random Snowflake runs as in C01 with storeStates='all' or a recorded subset and random thresholds; per run every vial's "
                "(t_nuc, T_nuc, t_sol) is compared with its trajectory, the fromStates accessors with the recorded values, the counters with "
                "the trajectory at random grid times; whole-run statistics are reproduced by the binary64 Coq run; distinct = runs; "
                "non-trivial = at least one vial nucleated")
    rep.trusted = ["Coq 8.16.1 kernel + vm_compute", "binary64 instance of model/Flake.v run_from", "harness/c12.py oracle", "numpy argmax / boolean masking"]
    runs = []
    inside_tot = 0
    # corpus: a vial forced (scripted dice) to nucleate in the very last step
    cfgL = dict(arr="square", shape=(2, 2, 1), k={"int": 20, "ext": 20, "s0": 20, "s_sigma_rel": 0}, dt=10.0, T_init=None, over={}, initIce="indirect",
                seed=1, seed_v=2, prog=dict(start=0, end=-3, rate=0.05, holds=[], t_tot=3000.0, dt=10.0), cnTemp=None, thr=0.9)
    nL = int(np.ceil(3000.0 / 10.0)) + 1
    rL = fr.run(cfgL, script=lambda call, m: np.zeros(m) if call >= nL - 1 else np.full(m, 0.999999999))
    rep.case("corpus-last-step", nontrivial=True)
    oracle(rep, cfgL, rL, rng)
    # corpus: a process that ends while a vial is in the middle of its solidification, the threshold placed between the vial's last two stored
    # ice fractions: the threshold is first exceeded AT the last grid point, and the statistics must say so
    for seedE, shapeE, dtE, ttE in [(7, (3, 3, 1), 5.0, 6000.0), (7, (4, 2, 1), 2.0, 5000.0)]:
        cfgE = dict(arr="square", shape=shapeE, k={"int": 20, "ext": 20, "s0": 20, "s_sigma_rel": 0.1}, dt=dtE, T_init=None, over={}, initIce="indirect",
                    seed=seedE, seed_v=2024, prog=dict(start=20, end=-50, rate=0.5 / 60, holds=[], t_tot=ttE, dt=dtE), cnTemp=None, thr=0.9)
        rE = fr.run(cfgE, storeStates="all")
        sgE = rE["XS"]
        grow = np.nonzero((sgE[:, -2] > 0) & (sgE[:, -1] > sgE[:, -2]) & (sgE[:, -1] < 0.999))[0]
        rep.count("corpus-threshold-at-last-point: vials still growing at the end", len(grow))
        if len(grow):
            vE = int(grow[0])
            cfgE2 = dict(cfgE, thr=float(0.5 * (sgE[vE, -2] + sgE[vE, -1])))
            rE2 = fr.run(cfgE2, storeStates="all")
            rep.case("corpus-threshold-first-exceeded-at-the-last-grid-point " + repr(shapeE), nontrivial=True)
            oracle(rep, cfgE2, rE2, rng); accessors(rep, cfgE2, rE2, rng)
    # corpus: strongly coupled vials (k_int >> k_shelf): a late-nucleating neighbour re-melts part of an almost frozen vial, whose ice
    # fraction falls back below the threshold and crosses it a second time -- the reported time is the FIRST crossing
    strong = []
    for shape, seed in ([((2, 1, 1), 0), ((3, 1, 1), 1)] if tier == "quick" else [((2, 1, 1), 0), ((3, 1, 1), 1), ((2, 2, 1), 2), ((2, 1, 1), 3), ((4, 1, 1), 4)]):
        strong.append(dict(arr="square", shape=shape, k={"int": 300, "ext": 0, "s0": 10, "s_sigma_rel": 0}, dt=2.0, T_init=None, over={}, initIce="indirect",
                           seed=seed, seed_v=rng.randint(0, 10 ** 6) if seed else 2024, prog=dict(start=5, end=-45, rate=0.5 / 60, holds=[], t_tot=12000.0, dt=2.0), cnTemp=None, thr=0.9))
    for ri in range(nruns + len(strong)):
        cfg = strong[ri - nruns] if ri >= nruns else fr.gen_config(rng, max_vials=30 if tier == "quick" else 100, max_steps=700, cn=(ri % 4 == 1))
        Nv = cfg["shape"][0] * cfg["shape"][1] * cfg["shape"][2]
        store = "all" if ri % 3 else rng.choice(["edge", "corner", "uniform_3", [0], "all", (Nv - 1, 0, Nv // 2), [Nv // 2, 0, Nv // 2, Nv - 1]])
        if store != "all" and cfg["shape"][0] * cfg["shape"][1] < 4:
            store = "all"
        try:
            r_all = fr.run(cfg, storeStates="all")
            r = r_all if store == "all" else fr.run(cfg, storeStates=store)
        except Exception as e:
            rep.violation("crash %s" % type(e).__name__, "Snowflake.run raises %r for %s" % (e, cfg), dict(config=cfg, error=repr(e)))
            continue
        nn = int(np.sum(~np.isnan(r_all["stats"]["t_nucleation"])))
        rep.case(repr(cfg), nontrivial=nn > 0, sample=dict(shape=cfg["shape"], arr=cfg["arr"], dt=cfg["dt"], thr=cfg["thr"], nucleated=nn, store=str(store)) if ri < 4 else None)
        rep.count("store=%s" % ("all" if store == "all" else "subset")); rep.count("nucleated-vials", nn)
        ab = r_all["XS"] > cfg["thr"]
        rep.count("vials-crossing-the-threshold-more-than-once", int(((ab[:, 1:] & ~ab[:, :-1]).sum(axis=1) > 1).sum()))
        inside_tot += oracle(rep, cfg, r_all, rng)
        accessors(rep, cfg, r, rng)
        if ri >= nruns:
            # the same process stopped while a vial that had already exceeded the threshold is temporarily below it again: its recorded
            # solidification time stands, and the state-derived one agrees
            ab_ = r_all["XS"] > cfg["thr"]
            kmid = None
            for v in range(ab_.shape[0]):
                if ab_[v].any():
                    a0 = int(np.argmax(ab_[v]))
                    below = np.nonzero(~ab_[v][a0:])[0]
                    if len(below):
                        b0 = a0 + int(below[0]); b1 = b0
                        while b1 + 1 < ab_.shape[1] and not ab_[v][b1 + 1]:
                            b1 += 1
                        kmid = (b0 + b1) // 2; break
            if kmid is not None and kmid > 2:
                cfgD = dict(cfg, prog=dict(cfg["prog"], t_tot=float(kmid * cfg["dt"])))
                try:
                    rD = fr.run(cfgD, storeStates="all")
                    rep.case("stopped-in-the-dip " + repr(cfgD["shape"]), nontrivial=True); rep.count("process stopped while a vial is back below the threshold")
                    nvD = len(rep.violations)
                    oracle(rep, cfgD, rD, rng); accessors(rep, cfgD, rD, rng)
                    for v_ in rep.violations[nvD:]:
                        v_["key"] = "stopped-in-dip " + v_["key"]; v_["what"] = "process stopped at t=%g s while a vial is back below the threshold: " % cfgD["prog"]["t_tot"] + v_["what"]
                except Exception as e:
                    rep.violation("crash %s" % type(e).__name__, "Snowflake.run raises %r for %s" % (e, cfgD), dict(config=cfgD, error=repr(e)))
        if ri % 4 == 0:
            # the same object run again (other seed): statistics and state-derived values are those of the NEW trajectory
            S2 = r["S"]
            with impl.quiet():
                S2.seed = cfg["seed"] + 17
                with fr.patched_rng(fr.CountingRng):
                    S2.run()
            r2 = dict(r, XT=np.array(S2.X_T), XS=np.array(S2.X_sigma), stats={k: np.array(v) for k, v in S2.stats.items()},
                      hshelf=np.broadcast_to(np.asarray(S2.H_shelf, dtype=float), (r["N"],)).copy())
            nv = len(rep.violations)
            if store == "all":
                oracle(rep, cfg, r2, rng)
            accessors(rep, cfg, r2, rng)
            for v in rep.violations[nv:]:
                v["key"] = "rerun " + v["key"]; v["what"] = "after a second run() on the same object: " + v["what"]
        if r_all["nsteps"] * r_all["N"] <= 9000 and len(runs) < (14 if tier == "quick" else 80):
            import c06
            if c06.hypotheses(cfg, r_all)["stability"] and np.abs(r_all["XS"]).max() < 1:      # whole-run replay only inside the stability range
                runs.append((cfg, fr.coq_run_case(r_all)))
    rep.coverage["vials_inside_theorem_hypotheses"] = inside_tot
    rc, out = common.coq_eval("c12_0", HEAD % coq_list(c for _, c in runs), timeout=1500)
    blocks = common.eval_blocks(out)
    if rc != 0 or len(blocks) != 1:
        rep.violation("correspondence-run", "Coq evaluation of the run model failed: " + out[-500:], dict(log=out[-2000:]), found_input=False)
    else:
        bad = common.parse_nat_list(blocks[0])
        rep.coverage["traces_validated_against_impl"] = len(runs) - len(bad)
        flagged = [v["replay"].get("config") for v in rep.violations]
        for b in bad:
            if runs[b][0] not in flagged:
                rep.violation("model-vs-impl run", "correspondence model/Flake.v run statistics <-> Snowflake.run no longer checks on %s" % runs[b][0],
                              dict(correspondence="model/Flake.v run_from statistics", config=runs[b][0]), found_input=False)
    if not ok:
        rep.violation("proof-broken", "proof obligations of C12 do not check: " + msg, dict(theorem="props/C12.v", log=msg), found_input=False)
