"""C06  Shelf-scale trajectories stay thermodynamically admissible."""
import random

import numpy as np

import common
import impl
import c09
import flake_runs as fr
from common import coq_list

HEAD = ("From Coq Require Import ZArith List PrimFloat. Import ListNotations.\nFrom Snow Require Import Topology Flake FlakeF.\n"
        "Definition cases := %s.\nEval vm_compute in bad_cases flake_case_ok cases.\n")


def hypotheses(cfg, r):
    """Evaluate the hypotheses of C06_run_admissible_partial on this configuration."""
    S, c = r["S"], r["S"].const
    G = c09.geometric(cfg["arr"], *cfg["shape"])
    deg = G.sum(axis=1)
    maxI = (4 if cfg["arr"] == "square" else 6) + (2 if cfg["shape"][2] > 1 else 0)
    A = c["A"]
    H = deg * S.k["int"] * A + (maxI - deg) * S.k["ext"] * A + r["hshelf"]
    lam = H * S.dt / c["hl"]
    shelf = r["shelf"][: r["nsteps"]]
    Tmin = shelf.min()
    cp_min = min(c["solid_fraction"] * c["cp_s"] + (1 - c["solid_fraction"]) * cp for cp in (c["cp_i"], c["cp_w"]))
    stepc = (H * S.dt * (c["T_eq"] - Tmin)) ** 2 <= 4 * (-c["alpha"]) * c["depression"] * c["mass"] * cp_min
    gamma = c["Dh"] * (1 - c["solid_fraction"]) / c["cp_solution"]
    out = dict(stability=bool((lam <= 1).all()), step_condition=bool(stepc.all()), start_not_colder=bool(S.T_k_0 >= shelf[0]),
               shelf_non_increasing=bool((np.diff(shelf) <= 1e-12).all()),
               jump_range=bool(c["T_eq_l"] - Tmin < gamma) and c["depression"] > 0, hshelf_nonneg=bool((r["hshelf"] >= 0).all()),
               max_lam=float(lam.max()))
    out["inside"] = all(v for k, v in out.items() if k != "max_lam")
    return out


def oracle(rep, cfg, r, hyp):
    S, c, n = r["S"], r["S"].const, r["nsteps"]
    XT, XS = r["XT"], r["XS"]
    shelf = r["shelf"][:n]
    what = dict(shape=cfg["shape"], arr=cfg["arr"], dt=cfg["dt"], k=cfg["k"], initIce=cfg["initIce"])
    if not (np.isfinite(XT).all() and np.isfinite(XS).all() and all(np.isfinite(v[~np.isnan(v)]).all() for v in r["stats"].values())):
        rep.violation("non-finite", "non-finite values in the trajectory of %s" % what, dict(config=cfg)); return
    if (XS < 0).any() or (XS >= 1).any():
        i, k = np.argwhere((XS < 0) | (XS >= 1))[0]
        rep.violation("sigma-range", "vial %d column %d has ice fraction %r outside [0,1) (%s)" % (i, k, XS[i, k], what), dict(config=cfg, vial=int(i), column=int(k))); return
    iced = XS != 0
    curve = c["T_eq"] - c["depression"] / (1 - XS)
    off = iced & (np.abs(XT - curve) > 1e-9 * (1 + np.abs(curve)))
    if off.any():
        i, k = np.argwhere(off)[0]
        rep.violation("off-curve", "iced vial %d column %d: T=%r but the depression curve gives %r (%s)" % (i, k, XT[i, k], curve[i, k], what), dict(config=cfg, vial=int(i), column=int(k))); return
    if (iced & (XT > c["T_eq_l"] + 1e-9)).any():
        i, k = np.argwhere(iced & (XT > c["T_eq_l"] + 1e-9))[0]
        rep.violation("iced-above-Teql", "iced vial %d column %d is at %r > T_eq_l=%r (%s)" % (i, k, XT[i, k], c["T_eq_l"], what), dict(config=cfg)); return
    # ice exactly from the recorded nucleation onwards
    tn = r["stats"]["t_nucleation"]
    for i in range(r["N"]):
        first = np.nonzero(iced[i])[0]
        if len(first) and not iced[i, first[0]:].all():
            rep.violation("ice-disappears", "vial %d contains ice in column %d but not in a later column (%s)" % (i, first[0], what), dict(config=cfg, vial=i)); return
        want = None if np.isnan(tn[i]) or tn[i] > (n - 1) * S.dt + 1e-9 else int(round(tn[i] / S.dt))
        if (first[0] if len(first) else None) != want:
            rep.violation("ice-vs-nucleation", "vial %d: ice first in column %s, recorded nucleation column %s (%s)" % (i, first[0] if len(first) else None, want, what), dict(config=cfg, vial=i)); return
    hi = max(S.T_k_0, shelf[0], c["T_eq_l"])
    if (XT > hi + 1e-9).any():
        i, k = np.argwhere(XT > hi + 1e-9)[0]
        rep.violation("too-warm", "vial %d column %d is at %r, warmer than max(T_init, initial shelf, T_eq_l)=%r (%s)" % (i, k, XT[i, k], hi, what), dict(config=cfg, vial=int(i), column=int(k))); return
    lo = np.concatenate([[min(S.T_k_0, shelf[0])], np.minimum.accumulate(shelf)[:-1]])
    cold = XT < lo[None, :] - 1e-9
    if cold.any():
        i, k = np.argwhere(cold)[0]
        rep.violation("too-cold", "vial %d column %d is at %r, colder than the coldest shelf temperature applied so far %r (%s)" % (i, k, XT[i, k], lo[k], what), dict(config=cfg, vial=int(i), column=int(k))); return


def check(rep, tier):
    rng = random.Random(rep.seed)
    ok, msg = common.proof_stage(rep, "C06", ["theories/model/FlakeF.vo"])
    nruns = 50 if tier == "quick" else 500
    rep.rule = ("random Snowflake runs (as C01, incl. controlled nucleation) whose configuration is first tested against the hypotheses of the run theorem (stability number <= 1, "
                "solidification step condition, start not colder than shelf, non-increasing shelf, supercooling range of the jump); runs inside the range are "
                "judged by the direct bounds oracle on X_T / X_sigma / stats, runs outside are only counted; the step model itself is tied to the code as in C01 "
                "(sampled one-step float correspondence); non-trivial = a run inside the range with nucleated vials")
    rep.trusted = ["Coq 8.16.1 kernel + vm_compute", "binary64 instance of model/Flake.v", "harness/c06.py (hypothesis evaluation and bounds oracle)"]
    rep.assumptions = ["run theorem is PARTIAL: 'an iced vial's ice fraction stays positive' is observed on each trajectory (oracle clause sigma-range / ice-disappears), not derived"]
    inside = outside = 0
    steps = []
    # fixed corpus (independent of the seed): 'direct' initial-ice formulation, concentrated solution (depression 1.35 K), controlled nucleation at a
    # hold just below T_eq_l: the vials nucleate at a supercooling SMALLER than the freezing-point depression
    fixed = [dict(arr="square", shape=(3, 3, 1), k={"int": 20, "ext": 20, "s0": 20, "s_sigma_rel": 0}, dt=10.0, T_init=None,
                  over={"solution": {"solid_fraction": 0.2}, "snowfall_parameters": {"vial_arrangement": "square"}}, initIce="direct", seed=11, seed_v=12,
                  prog=dict(start=5, end=-40, rate=0.5 / 60, holds=[{"duration": 1800, "temp": -2.5}], t_tot=9000.0, dt=10.0), cnTemp=-2.5, thr=0.9),
             dict(arr="hexagonal", shape=(2, 3, 2), k={"int": 20, "ext": 5, "s0": 50, "s_sigma_rel": 0}, dt=10.0, T_init=None,
                  over={"solution": {"solid_fraction": 0.1}, "snowfall_parameters": {"vial_arrangement": "hexagonal"}}, initIce="direct", seed=3, seed_v=4,
                  prog=dict(start=5, end=-40, rate=0.5 / 60, holds=[{"duration": 2400, "temp": -1.5}], t_tot=9000.0, dt=10.0), cnTemp=-1.5, thr=0.9)]
    for ri in range(nruns + len(fixed)):
        cfg = fixed[ri - nruns] if ri >= nruns else fr.gen_config(rng, max_vials=30 if tier == "quick" else 120, max_steps=700, cn=(ri % 4 == 3))
        if ri >= nruns:
            rep.count("fixed corpus: direct formulation at small supercooling")
        if ri % 10 == 1 and cfg["shape"][2] == 1:
            cfg["k"] = dict(cfg["k"], s_sigma_rel=1.0)      # large shelf variability: some draws are negative and must be clipped to 0
        try:
            r = fr.run(cfg)
        except Exception as e:
            rep.violation("crash %s" % type(e).__name__, "Snowflake.run raises %r for %s" % (e, cfg), dict(config=cfg, error=repr(e)))
            continue
        if ri % 7 == 2 and r["N"] >= 3:
            # a recording request given as integers that are NOT in ascending order: the stored trajectories are those of the requested vials
            # (rows in ascending vial order), bit for bit the rows of the full recording
            req = (r["N"] - 1, 0, r["N"] // 2)
            try:
                rs = fr.run(cfg, storeStates=req)
                idx = sorted(set(req))
                rep.count("non-ascending-recording-request")
                if rs["XT"].shape[0] != len(idx) or not (np.array_equal(rs["XT"], r["XT"][idx], equal_nan=True) and np.array_equal(rs["XS"], r["XS"][idx], equal_nan=True)):
                    rep.violation("recorded-rows-mislabelled", "storeStates=%r on %s: the stored rows are not the trajectories of vials %s (ice would be reported before / after the recorded nucleation of the vial the row is attributed to)"
                                  % (req, cfg["shape"], idx), dict(config=cfg, storeStates=req))
            except Exception as e:
                rep.violation("crash %s" % type(e).__name__, "Snowflake.run with storeStates=%r raises %r" % (req, e), dict(config=cfg, storeStates=req))
        hyp = hypotheses(cfg, r)
        if not hyp["hshelf_nonneg"]:
            # not a property of the configuration: the package clips negative random shelf coefficients to 0 (heat must flow from warm to cold)
            i = int(np.argmin(r["hshelf"]))
            rep.violation("negative-shelf-coefficient", "vial %d exchanges heat with the shelf with a NEGATIVE coefficient H_shelf=%r W/K (k=%r, %s): heat flows from the colder to the warmer body" % (
                i, r["hshelf"][i], cfg["k"], cfg["shape"]), dict(config=cfg, vial=i))
        rep.count("clipped-shelf-coefficients", int((r["hshelf"] == 0).sum()) if cfg["k"]["s0"] > 0 else 0)
        nn = int(np.sum(~np.isnan(r["stats"]["t_nucleation"])))
        rep.case(repr(cfg), nontrivial=hyp["inside"] and nn > 0,
                 sample=dict(shape=cfg["shape"], arr=cfg["arr"], dt=cfg["dt"], k=cfg["k"], hypotheses=hyp, nucleated=nn) if ri < 5 else None)
        for k, v in hyp.items():
            if k not in ("inside", "max_lam") and not v:
                rep.count("outside:" + k)
        if hyp["inside"]:
            inside += 1
            oracle(rep, cfg, r, hyp)
            if ri % 4 == 0:
                # the same object run again after its cooling program was edited in place (same dt, same t_tot):
                # the bounds refer to the program that is configured NOW
                S = r["S"]
                warm = min(cfg["prog"]["start"], cfg["prog"]["end"] + 25)
                cfg2 = dict(cfg, prog=dict(cfg["prog"], end=warm, holds=[h for h in cfg["prog"]["holds"] if warm <= h["temp"]]))
                try:
                    with impl.quiet():
                        S.opcond.cooling["end"] = warm
                        S.opcond.holding = [dict(h) for h in cfg2["prog"]["holds"]] or None
                        with fr.patched_rng(fr.CountingRng):
                            S.run()
                    r2 = dict(r, XT=np.array(S.X_T), XS=np.array(S.X_sigma), stats={k: np.array(v) for k, v in S.stats.items()},
                              shelf=np.asarray(S.opcond.tempProfile(S.dt), dtype=float),
                              hshelf=np.broadcast_to(np.asarray(S.H_shelf, dtype=float), (r["N"],)).copy())
                    nv = len(rep.violations)
                    if hypotheses(cfg2, r2)["inside"]:
                        oracle(rep, cfg2, r2, hyp)
                    for v in rep.violations[nv:]:
                        v["key"] = "rerun-edited-program " + v["key"]; v["what"] = "second run() after editing the cooling program in place: " + v["what"]
                    rep.count("reruns-after-edit")
                except Exception as e:
                    rep.violation("rerun-crash %s" % type(e).__name__, "re-run raises %r for %s" % (e, cfg2), dict(config=cfg2, error=repr(e)))
            if len(steps) < (10 if tier == "quick" else 60) and r["N"] <= 16:
                n = r["nsteps"]
                steps.append((cfg, fr.coq_step_case(r, sorted(rng.sample(range(n - 1), min(n - 1, 25))))))
        else:
            outside += 1
    rep.coverage["runs_inside_theorem_hypotheses"] = inside
    rep.coverage["runs_outside"] = outside
    rc, out = common.coq_eval("c06_0", HEAD % coq_list(c for _, c in steps), timeout=1200)
    blocks = common.eval_blocks(out)
    if rc != 0 or len(blocks) != 1:
        rep.violation("correspondence-run", "Coq evaluation of the step model failed: " + out[-500:], dict(log=out[-2000:]), found_input=False)
    else:
        bad = common.parse_nat_list(blocks[0])
        rep.coverage["traces_validated_against_impl"] = len(steps) - len(bad)
        flagged = [v["replay"].get("config") for v in rep.violations]
        for b in bad:
            if steps[b][0] not in flagged:
                rep.violation("model-vs-impl step", "correspondence model/Flake.v step <-> Snowflake.run no longer checks on %s" % steps[b][0],
                              dict(correspondence="model/Flake.v step", config=steps[b][0]), found_input=False)
    if not ok:
        rep.violation("proof-broken", "proof obligations of C06 do not check: " + msg, dict(theorem="props/C06.v", log=msg), found_input=False)
