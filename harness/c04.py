"""C04  Shelf-scale results depend only on configuration and seeds."""
import random

import numpy as np

import common
import impl
import flake_runs as fr
from common import zlit, coq_list, coq_bool

HEAD = ("From Coq Require Import ZArith List Bool. Import ListNotations.\nFrom Snow Require Import Topology FlakeObj.\nOpen Scope Z_scope.\n"
        "Definition gen_eqb (a b : gen) := (g_seed a =? g_seed b) && (g_cur a =? g_cur b).\n"
        "Definition out_eqb (a b : outcome) := (match fst a, fst b with Some x, Some y => gen_eqb x y | None, None => true | _, _ => false end) && gen_eqb (snd a) (snd b).\n"
        "Fixpoint outs_eqb (a b : list outcome) := match a, b with [], [] => true | x :: r, y :: s => out_eqb x y && outs_eqb r s | _, _ => false end.\n"
        "Definition case_ok (c : Z * Z * bool * list op * list outcome) : bool := let '(seed, N, var, h, obs) := c in outs_eqb (snd (history run (new_obj seed N var) h)) obs.\n"
        "Definition cases := %s.\nEval vm_compute in bad_cases case_ok cases.\n")


class LogGen:
    """wraps a numpy Generator: remembers its seed and counts the variates requested (normal n, random n, choice k)"""
    def __init__(self, inner, seed, log):
        self.inner, self.seed, self.cur, self.log = inner, seed, 0, log
    def normal(self, size=None, **k):
        self.log.append(("normal", self.seed, self.cur)); self.cur += int(np.prod(size)) if size is not None else 1
        return self.inner.normal(size=size, **k)
    def random(self, n=None):
        self.log.append(("random", self.seed, self.cur)); self.cur += int(n) if n is not None else 1
        return self.inner.random(n)
    def choice(self, a, size=None, replace=True, **k):
        self.log.append(("choice", self.seed, self.cur)); self.cur += int(size) if size is not None else 1
        return self.inner.choice(a, size=size, replace=replace, **k)
    def __getattr__(self, name):
        return getattr(self.inner, name)


class logged_rng:
    def __init__(self):
        self.log = []
    def __enter__(self):
        self.orig = np.random.default_rng
        np.random.default_rng = lambda seed=None: LogGen(self.orig(seed), seed, self.log)
        return self
    def __exit__(self, *a):
        np.random.default_rng = self.orig


def stats_equal(a, b):
    return all(np.array_equal(np.asarray(a[k]), np.asarray(b[k]), equal_nan=True) for k in ("t_nucleation", "T_nucleation", "t_solidification"))


def base_cfg(rng, var):
    shape = rng.choice([(3, 3, 1), (2, 4, 1), (4, 3, 1), (3, 2, 2)])
    k = {"int": 20, "ext": 20, "s0": 20, "s_sigma_rel": 0.1 if var else 0}
    if var and shape[2] == 1 and rng.random() < 0.4:
        # per-vial shelf coefficients given as an array (the SAME array object is handed to every object built from this configuration:
        # the configuration must not be modified by building or running)
        k["s0"] = np.linspace(15.0, 25.0, int(np.prod(shape)))
    prog = dict(start=0, end=-40, rate=0.1, holds=[], t_tot=1500.0, dt=10.0)
    return dict(arr=rng.choice(["square", "hexagonal"]), shape=shape, k=k, dt=10.0, T_init=None,
                over={"snowfall_parameters": {"vial_arrangement": "square"}}, initIce="indirect", seed=rng.randint(0, 50), seed_v=7, prog=prog, cnTemp=None, thr=0.9)


def reference(cfg, seed, seed_v=None):
    with impl.quiet():
        S = fr.build(dict(cfg, seed=seed, seed_v=cfg["seed_v"] if seed_v is None else seed_v), storeStates=None)
        S.run()
    return {k: np.array(v) for k, v in S.stats.items()}


def _run_study(SF, how):
    # unordered pool APIs may deliver in any order: use that freedom against the caller (harness-side wrapper)
    with impl.adversarial_pool():
        SF.run(how=how)


def check(rep, tier):
    rng = random.Random(rep.seed)
    ok, msg = common.proof_stage(rep, "C04", ["theories/model/FlakeObj.vo"])
    nhist = 24 if tier == "quick" else 240
    rep.rule = ("(a) random operation histories (<= 8 of: assign seed, read H_shelf, read H_int, rebuild matrices, run; objects built with several deterministic or random "
                "recording selections) on one Snowflake, with and without random shelf variability; every run's statistics must be bit-identical to a fresh object's run with "
                "the seed in force; (b) the same histories with logging generators: which generator (seed) and stream position the shelf vector and the first dice come from, "
                "compared with the Coq object model; (c) Snowfall with Nrep 1..12, how in {sequential, async, sync}, pool_size in {1,2,3,5,None}: stats[i] bit-identical to the "
                "stand-alone run with seed i, keys = 0..Nrep-1; non-trivial = history with at least one run after a state-changing operation")
    rep.trusted = ["Coq 8.16.1 kernel + vm_compute", "numpy default_rng(seed) is a deterministic function of the seed and of the variates consumed (the model's cursor)",
                   "multiprocessing.Pool runs each task on a copy of the template; OS scheduling is sampled (pool sizes), not enumerated",
                   "harness/c04.py LogGen wrapper (normal/random/choice counted by requested size)"]
    from ethz_snow import snowfall as sfall
    cases, meta = [], []
    refs = {}
    for hi in range(nhist):
        var = hi % 2 == 0
        cfg = base_cfg(rng, var)
        # always: three scripted histories (built - re-shaped to the same vial count - run; run - configuration re-declared - run; both)
        script = {0: ["hint", "reshape", "run"], 1: ["run", "config", "run"], 2: ["build", "seed", "reshape", "config", "hshelf", "run"]}.get(hi)
        if script and "reshape" in script:
            cfg["shape"] = (2, 4, 1)
            if not np.isscalar(cfg["k"]["s0"]):
                cfg["k"]["s0"] = np.linspace(15.0, 25.0, 8)
        if cfg["shape"][2] > 1:
            var = False        # pallets have no shelf term: no random vector
        key = (cfg["arr"], cfg["shape"], var, repr(np.asarray(cfg["k"]["s0"]).tolist()), cfg["seed_v"])       # everything the reference run depends on
        cur = {"shape": cfg["shape"], "over": cfg["over"], "model": True}
        def ref(s, sv):
            kk = (key, cur["shape"], s, sv, repr(cur["over"]))
            if kk not in refs:
                refs[kk] = reference(dict(cfg, shape=cur["shape"], over=cur["over"]), s, sv)
            return refs[kk]
        store = rng.choice([None, "all", "edge", [0, 2], "uniform_3", "random_2", "corner_random_1"])
        ops, coq_ops, obs = [], [], []
        N = int(np.prod(cfg["shape"]))
        try:
            with logged_rng() as lg, impl.quiet():
                S = fr.build(cfg, storeStates=store)
                if isinstance(store, str) and "random" in store:
                    coq_ops.append("RecordRandom %s" % zlit(int(store.split("_")[-1])))
                nops = rng.randint(1, 8) if not script else len(script)
                for oi in range(nops):
                    o = rng.choice(["seed", "seed", "seedv", "hshelf", "hint", "build", "run", "run", "reshape", "config"]) if oi < nops - 1 else "run"
                    if script:
                        o = script[oi]
                    if o == "config":
                        # the configuration re-declared on the same object through the public configPath setter (other arrangement, or another vial
                        # height): configuration of the NEXT run (SetConfig in model/FlakeObj.v: cached matrices and shelf vector dropped)
                        cur["over"] = rng.choice([{"snowfall_parameters": {"vial_arrangement": "hexagonal"}}, {"snowfall_parameters": {"vial_arrangement": "square"}},
                                                  {"snowfall_parameters": {"vial_arrangement": "square"}, "vial": {"geometry": {"height": 0.014}}}])
                        S.configPath = impl.cfg_path(cur["over"]); ops.append(("configPath", cur["over"])); coq_ops.append("SetConfig")
                        continue
                    if o == "seedv":
                        # the vial seed is configuration of the NEXT run (separate global numpy stream; not part of the object model)
                        S.seed_v = rng.choice([7, 8, 9]); ops.append(("seed_v", S.seed_v))
                    elif o == "reshape":
                        # another batch shape with the same number of vials is configuration of the NEXT run (not part of the object model:
                        # run() rebuilds the shelf vector anyway)
                        x, y, z = cur["shape"]
                        if x == y:
                            continue
                        cur["shape"] = (y, x, z); S.N_vials = cur["shape"]; ops.append(("N_vials", cur["shape"]))
                    elif o == "seed":
                        s = rng.choice([cfg["seed"], S.seed, rng.randint(0, 50)])
                        S.seed = s; ops.append(("seed", s)); coq_ops.append("SetSeed %s" % zlit(s))
                    elif o == "hshelf":
                        _ = S.H_shelf; ops.append(("H_shelf",)); coq_ops.append("ReadHshelf")
                    elif o == "hint":
                        _ = S.H_int; ops.append(("H_int",)); coq_ops.append("ReadHint")
                    elif o == "build":
                        S._buildHeatflowMatrices(); ops.append(("build",)); coq_ops.append("BuildMatrices")
                    else:
                        i0 = len(lg.log)
                        S.run()
                        runlog = lg.log[i0:]
                        st = {k: np.array(v) for k, v in S.stats.items()}
                        ops.append(("run", S.seed))
                        ndice = sum(1 for e in runlog if e[0] == "random")
                        # shelf provenance: the last normal() call so far; dice: first random() call of this run
                        normals = [e for e in lg.log if e[0] == "normal"]
                        first_dice = next((e for e in runlog if e[0] == "random"), None)
                        tot = 0
                        if first_dice is not None:
                            # total dice consumed in this run (cursor advance) is irrelevant for the model's outcome: pass what was observed
                            tot = S._rng.cur - first_dice[2] if hasattr(S._rng, "cur") else 0
                        coq_ops.append("Run %s" % zlit(tot))
                        if first_dice is not None:
                            shelf = "(Some (MkGen %s %s))" % (zlit(normals[-1][1]), zlit(normals[-1][2])) if var and normals else "None"
                            obs.append("(%s, MkGen %s %s)" % (shelf, zlit(first_dice[1]), zlit(first_dice[2])))
                        else:
                            obs.append(None)
                        if not stats_equal(st, ref(S.seed, S.seed_v)):
                            rep.violation("history-dependence" + (" random-recording" if isinstance(store, str) and "random" in store else ""),
                                          "statistics of the run after history %s (storeStates=%r, seed %r, s_sigma_rel=%r, %s) differ from a fresh object's run with the same seed"
                                          % (ops, store, S.seed, cfg["k"]["s_sigma_rel"], cfg["shape"]), dict(config=cfg, storeStates=store, history=ops))
                            break
        except Exception as e:
            rep.violation("crash %s" % type(e).__name__, "history %s raises %r" % (ops, e), dict(config=cfg, history=ops, error=repr(e)))
            continue
        nontriv = sum(1 for o in ops if o[0] == "run") >= 1 and len(ops) > 1
        rep.case(repr((key, store, ops)), nontrivial=nontriv, sample=dict(shape=cfg["shape"], variability=var, storeStates=store, history=ops) if hi < 4 else None)
        rep.count("variability" if var else "no-variability"); rep.count("ops", len(ops))
        if cur["model"] and all(o is not None for o in obs):
            cases.append("(%s, %s, %s, %s, %s)" % (zlit(cfg["seed"]), zlit(N), coq_bool(var), coq_list(coq_ops), coq_list(obs)))
            meta.append((cfg, store, ops))
    # ---- history with controlled nucleation: run, edit the holding step IN PLACE (duration / rate; no setter involved), run again: the second run is
    #      the run of a fresh object with the edited program and the same seeds ----
    for hi in range(2 if tier == "quick" else 8):
        cfgc = base_cfg(rng, False)
        cfgc["prog"] = dict(start=0, end=-40, rate=0.1, holds=[{"duration": 300.0, "temp": -6.0}], t_tot=2500.0, dt=10.0); cfgc["cnTemp"] = -6.0
        try:
            with impl.quiet():
                S = fr.build(cfgc, storeStates=None); S.run()
                extra_d = rng.choice([200.0, 450.0, 37.0])
                S.opcond.holding[0]["duration"] = 300.0 + extra_d
                if hi % 2:
                    S.opcond.cooling["rate"] = 0.05
                S.run()
                st2 = {k: np.array(v) for k, v in S.stats.items()}
                cfg2 = dict(cfgc, prog=dict(cfgc["prog"], holds=[{"duration": 300.0 + extra_d, "temp": -6.0}], rate=0.05 if hi % 2 else 0.1))
                want2 = reference(cfg2, cfgc["seed"])
            rep.case(("cn-edit-history", hi, extra_d), nontrivial=True); rep.count("controlled-nucleation program edited in place")
            if not stats_equal(st2, want2):
                rep.violation("history-dependence program-edit", "run, holding step edited in place (+%g s%s), run: the statistics differ from a fresh object's with the edited program and the same seeds (%s, cnTemp=-6)"
                              % (extra_d, ", rate halved" if hi % 2 else "", cfgc["shape"]), dict(config=cfg2, history=["run", "opcond.holding[0]['duration'] += %g" % extra_d, "run"]))
        except Exception as e:
            rep.violation("crash %s" % type(e).__name__, "controlled-nucleation edit history raises %r" % e, dict(config=cfgc, error=repr(e)))
    # ---- Snowfall: repetitions vs stand-alone runs, all modes --------------------------------------------------
    combos = [("sequential", None), ("async", 1), ("async", 3), ("sync", 2), ("async", None)] if tier == "quick" else \
        [(h, p) for h in ("sequential", "async", "sync") for p in (1, 2, 3, 5, None)]
    for (how, pool) in combos:
        for var in (True, False):
            cfg = base_cfg(rng, var)
            single = (how, pool) in (("sequential", None), ("async", 1)) and var == (how == "async")      # always: single-repetition studies
            while (single or how == "sync" or (how == "async" and pool and pool > 1)) and cfg["shape"][2] > 1:
                cfg = base_cfg(rng, var)          # the parallel modes with several workers are always exercised (flat shelf)
            if cfg["shape"][2] > 1:
                continue
            Nrep = rng.randint(1, 12) if tier != "quick" else rng.choice([1, 4, 7])
            if single:
                Nrep = 1
            if how == "sync":
                Nrep = max(Nrep, 4)               # several workers writing into the shared result dict (reverse order, impl.adversarial_pool)
            if how == "async" and pool and pool > 1:
                Nrep = 2 * pool + 1               # more repetitions than workers and NOT a multiple of the worker count (uneven chunks)
            try:
                with impl.quiet():
                    SF = sfall.Snowfall(Nrep=Nrep, pool_size=pool, k=dict(cfg["k"]), N_vials=cfg["shape"], dt=cfg["dt"], seed_v=cfg["seed_v"],
                                        opcond=fr.gen_opcond.build(cfg["prog"], impl.opcond_mod()), configPath=impl.cfg_path(cfg["over"]))
                    _run_study(SF, how)
            except Exception as e:
                rep.violation("snowfall-crash %s" % type(e).__name__, "Snowfall(how=%r, pool_size=%r, Nrep=%d) raises %r" % (how, pool, Nrep, e), dict(how=how, pool_size=pool, Nrep=Nrep))
                continue
            rep.case(("snowfall", how, pool, Nrep, var, cfg["shape"]), nontrivial=Nrep > 1)
            rep.count("snowfall-" + how)
            if sorted(SF.stats.keys()) != list(range(Nrep)):
                rep.violation("snowfall-keys", "Snowfall(how=%r).stats has keys %s for Nrep=%d" % (how, sorted(SF.stats.keys()), Nrep), dict(how=how, pool_size=pool, Nrep=Nrep))
                continue
            for i in range(Nrep):
                if not stats_equal(SF.stats[i], reference(cfg, i)):
                    rep.violation("snowfall-rep-vs-standalone %s" % how, "Snowfall(how=%r, pool_size=%r, Nrep=%d, s_sigma_rel=%r): repetition %d differs from the stand-alone run with seed %d"
                                  % (how, pool, Nrep, cfg["k"]["s_sigma_rel"], i, i), dict(config=cfg, how=how, pool_size=pool, Nrep=Nrep, repetition=i))
                    break
            else:
                if how != "sequential" and tier == "quick" and not var:
                    continue
                # the study object used again: query the tables, change the template's vial seed, run again -- the new repetitions are
                # again the stand-alone runs (now with the new vial seed), in the raw statistics AND through the accessors
                try:
                    with impl.quiet():
                        _ = SF.nucleationTimes(); _ = SF.to_frame()
                        SF.Sf_template.seed_v = cfg["seed_v"] + 3
                        _run_study(SF, how)
                        acc = [np.asarray(SF.nucleationTimes(seed=[i]), dtype=float) for i in range(Nrep)]
                        accs = [np.asarray(SF.solidificationTimes(seed=[i]), dtype=float) for i in range(Nrep)]
                except Exception as e:
                    rep.violation("snowfall-crash %s" % type(e).__name__, "second Snowfall.run(how=%r) after a query and a new vial seed raises %r" % (how, e), dict(how=how, pool_size=pool, Nrep=Nrep))
                    continue
                rep.case(("snowfall-rerun", how, pool, Nrep, var, cfg["shape"]), nontrivial=True); rep.count("snowfall-rerun")
                for i in range(Nrep):
                    want = reference(cfg, i, cfg["seed_v"] + 3)
                    if not stats_equal(SF.stats[i], want):
                        rep.violation("snowfall-rerun rep-vs-standalone", "Snowfall(how=%r, Nrep=%d): after run, query, new template seed_v, run: repetition %d differs from the stand-alone run (seed %d, seed_v %d)"
                                      % (how, Nrep, i, i, cfg["seed_v"] + 3), dict(config=cfg, how=how, pool_size=pool, Nrep=Nrep, repetition=i)); break
                    if not (np.array_equal(np.sort(acc[i]), np.sort(np.asarray(want["t_nucleation"], dtype=float)), equal_nan=True)
                            and np.array_equal(np.sort(accs[i]), np.sort(np.asarray(want["t_solidification"], dtype=float)), equal_nan=True)):
                        rep.violation("snowfall-rerun accessor-stale", "Snowfall(how=%r, Nrep=%d): after run, query, new template seed_v, run: nucleationTimes/solidificationTimes(seed=[%d]) are not those of the "
                                      "stand-alone run with seed %d and the new vial seed" % (how, Nrep, i, i), dict(config=cfg, how=how, pool_size=pool, Nrep=Nrep, repetition=i)); break
    rc, out = common.coq_eval("c04_0", HEAD % coq_list(cases), timeout=600)
    blocks = common.eval_blocks(out)
    if rc != 0 or len(blocks) != 1:
        rep.violation("correspondence-run", "Coq evaluation of the object model failed: " + out[-500:], dict(log=out[-2000:]), found_input=False)
    else:
        bad = common.parse_nat_list(blocks[0])
        rep.coverage["traces_validated_against_impl"] = len(cases) - len(bad)
        flagged = [v["replay"].get("history") for v in rep.violations]
        for b in bad:
            if meta[b][2] not in flagged:
                rep.violation("model-vs-impl object", "correspondence model/FlakeObj.v <-> Snowflake random-stream bookkeeping no longer checks for history %s (storeStates=%r)" % (meta[b][2], meta[b][1]),
                              dict(correspondence="model/FlakeObj.v", history=meta[b][2], storeStates=meta[b][1]), found_input=False)
    if not ok:
        rep.violation("proof-broken", "proof obligations of C04 do not check: " + msg, dict(theorem="props/C04.v", log=msg), found_input=False)
