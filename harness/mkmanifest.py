#!/venv/bin/python
"""Regenerates /verif/MANIFEST.json from the table below (keeps it schema-valid)."""
import json
import os

HERE = os.path.dirname(os.path.dirname(os.path.abspath(__file__)))
TB = ("Coq 8.16.1 kernel and vm_compute (no native_compute); hand-written Gallina model tied to /repo by the "
      "correspondence harness (harness/%s.py, float tolerance 1e-9 where floats occur); numpy/scipy/pandas primitives as modelled; ")

CHECKS = {
 "C01": dict(
    cat="proof",
    text="Theorems over R about the Snowflake step model (props/C01.v): each vial step is exactly one of liquid cooling / nucleation jump / "
         "equilibrium solidification with the stated energy relations; indirect formula = eq. 9; direct root solves eq. 12, satisfies the "
         "adiabatic balance and lies in (0,1); heat flow = k_int A * sum over geometric neighbours + exterior + shelf; inter-vial heat cancels "
         "over the batch for every shape (via the C09 topology theorem). The same Gallina step at binary64 reproduces column k+1 of the "
         "implementation's state matrix from column k on thousands of recorded steps, and whole-run statistics.",
    ref="6 C01", technique="Rocq proof over R (field/nra) on a generic step model + one-step float correspondence by vm_compute + numpy restatement",
    note=TB % "c01" + "nucleation decisions are inputs here (law: C03); H_shelf with random variability is observed from the object; rounding not analysed."),
 "C02": dict(
    cat="proof",
    text="Theorems over R about the 1D step model (props/C02.v): every cooling step changes the heat content by EXACTLY dt (K (T_shelf - T_0) + q_e) for any number of grid points (telescoping); the "
         "ghost points carry exactly the boundary fluxes; nucleation is adiabatic (cp m (T' - T) = Dh m_ice(T')); the apparent heat capacity cp*BETA is the derivative of the equilibrium enthalpy. "
         "PARTIAL: the solidification update is non-conservative (C02_solid_step_exact_balance_refuted: an insulated field with a conductivity jump changes its heat content in one step of the faithful model) and the 2D model (model/Sn2D.v, one-step correspondence) has no balance theorem: their balance is audited on the implementation (15 % / 10 %). Tied to the code by one-step "
         "binary64 correspondence of the 1D model on saved steps and by evaluating the exact cooling balance on every saved step (observed error 3e-11).",
    ref="6 C02", technique="Rocq proof over R (telescoping sums, field, Coquelicot derivative) + one-step float correspondence + enthalpy audits",
    note=TB % "c02" + "known finding: 12-21 % imbalance for dilute solutions (<= 2 % solute) in strongly cooled, partly supercooled vials (front-crossing error of the scheme); 2D (shelf/jacket): one-step correspondence + audit; enthalpy increments use the scheme's constant latent heat."),
 "C03": dict(
    cat="proof",
    text="Theorems over R (props/C03.v): a vial nucleates in a step iff it is liquid, supercooled after the liquid update and its uniform draw is below "
         "k_v V (T_eq_l - T)^b dt with k_v = 10^-(a + c xi_v); certain once that reaches 1; never if not supercooled or iced (also at the CN step); the recorded "
         "temperature is the supercooled temperature; the probability is positive, proportional to dt and V, strictly increasing in the supercooling. "
         "Tied to the code by scripted-dice lockstep runs (every draw placed just below/above the probability computed by an independent restatement) and by "
         "`interval` certificates that the probabilities used equal the R model's. PARTIAL: the distributional claim over numpy's random streams is not modelled.",
    ref="6 C03", technique="Rocq proof over R (Rpower law, jump_iff) + interval certificates + scripted-generator lockstep differential",
    note=TB % "c03" + "the generator object of the Snowflake is replaced harness-side; xi_v reproduced as norm.ppf(rand) after np.random.seed(seed_v); standard normal / uniform distribution of numpy streams trusted."),
 "C04": dict(
    cat="proof",
    text="Object-level state machine of the random-stream bookkeeping (model/FlakeObj.v: seed setter, configPath setter, lazy getters, matrix/shelf builders, 'random' recording, run; Snowfall as "
         "an arbitrary partition of seeds into sequential worker chunks). Theorems by induction over histories / chunk lists (props/C04.v, axiom-free): every run of every history reads "
         "exactly the variates determined by configuration and the seed in force; Snowfall repetition s = stand-alone run with seed s for every partition, every seed reported once; the "
         "pinned revision is refuted by computed witnesses. Tied to the code by logged generators (which generator and stream position feed the shelf vector and the first dice) on random "
         "histories, and by bit-identical statistics across histories, recording selections, execution modes and pool sizes. PARTIAL: OS scheduling is sampled, not enumerated.",
    ref="6 C04", technique="Rocq proof (state machine invariant by induction over operation histories and chunk partitions) + logged-generator correspondence + bit-identity oracle",
    note=TB % "c04" + "numpy's generator is a deterministic function of seed and consumed variates (model cursor); multiprocessing copies the template per task; the vial seed uses the global numpy stream re-seeded inside run."),
 "C05": dict(
    cat="proof",
    text="Theorems over R for every program with positive rate/step/total time and end <= hold temperatures <= start (props/C05.v): "
         "S1 exactly ceil(t_tot/dt)+1 samples, S2 starts at start, S3+S4 never rises and falls at most rate*dt per step, S5 within [end,start], "
         "S8 independent of the listed order for pairwise distinct hold temperatures; S6/S7 per segment (plateau and ramp sample "
         "counts within one of duration/dt, ramp samples on the programmed line) and composed over the program (after k ramp/hold pairs the sample count is within k resp. 2k of the continuous time / dt); the temperature at an arbitrary index against the continuous program is checked by the oracle. "
         "The same generic Gallina term, instantiated at binary64, is compared sample by sample with tempProfile(dt) on thousands of random programs.",
    ref="6 C05", technique="Rocq proof over R (archimed-based ceil, chain invariant by induction over segments, permutation-invariant insertion sort) + float-instance correspondence by vm_compute",
    note=TB % "c05" + "binary64 rounding is not analysed (generic term shared by the R and float instances); the order dependence for equal hold temperatures (known finding) is outside the theorems."),
 "C06": dict(
    cat="proof",
    text="Theorems over R (props/C06.v): liquid step is a convex combination when the stability number <= 1; the nucleation jump (direct: always; indirect: "
         "supercooling < gamma) gives 0 < sigma < 1 and warms the vial onto the depression curve at or below T_eq_l; a vial on the curve with 0 <= sigma < 1 is "
         "<= T_eq_l; the solidifying step keeps sigma < 1 and T >= the coldest partner temperature under an explicit step condition and grows the ice under net cooling; "
         "and by induction over the run every vial in every stored column satisfies coldest-shelf-so-far <= T <= hi with sigma = 0 or (0 < sigma < 1 and T on the curve). "
         "PARTIAL: positivity of an iced vial's ice fraction under a warming heat flow is a hypothesis observed on each trajectory. The hypotheses are evaluated on every "
         "generated configuration; runs inside are judged by a bounds oracle.",
    ref="6 C06", technique="Rocq proof over R (convexity, quadratic step condition, induction over the run) + hypothesis evaluation + bounds oracle + sampled step correspondence",
    note=TB % "c06" + "NoRemelt hypothesis observed, not derived; finiteness is checked by the oracle only."),
 "C07": dict(
    cat="proof",
    text="Theorems over R (props/C07.v): discrete maximum principle of the 1D cooling step under 2F <= 1 and F(1+Bi) <= 1; the post-nucleation temperature of a supercooled point lies strictly between "
         "its old temperature and T_eq_l; ice fraction = liquidus value with 0 < w_i < water fraction below T_eq_l and 0 at or above it; interior points of the solidification step are convex combinations "
         "under per-point conditions; the WHOLE 1D solidification step (ghost points included) keeps the bounds under conditions uniform over the admissible ranges, and ANY sequence of cooling / nucleation / solidification steps of the 1D model keeps temperatures in [lo,hi] and ice fractions in [0, water fraction] (C07_1D_run_bounds) under inequalities between the run's constants that the harness evaluates on every 1D run. PARTIAL: VISF lower bound excluded by the property; 2D solidification by the oracle only. 2D: the cooling step AS SWEPT IN PLACE by the implementation (model/Sn2D.v, tied by one-step correspondence) keeps every temperature between the previous bounds and the shelf temperature under 4a/dr^2+2a/dz^2<=1, dr<=2r_j, Biot numbers in [0,1], no evaporative flux (hypotheses evaluated on every 2D run); 2D solidification by oracle only. Tied to the code by one-step binary64 "
         "correspondence (0D and 1D: cooling incl. vacuum window, nucleation, solidification) and by a bounds / phase-equilibrium oracle on every reported value of 0D, 1D and 2D runs.",
    ref="6 C07", technique="Rocq proof over R (convex combinations, quadratic root location) + one-step float correspondence + bounds oracle",
    note=TB % "c07" + "2D bounds by oracle; VISF lower bound not claimed (property excludes it)."),
 "C08": dict(
    cat="proof",
    text="Theorems over R (props/C08.v): the rate integral A * quadrature(k (T_eq_l - T)^b on the supercooled mask) is non-negative for non-negative weights; with E = sum K_v dt the nucleation "
         "step is the first index with 1 - exp(-E) > F, crossed at no earlier and at every later step; min <= mean <= max; min over supercooled points <= kinetic mean <= T_eq_l. Tied to the code by an "
         "independent recomputation of J, K_v, E from the saved fields of 0D/1D/2D runs (every step saved): the reported nucleation step must equal find_first of the model on the recomputed "
         "sequence, the four reported temperatures must be those of the field; interval certificates for sampled rate values; quadrature weights measured and checked non-negative.",
    ref="6 C08", technique="Rocq proof over R (first-crossing search, monotone hazard, weighted means) + recomputation oracle + find_first correspondence + interval certificates",
    note=TB % "c08" + "Simpson weights measured from the integrator (harness shim around scipy.integrate.simpson), numpy global random stream trusted."),
 "C09": dict(
    cat="proof",
    text="Theorems for every batch shape and both arrangements (props/C09.v, axiom-free except the two heat-flow statements over R): "
         "matrix entry = geometric neighbour indicator, symmetry, diagonal = -#neighbours, exposure = max - #neighbours, "
         "inter-vial heat cancels for every temperature field. Tied to snowflake.py by exact comparison of H_int/H_ext with the "
         "Coq model for all shapes <= 6x6x3 (quick) / 8x8x4 + random up to 40x40x6 (thorough), plus an independent geometric oracle.",
    ref="6 C09", technique="Rocq proof (lia/nia, mixed-radix uniqueness) + exhaustive-small correspondence by vm_compute",
    note=TB % "c09" + "np.diag/csr semantics modelled by `sym`; closed-form pattern predicates instead of the slice assignments."),
 "C10": dict(
    cat="proof",
    text="Theorems (props/C10.v): cnt is the last index of the 1 s profile at or above cnTemp and, the profile being non-increasing (C05), the shelf is at or "
         "above cnTemp at every earlier second for every admissible program; k_CN is the first step at or after cnt; at that step every liquid supercooled "
         "vial nucleates for any draw and at every other step the decision is the plain rate-law comparison; the first k_CN+1 stored columns depend only on the "
         "decisions before k_CN (run identical to the run without CN, generic in the number type). The 'end of the hold within one second per segment' clause "
         "rests on C05's per-segment S6/S7 lemmas and is checked by the oracle against the continuous program. Tied to the code by cnt correspondence (binary64 "
         "model), run pairs with/without cnTemp (bit-identical prefix, fired set, times) and scripted lockstep runs.",
    ref="6 C10", technique="Rocq proof (last-index search, first-crossing search, prefix determinism of the run) + float correspondence of cnt + paired-run and lockstep oracles",
    note=TB % "c10" + "end-of-hold timing is a composition of C05 S6/S7 (partial there); cnTemp is taken between end and start temperature."),
 "C11": dict(
    cat="proof",
    text="Theorems (props/C11.v): the controlled-nucleation trigger is the first step at which the coldest product temperature is <= cnTemp; at every earlier step the whole product is warmer; "
         "hence cnTemp lies between the coldest temperatures of the trigger step and of the step before. Tied to the code on 0D/1D/2D runs with every cooling step saved: the reported trigger "
         "step equals find_first evaluated on the observed minima, T_nuc(_min) <= cnTemp < previous minimum, T_nuc_min is the field minimum.",
    ref="6 C11", technique="Rocq proof (first-crossing search) + find_first correspondence on observed minima + oracle",
    note=TB % "c11" + "every step saved (processes of <= 10000 steps)."),
 "C12": dict(
    cat="proof",
    text="Theorem by induction over the steps of the run model (props/C12.v): for every vial the recorded nucleation time is (j+1)dt for the first "
         "column j+1 containing ice, the recorded nucleation temperature is the supercooled temperature of step j (< T_eq_l), the solidification "
         "time is t_m - t_nuc for the first column m above the threshold (absent iff none), times on the grid, t_sol only for nucleated vials and >= 0. "
         "Hypotheses (once iced stays iced; a jump creates ice) are evaluated per run. Whole-run statistics of the binary64 model are compared with "
         "Snowflake.stats; a direct oracle checks every vial's statistics, the fromStates accessors and the counters against the stored trajectory.",
    ref="6 C12", technique="Rocq proof (invariant by induction over steps, per-vial trace extracted from the batch run) + whole-run float correspondence + trajectory oracle",
    note=TB % "c12" + "fromStates accessors and sigmaCounter are checked by the oracle only (three known findings); query times are grid times; a query beyond the simulated grid is outside the property."),
 "C13": dict(
    cat="proof",
    text="Loop skeleton of the Snowing runs (model/SnLoop.v: first-crossing searches, the two sparse save buffers with their strides, the slices and concatenations of the four reported histories). "
         "Theorems (props/C13.v): a run yields a result iff both searches succeed and then reports the FIRST steps at which nucleation / 90 percent frozen hold; the time axis is non-decreasing for every "
         "process length, nucleation step and stride; the four histories are maps over the same row list (equal lengths, same steps row by row); t_fr = t_nuc + t_sol. Tied to the code by comparing the "
         "reported step indices with report_rows (incl. a run with stride > 1) and by an oracle for lengths, ordering, times within the process, 0.9 crossing at t_fr, programmed shelf temperature, and "
         "no readable data after a run that raised.",
    ref="6 C13", technique="Rocq proof (sortedness of filtered ranges, first-crossing search) + row-index correspondence by vm_compute + oracle",
    note=TB % "c13" + "fresh object per run (stale private fields after a failed second run on the same object are not claimed)."),
 "C14": dict(
    cat="proof",
    text="Theorems (props/C14.v): if every repetition is a pure function f(seed), then for every assignment of repetitions to worker chunks the results table has one row per repetition in seed "
         "order, row i = f(i), and any two execution modes / worker counts agree. The hypothesis (purity per seed) and the conclusion are checked on real studies: Nrep 1..8, sequential and parallel "
         "with mp.cpu_count overridden to 1/2/4/16, 0D/1D(/2D): bit-identical rows vs single runs with seed i on fresh objects, single run = repetition 0, repeated run() reproduces the table. "
         "PARTIAL: OS scheduling sampled.",
    ref="6 C14", technique="Rocq proof (association lists over arbitrary chunk partitions) + bit-identity oracle over modes and worker counts",
    note=TB % "c14" + "purity of a repetition in its seed is the theorems' hypothesis, validated by bit-identity; numpy global stream re-seeded inside each run."),
 "C15": dict(
    cat="proof",
    text="Theorems over R (props/C15.v): the homogeneous cooling step IS the liquid step of an isolated 1x1x1 Snowflake (k_int = k_ext = 0, H_shelf = K A, hl = m cp); the 0D post-nucleation state "
         "satisfies the two equations defining the Snowflake's direct formulation (depression curve, sensible = latent heat); a simultaneous evaluation of the 2D cooling stencil keeps a radially uniform field uniform when no heat crosses the wall and every column then IS the 1D cooling step of that column, while for the in-place sweep the implementation performs (model/Sn2D.v, one-step correspondence with _run_2D) radial uniformity is REFUTED by a 3x3 witness over R. PARTIAL: solidification (two Euler forms, O(dt) apart), the thermally-thin "
         "1D->0D limit and the 2D/1D comparison are checked on paired runs only: 0D vs scripted Snowflake (cooling curve 1e-9, nucleation state, solidification time 1 %), 1D vs 2D of equal cross-section "
         "(radial uniformity, nucleation time, evaporative cooling 10 %). The in-place 2D sweep breaks radial uniformity: known finding.",
    ref="6 C15", technique="Rocq proof over R (field identities) + paired-run oracle",
    note=TB % "c15" + "2D model tied by one-step correspondence only; tolerances 1e-9 / 1 % / 10 %."),
 "C16": dict(
    cat="proof",
    text="Theorems for every batch with nx,ny >= 2 (flat or pallet), both arrangements (props/C16.v, axiom-free): every vial's exposure "
         "lies in 0..corner value (lower/upper neighbour-count bounds proved from the topology theorem), hence exactly one position class; "
         "a group query contains a vial iff it names that class; 'all' is the union; statistics- and trajectory-table labels are that class; "
         "'side' = 'edge' on flat/hexagonal. Tied to the code by exact comparison of getVialGroup masks (all groups + random combinations), "
         "both tables' labels, the Snowfall table's labels, Snowfall's group filter (accessor values matched vial by vial) and recording-by-group for all shapes in the box, plus a direct oracle.",
    ref="6 C16", technique="Rocq proof (counting lemmas + finite case analysis) + exhaustive-small correspondence by vm_compute",
    note=TB % "c16" + "pandas .loc/isin/melt semantics modelled by `relabel`/`filter_vials`; Snowfall run sequentially with Nrep=2."),
 "C17": dict(
    cat="proof",
    text="Tables modelled as lists of rows that name the source of their value (model/Tables.v); theorems (props/C17.v, axiom-free) for all sizes: the statistics table has exactly 3N rows and "
         "holds each (vial, statistic) pair exactly once at position jN+v; the trajectory sub-sampling has stride >= 1 for any run length and requested sample count, the k-th sampled column is "
         "column k*stride, short runs keep every column; per sampled column the temperature rows of the stored vials precede their ice rows; the Snowfall table has Nrep*N*3 rows with (seed,vial,statistic) "
         "at i*3N+jN+v; accessors are exactly the stated filters. Tied to the code by cell-by-cell bitwise comparison of every table with stats / the state matrix at the model's positions "
         "(row order compared in Coq). PARTIAL: pandas' melt/concat/iloc semantics are modelled, not verified.",
    ref="6 C17", technique="Rocq proof (block-indexing lemmas over flat_map, stride arithmetic) + cell-by-cell table correspondence",
    note=TB % "c17" + "pandas internals trusted as modelled; group labels are C16's; Snowfall modes sampled."),
 "C18": dict(
    cat="proof",
    text="Model of the recording request (model/Record.v: index lists, substring search of group words in tuple order, 'random'/'uniform' keywords, re.findall digit runs, 10 percent default, "
         "uniform stride, union of several strings, rejection conditions) and theorems (props/C18.v, axiom-free): index lists record exactly the listed vials and are accepted iff in range; "
         "'uniform' records a subset of the group and never more than asked; 'random' (numpy's without-replacement contract as hypothesis) exactly as many, all inside the group; stored rows are the "
         "recorded vials in index order, temperatures first, each row the vial's own entry of the full state (so identical to the 'all' recording). Tied to the code by exact mask / accept-reject "
         "comparison on random well-formed and malformed requests and by bitwise comparison of stored rows with the 'all' recording.",
    ref="6 C18", technique="Rocq proof (list/nat arithmetic) + exact mask correspondence by vm_compute + row bit-identity oracle",
    note=TB % "c18" + "numpy choice contract and python string functions assumed as modelled; the generator restart of run() (C04 fix) makes 'random' recording non-perturbing."),
 "C19": dict(
    cat="proof",
    text="calculateDerived is TRANSLATED on every run (harness/translator.py, fail-closed) into generic Gallina definitions; props/C19.v proves about the generated "
         "definitions every defining relation of the statement (V = A h, mass = rho V, solute + water = mass, T_eq_l, hl, cp_solution, alpha, beta_solution, lambda_solution) "
         "and the exact acceptance condition of the enumeration checks; the layering model (model/Layer.v, _nestedDictUpdate) is proved to override exactly the named entries "
         "and to leave every other entry at its default, for trees of any depth. Correspondence: random partial YAML files - merged tree vs Coq model and deep-merge oracle, "
         "unknown-key report, binary64 instance of the generated definitions vs calculateDerived (2^-40), exported key list, NotImplementedError vs `rejected`; an AST scan shows "
         "no enumeration is rejected later in the simulators.",
    ref="6 C19", technique="translation of the source to Gallina + Rocq proof (ring, case analysis on strings, nested-tree induction) + float/tree correspondence by vm_compute",
    note=TB % "c19" + "translator whitelist (assignments, float(config[..]) reads, string tests, raise NotImplementedError); PyYAML and float() parsing trusted; leaf values opaque in the tree model."),
 "C20": dict(
    cat="proof",
    text="utils.py is TRANSLATED on every run into real-valued Coq definitions; props/C20.v proves about them: p_liquid strictly increasing on [123,332] K and p_ice on [110,273.16] K "
         "(positive derivative by auto_derive + interval, mean-value theorem), agreement at the triple point to 1e-4 in ln p, p_ice <= p_liquid on [123,273.15] K, flux zero at equilibrium, "
         "positive iff p_vap > p_vac, strictly increasing in p_vap, prefactor = kappa * 2/(2-kappa) * sqrt(m/(2 pi k_B)) increasing on (0,1]. Interval certificates tie the generated "
         "definitions to the Python functions' outputs at sampled arguments; a grid oracle searches for failing inputs. Vacuum window: in the 1D and 2D step models (model/Sn1D.v, model/Sn2D.v; one-step correspondence on VISF runs with the window inside the process) the evaporative flux is exactly zero outside the open window and a VISF step there IS the shelf step in both stages; VISF vs shelf runs are bit-identical outside the window and colder at the top inside.",
    ref="6 C20", technique="translation of the source to Gallina + Rocq real analysis (Coquelicot auto_derive, Interval) + interval certificates",
    note=TB % "c20" + "translator whitelist; numpy transcendental functions trusted to 1e-9 at certified points."),
}
NOT_YET = "check not built yet in this round (planned, see DESIGN.md section 6)"
ALL = ["C%02d" % i for i in range(1, 21)]


def main():
    checks = []
    for pid in ALL:
        if pid not in CHECKS:
            continue
        c = CHECKS[pid]
        checks.append(dict(
            property_id=pid,
            quick_cmd="./check %s --quick" % pid,
            thorough_cmd="./check %s --thorough" % pid,
            evidence_file="/verif/evidence/%s.json" % pid,
            replay_cmd_template="./check %s --replay {path}" % pid,
            engine="rocq",
            level_claimed=dict(category=c["cat"], text=c["text"], design_ref=c["ref"]),
            level_note=c["note"],
            technique=c["technique"],
        ))
    m = dict(
        version=1,
        setup_cmd="cd /verif && ./setup.sh",
        hooks=dict(guard="SPL_ETHZ_SNOW_VERIF",
                   enable="no instrumentation in /repo is needed; checks set SPL_ETHZ_SNOW_VERIF=1 in their own environment only",
                   baseline_off_cmd="cd /repo && env -u SPL_ETHZ_SNOW_VERIF /venv/bin/python -m pytest -ra -q -p no:cacheprovider --timeout=900 --continue-on-collection-errors",
                   source_commits=[], add_only=True),
        engines=[dict(name="rocq", path="/verif/coq", serves_properties=sorted(CHECKS),
                      kind_free_text="Coq 8.16.1 development (models, proofs, per-property theorem files) + python correspondence harness (/verif/harness) evaluating the model with vm_compute")],
        checks=checks,
        notes="Repairs of genuine defects are unguarded 'fix:' commits in /repo, listed in /verif/known_findings.json.",
        not_applicable=[dict(property_id=p, reason=NOT_YET) for p in ALL if p not in CHECKS],
    )
    json.dump(m, open(os.path.join(HERE, "MANIFEST.json"), "w"), indent=1)


if __name__ == "__main__":
    main()
