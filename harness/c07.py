"""C07  Spatial fields respect physical bounds and phase equilibrium."""
import random

import numpy as np

import common
import impl
import snowing_runs as sr
from common import coq_list

HEAD = ("From Coq Require Import ZArith List PrimFloat. Import ListNotations.\nFrom Snow Require Import Topology Sn1D Sn1DF.\n"
        "Definition c1 := %s.\nEval vm_compute in bad_cases sn1d_case_ok c1.\nDefinition c0 := %s.\nEval vm_compute in bad_cases sn0d_case_ok c0.\n")
HEAD2 = ("From Coq Require Import ZArith List PrimFloat. Import ListNotations.\nFrom Snow Require Import Topology Sn2D Sn2DF.\n"
         "Definition c2 := %s.\nEval vm_compute in bad_cases sn2d_case_ok c2.\n")


def coq_2d(rep, cases, labels, name):
    """one-step correspondence of the 2D in-place model on the given cases"""
    if not cases:
        return
    rc, out = common.coq_eval(name, HEAD2 % coq_list(cases), timeout=1200)
    blocks = common.eval_blocks(out)
    if rc != 0 or len(blocks) != 1:
        rep.violation("correspondence-run-2D", "Coq evaluation of the 2D model failed: " + out[-500:], dict(log=out[-2000:]), found_input=False); return
    bad = common.parse_nat_list(blocks[0])
    rep.coverage["traces_validated_against_impl_2D"] = len(cases) - len(bad)
    for b in bad:
        rep.violation("model-vs-impl 2D", "one-step correspondence model/Sn2D.v <-> _run_2D no longer checks on %s" % labels[b], dict(correspondence="model/Sn2D.v", run=labels[b]), found_input=False)


def bounds_oracle(rep, rec):
    S, c, lab = rec["S"], rec["S"].const, rec["label"]
    T = np.asarray(S.temp, dtype=float); W = np.asarray(S.iceMassFraction, dtype=float); sh = np.asarray(S.shelfTemp, dtype=float)
    t = np.asarray(S.time) * 3600
    n = len(t)
    Tf = T.reshape(n, -1); Wf = W.reshape(n, -1)
    Teql = c["T_eq"] - c["depression"]
    tn = float(S.results["t_nuc"].iloc[rec.get("row", 0)]) * 60
    if not (np.isfinite(Tf).all() and np.isfinite(Wf).all()):
        rep.violation("non-finite", "%s: non-finite values reported" % lab, dict(run=lab)); return
    hi = max(S.opcond.cooling["start"], Teql)
    if (Tf > hi + 1e-7).any():
        k, j = np.argwhere(Tf > hi + 1e-7)[0]
        rep.violation("too-warm", "%s: T=%r at row %d point %d exceeds max(initial, T_eq_l)=%r" % (lab, Tf[k, j], k, j, hi), dict(run=lab, row=int(k))); return
    if rec["conf"] != "VISF":
        lo = np.minimum.accumulate(np.minimum(sh, S.opcond.cooling["start"]))
        cold = Tf < lo[:, None] - 1e-7
        if cold.any():
            k, j = np.argwhere(cold)[0]
            rep.violation("too-cold", "%s: T=%r at row %d point %d is below the coldest shelf temperature applied so far %r" % (lab, Tf[k, j], k, j, lo[k]), dict(run=lab, row=int(k))); return
    ww = c["mass_water"] / c["mass"]
    if (Wf < -1e-12).any() or (Wf > ww + 1e-12).any():
        k, j = np.argwhere((Wf < -1e-12) | (Wf > ww + 1e-12))[0]
        rep.violation("ice-range", "%s: ice mass fraction %r at row %d point %d outside [0, %r]" % (lab, Wf[k, j], k, j, ww), dict(run=lab, row=int(k))); return
    before = t < tn - 1e-9
    if (Wf[before] != 0).any():
        rep.violation("ice-before-nucleation", "%s: ice reported before the nucleation time" % lab, dict(run=lab)); return
    warm_ice = (Wf > 1e-12) & (Tf > Teql + 1e-7)
    if warm_ice.any():
        k, j = np.argwhere(warm_ice)[0]
        rep.violation("ice-above-Teql", "%s: ice fraction %r at T=%r > T_eq_l=%r (row %d)" % (lab, Wf[k, j], Tf[k, j], Teql, k), dict(run=lab, row=int(k))); return
    # freezing-point-depression relation wherever ice is present
    has = Wf > 1e-12
    Tm = c["T_eq"] + 273.15
    liq = (c["mass_water"] - c["mass_solute"] * (c["k_f"] / c["M_s"]) / (Tm - (Tf + 273.15))) / c["mass"]
    off = has & (np.abs(Wf - liq) > 1e-7)
    if off.any():
        k, j = np.argwhere(off)[0]
        rep.violation("off-liquidus", "%s: ice fraction %r at T=%r, the depression relation gives %r (row %d)" % (lab, Wf[k, j], Tf[k, j], liq[k, j], k), dict(run=lab, row=int(k)))


def stability(rec):
    c, S, dt = rec["S"].const, rec["S"], rec["dt"]
    if rec["dim"] == "homogeneous":
        return dict(inside=True)
    if rec["dim"] == "spatial_2D":
        h = sr.max2d_hypotheses(S, dt)       # the hypotheses of C07_2D_cooling_step_max_principle
        return dict(h, inside=all(h.values()))
    lam = c["solid_fraction"] * c["lambda_s"] + (1 - c["solid_fraction"]) * c["lambda_w"]
    dz = c["height"] / 30
    F = lam / (c["cp_solution"] * c["rho_l"]) * dt / dz ** 2
    Bi = S.k["s0"] * dz / lam
    # hypotheses of C07_1D_run_bounds (inequalities between the constants of the run)
    sf = c["solid_fraction"]; whi = 1 - sf
    cp_of = lambda w: c["cp_s"] * sf + c["cp_i"] * w + c["cp_w"] * (1 - sf - w)
    lam_of = lambda w: c["lambda_i"] * w + c["lambda_w"] * (1 - w)
    cmin = min(cp_of(0), cp_of(whi)); lmin = min(lam_of(0), lam_of(whi)); lmax = max(lam_of(0), lam_of(whi))
    thm = bool(2 * F <= 1 and F * (1 + Bi) <= 1 and cmin > 0 and lmin > 0 and 2 * dt * lmax <= cmin * c["rho_l"] * dz ** 2
               and lmax - lmin <= 4 * lmin and S.k["s0"] * dz <= lmin and c["configuration"] != "VISF")
    return dict(F=F, Bi=Bi, inside=bool(2 * F <= 1 and F * (1 + Bi) <= 1), run_theorem_applies=thm)


def check(rep, tier):
    rng = random.Random(rep.seed)
    ok, msg = common.proof_stage(rep, "C07", ["theories/model/Sn1DF.vo", "theories/model/Sn2DF.vo"])
    rep.rule = ("Snowing runs in 0D / 1D / 2D, shelf / VISF / jacket, several geometries, with and without holds and controlled nucleation, every step saved; judged on every reported value: finite, "
                "T <= max(initial, T_eq_l), T >= coldest shelf so far (shelf / jacket only), 0 <= w_i <= water fraction, no ice before nucleation or above T_eq_l, w_i on the liquidus where present; "
                "the 0D and 1D step models are tied to the code by one-step binary64 correspondence on sampled saved steps (cooling incl. the vacuum window, nucleation, solidification); "
                "non-trivial = completed run")
    rep.trusted = ["Coq 8.16.1 kernel + vm_compute", "binary64 instance of model/Sn1D.v (tolerance 2^-30)", "evaporative flux values are computed by utils.py and passed to the model (C20 covers utils.py)",
                   "2D: one-step correspondence with the in-place sweep model model/Sn2D.v; cooling-stage max principle proved for that sweep, its hypotheses evaluated on every 2D run (counts inside/outside-stability 2D)"]
    recs = sr.catalogue(rng, tier, n0=3, n1=3 if tier == "quick" else 9, n2=1 if tier == "quick" else 5)
    recs += sr.catalogue(rng, tier, dims=("homogeneous", "spatial_1D"), cn=True, n0=1, n1=1)
    # fixed corpus: concentrated solution (depression 1.35 K), tall strongly cooled vial, 1 K/min from 10 C: at nucleation one grid point lies
    # between T_eq_l and T_m (liquid, not supercooled: it must stay free of ice)
    try:
        progW = dict(start=10, end=-50, rate=1.0 / 60, holds=[], t_tot=3600.0, dt=1.0)
        exW = {"solution": {"solid_fraction": 0.2}}
        SW = sr.make(dim="spatial_1D", conf="shelf", height=0.06, diameter=0.05, K=400, prog=progW, extra=exW)
        dtW, _ = sr.step_info(SW); progW["t_tot"] = float(int(dtW * 9800))
        SW = sr.make(dim="spatial_1D", conf="shelf", height=0.06, diameter=0.05, K=400, prog=progW, extra=exW)
        recW = dict(label="spatial_1D/shelf h=0.06 K=400 20 % solute, 1 K/min from 10 C (a grid point between T_eq_l and T_m at nucleation)", dim="spatial_1D", conf="shelf", S=SW, dt=dtW, prog=progW,
                    error=None, must_complete=True)
        sr.run(SW)
        TnW = np.asarray(SW.temp)[sr.split_run(SW, dtW)]
        rep.coverage["grid_points_between_Teql_and_Tm_at_nucleation"] = int(((TnW >= SW.const["T_eq"] - SW.const["depression"]) & (TnW < SW.const["T_eq"])).sum())
    except Exception as e:
        recW["error"] = e
    recs.append(recW)
    # 0D with a controlled-nucleation temperature close to the freezing point and a weak shelf contact: the product lags several K behind the shelf
    try:
        progC = dict(start=10, end=-50, rate=1.0 / 60, holds=[], t_tot=4 * 3600.0, dt=1.0)
        SC = sr.make(dim="homogeneous", conf="shelf", height=0.01, diameter=0.01, K=20, prog=progC, cnTemp=-3.0)
        recC = dict(label="homogeneous/shelf K=20 1 K/min cn=-3 (product lags behind the shelf)", dim="homogeneous", conf="shelf", S=SC, dt=0.1, prog=progC, cnTemp=-3.0, error=None, must_complete=True)
        sr.run(SC)
    except Exception as e:
        recC["error"] = e
    recs.append(recC)
    recs += sr.catalogue(rng, tier, dims=("spatial_1D",), confs=["shelf"], n1=1 if tier == "quick" else 3, wide_depression=True)
    recs += sr.catalogue(rng, tier, dims=("spatial_1D",) if tier == "quick" else ("homogeneous", "spatial_1D", "spatial_2D"), confs=["shelf"], n0=1, n1=1, n2=1, repoint=True)
    # a study of several repetitions on ONE object (sequential): the reported trajectory is the last repetition's
    for dim in (["spatial_1D"] if tier == "quick" else ["spatial_1D", "homogeneous", "spatial_2D"]):
        prog = dict(start=10, end=-50, rate=2.0 / 60, holds=[], t_tot=3600.0, dt=1.0)
        h, d = (0.01, 0.01) if dim == "homogeneous" else ((0.05, 0.05) if dim == "spatial_1D" else (0.05, 0.1))
        Kst, nrep = (300, 3) if dim == "spatial_2D" else (200, 5)      # 2D: wide vial (larger time step, the ~9800 saved steps cover the whole freezing)
        S = sr.make(dim=dim, conf="shelf", height=h, diameter=d, K=Kst, prog=prog, Nrep=nrep)
        dt, _ = sr.step_info(S)
        if dim != "homogeneous":
            prog["t_tot"] = float(int(dt * 9800)); S = sr.make(dim=dim, conf="shelf", height=h, diameter=d, K=Kst, prog=prog, Nrep=nrep)
        rec = dict(label="%s/shelf study Nrep=%d sequential (last repetition reported)" % (dim, nrep), dim=dim, conf="shelf", S=S, dt=dt, prog=prog, error=None, row=-1, study=True, must_complete=True)
        try:
            with impl.quiet():
                S.run(how="sequential")
        except Exception as e:
            rec["error"] = e
        recs.append(rec)
    c1, c0, l1, l0, c2, l2 = [], [], [], [], [], []
    replotted = set()
    for rec in recs:
        lab = rec["label"]
        if rec["error"] is not None:
            rep.case(lab, nontrivial=False); rep.count("raised")
            if rec.get("must_complete"):
                # a fixed corpus configuration (independent of the seed) whose process is long enough: it completes on the pinned tree
                rep.violation("corpus-run-raises", "%s: the run raises %r although the process is long enough for this vial" % (lab, rec["error"]), dict(run=lab, error=repr(rec["error"])))
            continue
        st = stability(rec)
        rep.case(lab, nontrivial=True, sample=dict(run=lab, stability=st) if len(rep.samples) < 4 else None)
        rep.count(rec["dim"] + "/" + rec["conf"]); rep.count(("inside-stability" if st["inside"] else "outside-stability") + (" 2D" if rec["dim"] == "spatial_2D" else ""))
        if st.get("run_theorem_applies"):
            rep.count("C07_1D_run_bounds applies (all hypotheses hold for the run's constants)")
        if st["inside"]:
            bounds_oracle(rep, rec)
            if rec["dim"] not in replotted and not rec.get("study"):
                # presenting the fields (both evolution plots) and reading them again: still finite, in bounds, no ice before nucleation
                replotted.add(rec["dim"])
                try:
                    import matplotlib.pyplot as plt
                    with impl.quiet():
                        for what in ("temperature", "ice_mass_fraction"):
                            rec["S"].plot_evolution(what); plt.close("all")
                    nv = len(rep.violations)
                    bounds_oracle(rep, rec); rep.count("re-read after plotting")
                    for v in rep.violations[nv:]:
                        v["key"] = "after-plot " + v["key"]; v["what"] = "after plot_evolution(): " + v["what"]
                except Exception as e:
                    rep.violation("plot-crash %s" % type(e).__name__, "%s: plot_evolution raises %r" % (lab, e), dict(run=lab))
        if rec.get("study"):
            continue
        if rec["dim"] == "spatial_1D":
            txt, info = sr.sn1d_case(rec["S"], rec["dt"], rng); c1.append(txt); l1.append(lab)
        elif rec["dim"] == "homogeneous":
            txt, info = sr.sn0d_case(rec["S"], rng); c0.append(txt); l0.append(lab)
        else:
            txt, info = sr.sn2d_case(rec["S"], rec["dt"], rng); c2.append(txt); l2.append(lab)
    rc, out = common.coq_eval("c07_0", HEAD % (coq_list(c1), coq_list(c0)), timeout=900)
    blocks = common.eval_blocks(out)
    if rc != 0 or len(blocks) != 2:
        rep.violation("correspondence-run", "Coq evaluation failed: " + out[-500:], dict(log=out[-2000:]), found_input=False)
    else:
        b1, b0 = common.parse_nat_list(blocks[0]), common.parse_nat_list(blocks[1])
        rep.coverage["traces_validated_against_impl"] = len(c1) + len(c0) - len(b1) - len(b0)
        for b in b1:
            rep.violation("model-vs-impl 1D", "one-step correspondence model/Sn1D.v <-> _run_1D no longer checks on %s" % l1[b], dict(correspondence="model/Sn1D.v", run=l1[b]), found_input=False)
        for b in b0:
            rep.violation("model-vs-impl 0D", "one-step correspondence model/Sn1D.v (0D) <-> _run_0D no longer checks on %s" % l0[b], dict(correspondence="model/Sn1D.v cool0/solid0/nuc0", run=l0[b]), found_input=False)
    coq_2d(rep, c2, l2, "c07_2d")
    if not ok:
        rep.violation("proof-broken", "proof obligations of C07 do not check: " + msg, dict(theorem="props/C07.v", log=msg), found_input=False)
