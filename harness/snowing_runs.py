"""Generation and execution of Snowing runs (0D / 1D / 2D) -- shared by C02 C07 C08 C11 C13 C14 C15 C20."""
import math
import time

import numpy as np

import gen_opcond
import impl


def make(dim="spatial_1D", conf="shelf", height=0.05, diameter=0.05, K=100.0, prog=None, cnTemp=None, Nrep=1, extra=None):
    sn = impl.snowing_mod()
    oc = impl.opcond_mod()
    over = {"snowing_parameters": {"dimensionality": dim, "configuration": conf},
            "vial": {"geometry": {"height": height, "diameter": diameter}}}
    for k, v in (extra or {}).items():
        over.setdefault(k, {}).update(v)
    prog = prog or dict(start=20, end=-50, rate=1.0 / 60, holds=[], t_tot=4 * 3600.0, dt=1.0)
    op = gen_opcond.build(prog, oc, cnTemp=cnTemp)
    S = sn.Snowing(k={"int": 0, "ext": 0, "s0": K, "s_sigma_rel": 0}, opcond=op, Nrep=Nrep, configPath=impl.cfg_path(over))
    return S


def step_info(S):
    c = S.const
    alpha_max = c["lambda_i"] / (c["cp_i"] * c["rho_l"]) if "lambda_i" in c else None
    if c["dimensionality"] == "homogeneous":
        dt = 0.1
    elif c["dimensionality"] == "spatial_1D":
        dz = c["height"] / 30
        dt = 0.4 * dz ** 2 / alpha_max
    else:
        dz = c["height"] / 30; dr = c["diameter"] / 2 / 15
        dt = (0.4 / alpha_max) * (dz ** 2 * dr ** 2) / (dr ** 2 + dz ** 2)
    return dt, int(math.ceil(S.opcond.t_tot / dt)) + 1


def run(S, seed=None):
    t0 = time.time()
    with impl.quiet():
        if seed is None:
            S.run()
        else:
            d = S.const["dimensionality"]
            {"homogeneous": S._run_0D, "spatial_1D": S._run_1D, "spatial_2D": S._run_2D}[d](seed=seed)
            S._simulationStatus = 1
    return time.time() - t0
