"""Generation and execution of Snowing runs (0D / 1D / 2D) -- shared by C02 C07 C08 C11 C13 C14 C15 C20."""
import math
import time

import numpy as np

import gen_opcond
import impl


def make_over(dim, conf, height, diameter, extra=None):
    over = {"snowing_parameters": {"dimensionality": dim, "configuration": conf},
            "vial": {"geometry": {"height": height, "diameter": diameter}}}
    def deep(d, u):
        for k, v in u.items():
            if isinstance(v, dict):
                deep(d.setdefault(k, {}), v)
            else:
                d[k] = v
    deep(over, extra or {})
    return over


def make(dim="spatial_1D", conf="shelf", height=0.05, diameter=0.05, K=100.0, prog=None, cnTemp=None, Nrep=1, extra=None):
    sn = impl.snowing_mod()
    oc = impl.opcond_mod()
    over = make_over(dim, conf, height, diameter, extra)
    prog = prog or dict(start=20, end=-50, rate=1.0 / 60, holds=[], t_tot=4 * 3600.0, dt=1.0)
    op = gen_opcond.build(prog, oc, cnTemp=cnTemp)
    S = sn.Snowing(k={"int": 0, "ext": 0, "s0": K, "s_sigma_rel": 0}, opcond=op, Nrep=Nrep, configPath=impl.cfg_path(over))
    return S


def step_info(S):
    c = S.const
    alpha_max = c["lambda_i"] / (c["cp_i"] * c["rho_l"]) if "lambda_i" in c else None
    if c["dimensionality"] == "homogeneous":
        dt = 0.1
    elif c["dimensionality"] == "spatial_1D":
        dz = c["height"] / 30
        dt = 0.4 * dz ** 2 / alpha_max
    else:
        dz = c["height"] / 30; dr = c["diameter"] / 2 / 15
        dt = (0.4 / alpha_max) * (dz ** 2 * dr ** 2) / (dr ** 2 + dz ** 2)
    return dt, int(math.ceil(S.opcond.t_tot / dt)) + 1


def run(S, seed=None):
    t0 = time.time()
    with impl.quiet():
        if seed is None:
            S.run()
        else:
            d = S.const["dimensionality"]
            {"homogeneous": S._run_0D, "spatial_1D": S._run_1D, "spatial_2D": S._run_2D}[d](seed=seed)
            S._simulationStatus = 1
    return time.time() - t0


# ---- observation of a finished run --------------------------------------------------------------------------
from common import fhex, coq_list, coq_bool


def p1d_text(S, dt):
    """the parameter record of model/Sn1D.v, computed exactly as snowing.py does"""
    c = S.const
    lam0 = c["solid_fraction"] * c["lambda_s"] + (1 - c["solid_fraction"]) * c["lambda_w"] if "lambda_s" in c else 0.0
    alpha0 = lam0 / (c["cp_solution"] * c["rho_l"])
    Tm = c["T_eq"] + 273.15
    vals = [c["height"] / 30, dt, S.k["s0"], lam0, alpha0, c["cp_s"], c["cp_i"], c["cp_w"], c["solid_fraction"],
            c.get("lambda_i", 0.0), c.get("lambda_w", 0.0), c["Dh"], c["k_f"], c["M_s"], c["rho_l"], c["V"], c["mass"], c["mass_water"], c["mass_solute"],
            Tm, Tm - c["depression"], c["cp_solution"]]
    return "(MkP1 %s)" % " ".join(fhex(v) for v in vals)


def split_run(S, dt):
    """indices of the saved rows: cooling rows 0..i_end, nucleation row i_end+1, solidification rows from i_end+2 (every step saved)"""
    t = np.asarray(S.time) * 3600.0
    dup = np.nonzero(np.isclose(np.diff(t), 0.0, atol=dt * 1e-6))[0]
    if len(dup) < 1:
        return None
    return int(dup[0])


def flist(v):
    return coq_list(fhex(float(x)) for x in np.ravel(v))


def flux_at(S, T_top_K, liquid):
    """evaporative vapour flux the 1D loop would compute for the top temperature (VISF only)"""
    import ethz_snow.utils as U
    c = S.const
    if c["configuration"] != "VISF":
        return 0.0
    p = U.vapour_pressure_liquid(T_top_K) if liquid else U.vapour_pressure_solid(T_top_K)
    return float(U.vapour_flux(c["kappa"], c["m_water"], c["k_B"], c["p_vac"], p, T_top_K, T_top_K))


def sn1d_case(S, dt, rng, ncool=25, nsolid=25):
    """Coq text of one sn1d_case_ok case built from the saved fields of a finished 1D run (every step saved)."""
    every_step_saved(S, dt)
    c = S.const
    T = np.asarray(S.temp) + 273.15
    W = np.asarray(S.iceMassFraction)
    sh = np.asarray(S.shelfTemp) + 273.15
    t = np.asarray(S.time) * 3600.0
    ie = split_run(S, dt)
    visf = c["configuration"] == "VISF"
    ts, td, dHe = (c["t_vac_start"], c["t_vac_duration"], c["Dh_evaporation"]) if visf else (0.0, 0.0, 0.0)
    T0 = np.full(T.shape[1], S.opcond.cooling["start"] + 273.15)
    cools = ["(%s, %s, %s, %s, %s)" % (flist(T0), fhex(sh[0]), fhex(0.0), fhex(flux_at(S, T0[-1], True)), flist(T[0]))]
    ks = sorted(set(rng.sample(range(ie), min(ie, ncool)) + [ie - 1])) if ie > 0 else []
    if visf:   # make sure steps inside the vacuum window are among the sampled ones
        inw = [k for k in range(ie) if ts * 3600 < t[k + 1] < (ts + td) * 3600]
        aft = [k for k in range(ie) if t[k + 1] >= (ts + td) * 3600]          # first steps after the window has closed
        ks = sorted(set(ks + inw[:8] + inw[-4:] + aft[:4]))
    for k in ks:
        cools.append("(%s, %s, %s, %s, %s)" % (flist(T[k]), fhex(sh[k + 1]), fhex(t[k + 1]), fhex(flux_at(S, T[k][-1], True)), flist(T[k + 1])))
    nucs = ["(%s, %s, %s)" % (flist(T[ie]), flist(T[ie + 1]), flist(W[ie + 1]))]
    ns = T.shape[0] - (ie + 2)
    js = sorted(set(rng.sample(range(ns), min(ns, nsolid)) + [0])) if ns > 0 else []
    if visf:
        inw = [j for j in range(ns) if ts * 3600 < t[ie + 2 + j] < (ts + td) * 3600]
        aft = [j for j in range(ns) if t[ie + 2 + j] >= (ts + td) * 3600]
        js = sorted(set(js + inw[:8] + inw[-4:] + aft[:4]))
    solids = []
    for j in js:
        a, b = ie + 1 + j, ie + 2 + j
        solids.append("(%s, %s, %s, %s, %s, %s, %s)" % (flist(T[a]), flist(W[a]), fhex(sh[b]), fhex(t[b]), fhex(flux_at(S, T[a][-1], False)), flist(T[b]), flist(W[b])))
    return "(%s, %s, %s, %s, %s, %s, %s, %s)" % (p1d_text(S, dt), coq_bool(visf), fhex(ts), fhex(td), fhex(dHe), coq_list(cools), coq_list(nucs), coq_list(solids)), \
        dict(i_end=ie, cooling_steps_checked=len(cools), solid_steps_checked=len(solids))


def sn0d_case(S, rng, n=40):
    c = S.const
    dt = 0.1
    T = np.asarray(S.temp) + 273.15
    W = np.asarray(S.iceMassFraction)
    sh = np.asarray(S.shelfTemp) + 273.15
    t_nuc = float(S.results["t_nuc"].iloc[0]) * 60.0
    ie = int(round(t_nuc / dt))        # Nt_cool_end: rows 0..ie-1 cooling, row ie = first solid row
    T0 = S.opcond.cooling["start"] + 273.15
    cools = ["(%s, %s, %s)" % (fhex(T0), fhex(sh[0]), fhex(T[0]))]
    for k in sorted(rng.sample(range(max(ie - 1, 1)), min(max(ie - 1, 1), n))):
        if k + 1 < ie:
            cools.append("(%s, %s, %s)" % (fhex(T[k]), fhex(sh[k + 1]), fhex(T[k + 1])))
    # nucleation temperature = T after the step ie (not stored in temp); it is reported as T_nuc
    Tn = float(S.results["T_nuc"].iloc[0]) + 273.15
    solids = []
    ns = len(T) - ie
    for j in sorted(rng.sample(range(1, ns), min(ns - 1, n))):
        a, b = ie + j - 1, ie + j
        solids.append("(%s, %s, %s, %s, %s)" % (fhex(T[a]), fhex(W[a]), fhex(sh[b]), fhex(T[b]), fhex(W[b])))
    A = c["A"]
    nucs = ["(%s, %s, %s, %s)" % (fhex(Tn), fhex(sh[ie]), fhex(T[ie]), fhex(W[ie]))]
    return "(%s, %s, %s, %s, %s)" % (p1d_text(S, dt), fhex(A), coq_list(cools), coq_list(nucs), coq_list(solids)), dict(i_end=ie, Tn=Tn)


# ---- a small catalogue of runs per tier -------------------------------------------------------------------
def catalogue(rng, tier, dims=("homogeneous", "spatial_1D", "spatial_2D"), confs=None, cn=False, n0=4, n1=3, n2=1, early_vacuum=False, late_vacuum=False, wide_depression=False, repoint=False):
    """yield dict(label, S, dt, nsteps, error) for randomly drawn configurations that keep <= 10000 steps
    (so that the spatial models save every step)"""
    out = []
    plan = []
    if "homogeneous" in dims:
        plan += [("homogeneous", "shelf")] * n0
    if "spatial_1D" in dims:
        cs = confs or ["shelf", "VISF", "shelf"]
        plan += [("spatial_1D", cs[i % len(cs)]) for i in range(n1)]
    if "spatial_2D" in dims:
        cs = confs or ["shelf", "jacket", "VISF"]
        plan += [("spatial_2D", cs[i % len(cs)]) for i in range(n2)]
    for pi, (dim, conf) in enumerate(plan):
        if dim == "homogeneous":
            h, d, K = rng.choice([0.01, 0.02]), 0.01, rng.choice([20, 50, 100])
            tt = rng.choice([1.5, 2.0, 3.0]) * 3600
            over = {"vial": {"geometry": {"length": rng.choice([0.01, 0.015]), "width": 0.01}}}
        elif dim == "spatial_1D":
            h, d, K = rng.choice([0.05, 0.06, 0.08]), 0.05, rng.choice([150, 200, 400])
            tt = None
            over = {}
        else:
            h = rng.choice([0.05, 0.06]); d = rng.choice([0.08, 0.12, 0.2]); K = rng.choice([200, 400])
            tt = None
            over = {}
        start = rng.choice([20, 10, 5]); end = rng.choice([-50, -45, -60])
        holds = [] if rng.random() < 0.5 else [{"duration": rng.choice([300, 900, 1800]), "temp": rng.choice([-5, -8, -10])}]
        prog = dict(start=start, end=end, rate=rng.choice([1.0, 2.0]) / 60, holds=holds, t_tot=tt or 3600.0, dt=1.0)
        if dim != "homogeneous":
            # at most ~10000 steps are simulated (every step saved): cool fast enough for the vial to solidify within them
            prog["rate"] = rng.choice([2.0, 3.0]) / 60
            for hd in holds:
                hd["duration"] = min(hd["duration"], 600)
        if conf == "VISF":
            over["VISF"] = {"t_vac_start": rng.choice([0.15, 0.2, 0.3]), "t_vac_duration": rng.choice([0.1, 0.3]), "kappa": rng.choice([0.01, 0.05])}
        if conf == "VISF" and early_vacuum:
            # strong evaporation while the bottom of the vial is still warm: the top is the coldest / most supercooled region
            # (slow ramp with a hold just below 0 C, weak shelf contact, tall vial)
            over["VISF"] = {"t_vac_start": 0.1, "t_vac_duration": 0.5, "kappa": 0.05}
            prog.update(start=10, rate=1.0 / 60, holds=[{"duration": 600, "temp": -5}]); K = 150; h = max(h, 0.06)
        if conf == "VISF" and late_vacuum:
            # the vacuum window opens only after nucleation: evaporation acts during the solidification stage
            over["VISF"] = {"t_vac_start": 0.75, "t_vac_duration": rng.choice([0.1, 0.2]), "kappa": 0.05}
            prog.update(start=10, rate=2.0 / 60, holds=[])
        if rng.random() < 0.4:
            over.setdefault("solution", {})["solid_fraction"] = rng.choice([0.02, 0.05, 0.1])
        if pi % 2 == 1 or rng.random() < 0.25:
            # (every second entry, and some more) other solution / water constants (heavy water melts at 3.82 C; other solute, density, kinetics)
            sol = over.setdefault("solution", {})
            sol["T_eq"] = rng.choice([3.82, -0.5, -2.0, 1.0]); sol["rho_l"] = rng.choice([1000, 1050, 1105])
            sol["k_f"] = rng.choice([1.853, 1.5, 2.05]); sol["M_s"] = rng.choice([0.3423, 0.18, 0.0584]); sol["cp_s"] = rng.choice([1240, 1500])
            over.setdefault("water", {})["cp_i"] = rng.choice([2108, 2050])
            over.setdefault("kinetics", {})["a"] = rng.choice([29.0, 26.0, 31.0])
            over["kinetics"]["c"] = rng.choice([1.0, 0.5, 0.0])      # weight of the vial-dependent part of the pre-exponential factor
        if wide_depression:
            # concentrated solution (depression > 1 K) in a tall, strongly cooled vial: at nucleation only part of the vial is
            # supercooled and some grid point lies between T_eq_l and T_m
            over.setdefault("solution", {})["solid_fraction"] = 0.2
            prog.update(start=rng.choice([10, 15]), rate=rng.choice([1.0, 2.0]) / 60, holds=[]); K = 400; h = 0.06
        if isinstance(cn, (int, float, np.integer, np.floating)) and not isinstance(cn, bool):
            cnT = cn                     # an explicit trigger temperature (0 included; python or numpy scalar)
            if dim == "homogeneous" and cn > -2:
                # hardly any supercooling at the trigger: freezing takes long -- strong shelf contact and a long process so that the run completes
                K = 100; prog["t_tot"] = 5 * 3600.0; tt = prog["t_tot"]
        else:
            cnT = rng.choice([-4, -6, -8]) if cn else None
        S = make(dim=dim, conf=conf, height=h, diameter=d, K=K, prog=prog, cnTemp=cnT, extra=over)
        if tt is None:
            dt, _ = step_info(S)
            prog["t_tot"] = float(int(dt * rng.choice([9000, 9500, 9900])))
            S = make(dim=dim, conf=conf, height=h, diameter=d, K=K, prog=prog, cnTemp=cnT, extra=over)
        dt, n = step_info(S)
        hist = ""
        if repoint:
            # history: the object is BUILT with another configuration file (other concentration, kinetics, vacuum window) and its
            # configPath is then re-pointed to the configuration under test; everything must be as for a fresh object
            import copy
            overA = copy.deepcopy(over)
            solA = overA.setdefault("solution", {})
            solA["solid_fraction"] = 0.03 if over.get("solution", {}).get("solid_fraction", 0.05) != 0.03 else 0.08
            solA["T_eq"] = over.get("solution", {}).get("T_eq", 0) + 1.5
            overA.setdefault("kinetics", {}).update(a=23.0, b=24.0)
            if conf == "VISF":
                v = dict(over.get("VISF", {}))
                overA["VISF"] = dict(v, t_vac_start=v.get("t_vac_start", 0.75) + 0.35, kappa=min(1.0, v.get("kappa", 0.01) * 4))
            S = make(dim=dim, conf=conf, height=h, diameter=d, K=K, prog=prog, cnTemp=cnT, extra=overA)
            S.configPath = impl.cfg_path(make_over(dim, conf, h, d, over))
            hist = " history: built with another configuration file, configPath re-pointed"
        rec = dict(label="%s/%s h=%g d=%g K=%g %s cn=%r%s" % (dim, conf, h, d, K, {k: prog[k] for k in ("start", "end", "rate", "holds", "t_tot")}, cnT, hist),
                   dim=dim, conf=conf, S=S, dt=dt, nsteps=n, prog=prog, cnTemp=cnT, over=over, height=h, diameter=d, K=K, error=None)
        try:
            rec["wall"] = run(S)
        except Exception as e:
            rec["error"] = e
        out.append(rec)
    return out


# ---- 2D observation ------------------------------------------------------------------------------------------
def glist(g):
    return coq_list(flist(row) for row in g)


def p2d_text(S, dt):
    c = S.const
    lam0 = c["solid_fraction"] * c["lambda_s"] + (1 - c["solid_fraction"]) * c["lambda_w"]
    alpha0 = lam0 / (c["cp_solution"] * c["rho_l"])
    Tm = c["T_eq"] + 273.15
    K = S.k["s0"]
    Kw = (1 / K + c["air_gap"] / c["lambda_air"]) ** (-1) if c["configuration"] == "jacket" else 0.0
    vals = [c["height"] / 30, (c["diameter"] / 2) / 15, dt, K, Kw, lam0, alpha0, c["cp_s"], c["cp_i"], c["cp_w"], c["solid_fraction"], c["lambda_i"], c["lambda_w"],
            c["Dh"], c["k_f"], c["M_s"], c["rho_l"], c["V"], c["mass_water"], c["mass_solute"], Tm, Tm - c["depression"]]
    return "(MkP2 %s)" % " ".join(fhex(v) for v in vals)


def max2d_hypotheses(S, dt):
    """the hypotheses of C07_2D_cooling_step_max_principle evaluated on a real 2D run (dict of name -> bool)"""
    c = S.const
    lam0 = c["solid_fraction"] * c["lambda_s"] + (1 - c["solid_fraction"]) * c["lambda_w"]
    a = lam0 / (c["cp_solution"] * c["rho_l"]) * dt
    dz, dr = c["height"] / 30, (c["diameter"] / 2) / 15
    K = S.k["s0"]
    Kw = (1 / K + c["air_gap"] / c["lambda_air"]) ** (-1) if c["configuration"] == "jacket" else 0.0
    r = np.linspace(0, c["diameter"] / 2, 15)
    return dict(cfl=4 * a / dr ** 2 + 2 * a / dz ** 2 <= 1, radius=bool(np.all(dr <= 2 * r[1:])),
                biot_shelf=0 <= K * dz / lam0 <= 1, biot_wall=0 <= Kw * dr / lam0 <= 1)


def flux_2d(S, Ttop, liquid_stage=True):
    """vapour flux per column as the 2D loops compute it: liquid correlation while the surface is liquid (cooling stage), ice correlation in the
    solidification stage -- as the 1D model does; the window test is the model's"""
    import ethz_snow.utils as U
    c = S.const
    if c["configuration"] != "VISF":
        return np.zeros_like(Ttop)
    p = U.vapour_pressure_liquid(Ttop) if liquid_stage else U.vapour_pressure_solid(Ttop)
    return U.vapour_flux(c["kappa"], c["m_water"], c["k_B"], c["p_vac"], p, Ttop, Ttop)


def resim_cooling_1d(S, dt, seed=0, max_steps=200000):
    """An independent numpy re-statement of the 1D cooling stage (shelf / jacket-free, no evaporation): every step is simulated and the hazard
    integral accumulated on EVERY step, whatever the run's saving stride.  Returns (nucleation step, field at that step [K], E history length)."""
    import scipy.integrate as si
    from scipy.stats import norm
    c = S.const
    Nz = 30
    z = np.linspace(0, c["height"], Nz)
    dz = c["height"] / Nz
    lam0 = c["solid_fraction"] * c["lambda_s"] + (1 - c["solid_fraction"]) * c["lambda_w"]
    cfac = lam0 / (c["cp_solution"] * c["rho_l"]) * dt / dz ** 2
    K = S.k["s0"]
    Teql = c["T_eq"] + 273.15 - c["depression"]
    st = np.random.get_state()
    np.random.seed(2024); kb = 10 ** (-(c["a"] + norm.ppf(np.random.rand()) * c["c"]))
    np.random.seed(seed); F = np.random.random()
    np.random.set_state(st)
    shelf = np.asarray(S.opcond.tempProfile(dt), dtype=float) + 273.15
    T = np.full(Nz, S.opcond.cooling["start"] + 273.15)
    E = 0.0
    for i, Tsh in enumerate(shelf[:max_steps]):
        Tb = T[0] + K * (Tsh - T[0]) * dz / lam0
        new = np.empty(Nz)
        new[0] = T[0] + cfac * (T[1] - 2 * T[0] + Tb)
        new[1:-1] = T[1:-1] + cfac * (T[2:] - 2 * T[1:-1] + T[:-2])
        new[-1] = T[-1] + cfac * (T[-1] - 2 * T[-1] + T[-2])
        T = new
        J = np.where(T < Teql, kb * np.abs(Teql - T) ** c["b"], 0.0)
        E += c["A"] * si.simpson(J, x=z) * dt
        if 1 - np.exp(-E) > F:
            return i, T, i + 1
    return None, T, len(shelf)


def every_step_saved(S, dt):
    """the one-step cases need consecutive saved rows (runs of at most 10000 steps)"""
    t = np.asarray(S.time) * 3600.0
    if len(t) > 2 and abs((t[1] - t[0]) - dt) > 1e-6 * dt:
        raise RuntimeError("harness: this run was saved with a stride (%.6g s between rows, dt = %.6g s): one-step cases need every step" % (t[1] - t[0], dt))


def sn2d_case(S, dt, rng, ncool=6, nsolid=6):
    every_step_saved(S, dt)
    c = S.const
    T = np.asarray(S.temp) + 273.15
    W = np.asarray(S.iceMassFraction)
    sh = np.asarray(S.shelfTemp) + 273.15
    t = np.asarray(S.time) * 3600.0
    ie = split_run(S, dt)
    Nz, Nr = T.shape[1], T.shape[2]
    r = np.linspace(0, c["diameter"] / 2, Nr)
    T0 = np.full((Nz, Nr), S.opcond.cooling["start"] + 273.15)
    visf = c["configuration"] == "VISF"
    ks = sorted(set(rng.sample(range(ie), min(ie, ncool)) + [ie - 1])) if ie > 0 else []
    if visf:
        inw = [k for k in range(ie) if c["t_vac_start"] * 3600 < t[k + 1] < (c["t_vac_start"] + c["t_vac_duration"]) * 3600]
        aft = [k for k in range(ie) if t[k + 1] >= (c["t_vac_start"] + c["t_vac_duration"]) * 3600]
        ks = sorted(set(ks + inw[:2] + inw[-1:] + aft[:2]))
    cools = ["(%s, %s, %s, %s, %s)" % (glist(T0), fhex(sh[0]), fhex(0.0), flist(flux_2d(S, T0[-1])), glist(T[0]))]
    for k in ks:
        cools.append("(%s, %s, %s, %s, %s)" % (glist(T[k]), fhex(sh[k + 1]), fhex(t[k + 1]), flist(flux_2d(S, T[k][-1])), glist(T[k + 1])))
    ns = T.shape[0] - (ie + 2)
    js = sorted(set([0, 1] + rng.sample(range(ns), min(ns, nsolid)))) if ns > 1 else []
    if visf:
        inw = [j for j in range(ns) if c["t_vac_start"] * 3600 < t[ie + 2 + j] < (c["t_vac_start"] + c["t_vac_duration"]) * 3600]
        aft = [j for j in range(ns) if t[ie + 2 + j] >= (c["t_vac_start"] + c["t_vac_duration"]) * 3600]
        js = sorted(set(js + inw[:2] + inw[-1:] + aft[:2]))
    solids = []
    for j in js:
        a, b = ie + 1 + j, ie + 2 + j
        solids.append("(%s, %s, %s, %s, %s, %s, %s, %s)" % (coq_bool(j > 0), glist(T[a]), glist(W[a]), fhex(sh[b]), fhex(t[b]), flist(flux_2d(S, T[a][-1], False)), glist(T[b]), glist(W[b])))
    ts, td, dHe = (c["t_vac_start"], c["t_vac_duration"], c["Dh_evaporation"]) if visf else (0.0, 0.0, 0.0)
    return "(%s, %d%%nat, %d%%nat, %s, %s, %s, %s, %s, %s, %s)" % (p2d_text(S, dt), Nz, Nr, flist(r), coq_bool(visf), fhex(ts), fhex(td), fhex(dHe), coq_list(cools), coq_list(solids)), \
        dict(i_end=ie, cooling_steps_checked=len(cools), solid_steps_checked=len(solids))
