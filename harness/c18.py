"""C18  State recording stores exactly the requested vials, unperturbed."""
import random

import numpy as np

import common
import impl
import flake_runs as fr
from common import zlit, coq_list, coq_bool

ARR = {"square": "Square", "hexagonal": "Hexagonal"}
HEAD = ("From Coq Require Import ZArith List Bool String. Import ListNotations.\nFrom Snow Require Import Topology Groups Record.\nOpen Scope string_scope.\nOpen Scope Z_scope.\n"
        "Fixpoint eqbl (a b : list bool) := match a, b with [], [] => true | x :: r, y :: s => Bool.eqb x y && eqbl r s | _, _ => false end.\n"
        "Definition gm a nx ny nz (g : group) := mask_table a nx ny nz [match g with Corner => 1 | Edge => 2 | Side => 3 | Core => 4 | Center => 5 | All => 6 end].\n"
        "(* (arrangement, shape, request: inl index list | inr strings, observed: None = rejected | Some mask, the impl's random choice if any) *)\n"
        "Definition case_ok (c : arrangement * Z * Z * Z * (list Z + list string) * option (list bool) * list Z) : bool :=\n"
        "  let '(a, nx, ny, nz, req, obs, chosen) := c in let N := nvials nx ny nz in\n"
        "  let r := match req with inl l => by_index N l | inr ss => interp_all N (gm a nx ny nz) (fun _ _ => chosen) ss end in\n"
        "  match r, obs with Ok m, Some o => eqbl m o | Err, None => true | _, _ => false end.\n"
        "Definition cases := %s.\nEval vm_compute in bad_cases case_ok cases.\n")


def gen_request(rng, N):
    r = rng.random()
    if r < 0.2:
        k = rng.randint(0, min(N, 5))
        l = [rng.randrange(N) for _ in range(k)]
        if rng.random() < 0.25:
            l.append(rng.choice([N, N + 3, -1]))
        return ("idx", rng.choice([list, tuple])(l))
    words = ["corner", "edge", "core", "side", "all", "center"]
    def one():
        g = rng.choice(words + ["", ""])
        kw = rng.choice(["", "", "random", "uniform"])
        num = rng.choice(["", "", str(rng.randint(0, N + 2)), str(rng.randint(1, 4))])
        sep = rng.choice(["_", ".", "", "-"])
        parts = [p for p in (g, kw, num) if p]
        rng.shuffle(parts)
        s = sep.join(parts)
        if rng.random() < 0.15:
            s = s.upper() if rng.random() < 0.5 else s.capitalize()
        if rng.random() < 0.06:
            s = rng.choice(["gibberish", "2random3", "", "edge_random_2_3", "7"])
        return s
    if r < 0.75:
        return ("str", one())
    if r < 0.85:
        l = [one() for _ in range(rng.randint(1, 3))]
        if rng.random() < 0.2:
            # a malformed entry before or after entries that may already cover the batch
            l = rng.choice([["all"], ["corner", "edge", "core"], l]) + [rng.choice(["gibberish", "2random3", "edge_random_2_3", "nonsense_1"])]
            if rng.random() < 0.3:
                l.reverse()
        return ("strs", l)
    if r < 0.95:
        # the same group named more than once, once narrowed by random / uniform: the request is the UNION of its entries
        g = rng.choice(["corner", "edge", "core", "all"])
        l = ["%s_%s_%d" % (g, rng.choice(["random", "uniform"]), rng.randint(1, 3)), g]
        if rng.random() < 0.5:
            l.append(rng.choice(["corner", "edge", "core"]))
        rng.shuffle(l)
        return ("strs", rng.choice([list, tuple])(l))
    if rng.random() < 0.5 and N >= 3:
        # numeric but not integer indices: rejected, never silently truncated
        f = rng.choice([[0.5, 1.5], [0, 1.25], (float(N - 1) - 0.5,), list(np.linspace(0, N - 1, 4) + 0.25), [np.float64(0.75)]])
        return ("bad", f)
    return ("bad", rng.choice([3.5, [0, "edge"], {"a": 1}, ["edge", 1]]))


def check(rep, tier):
    rng = random.Random(rep.seed)
    sf = impl.snowflake_mod(); oc = impl.opcond_mod()
    ok, msg = common.proof_stage(rep, "C18", ["theories/model/Record.vo"])
    n = 260 if tier == "quick" else 3000
    rep.rule = ("random recording requests (index lists incl. duplicates / out-of-range / negative, group words, combinations, 'random'/'uniform' with and without counts incl. 0 and more than "
                "available, mixed case, separators, malformed strings and types) on random batch shapes, both arrangements; compared: constructor accepts/rejects and the recorded mask vs "
                "model/Record.v (the implementation's random choice is passed to the model, and checked against numpy's without-replacement contract), stored rows vs the 'all' recording; "
                "non-trivial = accepted request selecting a proper non-empty subset")
    rep.trusted = ["Coq 8.16.1 kernel + vm_compute", "numpy Generator.choice(replace=False) returns distinct elements of its argument", "re.findall / str.lower / substring search as modelled",
                   "binary64 int(np.ceil(0.1*N)) reproduced with PrimFloat"]
    op = oc.OperatingConditions(t_tot=60, cooling={"rate": 0.5, "start": 0, "end": -20})
    cases, meta = [], []
    for i in range(n):
        arr = rng.choice(["square", "hexagonal"])
        shape = (rng.randint(1, 5), rng.randint(1, 5), rng.choice([1, 1, 2]))
        N = shape[0] * shape[1] * shape[2]
        kind, req = gen_request(rng, N)
        k = {"int": 5, "ext": 5, "s0": 20, "s_sigma_rel": rng.choice([0, 0.1, 0.3])}     # random shelf variability: recording must not perturb it
        if i < 6:
            # always: 'random' recording requests on a flat shelf WITH random shelf variability (the recording draws must not disturb the run)
            shape = (4, 4, 1); N = 16; k["s_sigma_rel"] = 0.3
            kind, req = "strs" if i % 3 == 2 else "str", ["random_3", "core_random_2", ["corner", "edge_random_2"], "edge.random.4", "random2", ("all_random_5", "corner")][i]
        if 6 <= i < 12:
            # always: a malformed entry next to entries that already select every vial (validation must not depend on what the other entries cover)
            shape = [(3, 3, 1), (3, 3, 1), (3, 3, 1), (3, 3, 1), (2, 2, 1), (3, 2, 2)][i - 6]; N = shape[0] * shape[1] * shape[2]; arr = ["square", "hexagonal"][i % 2]
            kind, req = "strs", [["all", "gibberish"], ("all", "2random3"), ["corner", "edge", "core", "nonsense"], ["gibberish", "all"], ["corner", "gibberish"], ("all", "edge_random_2_3")][i - 6]
        chosen, obs, exc = [], None, None
        import ethz_snow.snowflake as SFM
        try:
            with impl.quiet():
                log = []
                class Gen(fr.CountingRng):
                    def choice(self_, a, size=None, replace=True, **kw):
                        r = self_.inner.choice(a, size=size, replace=replace, **kw)
                        log.append((list(map(int, a)), size, replace, [int(x) for x in np.atleast_1d(r)]))
                        return r
                with fr.patched_rng(Gen):
                    S = sf.Snowflake(k=dict(k), N_vials=shape, configPath=impl.arrangement_cfg(arr), opcond=op, dt=20, storeStates=req, seed=i)
                obs = [bool(b) for b in S._storageMask]
        except Exception as e:
            exc = e
        rep.case(repr((arr, shape, req)), nontrivial=obs is not None and 0 < sum(obs) < N, sample=dict(arrangement=arr, shape=shape, request=req) if i < 5 else None)
        rep.count(kind); rep.count("rejected" if obs is None else "accepted")
        if kind == "bad":
            if obs is not None:
                rep.violation("meaningless-accepted", "storeStates=%r is accepted" % (req,), dict(shape=shape, request=req))
            continue
        # numpy contract of the random choices made
        for (a, size, replace, r) in log:
            chosen = r
            if replace is not False or len(set(r)) != len(r) or not set(r) <= set(a) or len(r) != size:
                rep.violation("choice-contract", "choice(%s, size=%r, replace=%r) -> %s" % (a, size, replace, r), dict(request=req))
        if len(log) > 1:
            continue      # several random sub-selections in one request: the model takes a single choice oracle
        if kind == "idx":
            rq = "(inl %s)" % coq_list(zlit(x) for x in req)
        else:
            ss = [req] if kind == "str" else list(req)
            if any('"' in s for s in ss):
                continue
            rq = "(inr %s)" % coq_list('"%s"' % s.lower() for s in ss)
        cases.append("(%s, %s, %s, %s, %s, %s, %s)" % (ARR[arr], zlit(shape[0]), zlit(shape[1]), zlit(shape[2]), rq,
                                                      "None" if obs is None else "(Some %s)" % coq_list(coq_bool(b) for b in obs), coq_list(zlit(x) for x in chosen)))
        meta.append((arr, shape, req, None if obs is None else [j for j, b in enumerate(obs) if b], repr(exc)))
        # stored rows identical to the full recording, in index order, temperatures first
        if obs is not None and any(obs) and i % 3 == 0:
            with impl.quiet():
                with fr.patched_rng(fr.CountingRng):
                    S.run()
                    Sall = sf.Snowflake(k=dict(k), N_vials=shape, configPath=impl.arrangement_cfg(arr), opcond=op, dt=20, storeStates="all", seed=i)
                    Sall.run()
            m = np.array(obs)
            if not (np.array_equal(S.X_T, Sall.X_T[m]) and np.array_equal(S.X_sigma, Sall.X_sigma[m]) and S.X_T.shape[0] == m.sum()):
                rep.violation("rows-differ", "rows stored for request %r on %s %s differ from the rows of the same vials in the 'all' recording" % (req, arr, shape),
                              dict(arrangement=arr, shape=shape, request=req))
    bad = []
    for ci in range(0, len(cases), 150):
        rc, out = common.coq_eval("c18_%d" % ci, HEAD % coq_list(cases[ci:ci + 150]), timeout=900)
        blocks = common.eval_blocks(out)
        if rc != 0 or len(blocks) != 1:
            rep.violation("correspondence-run", "Coq evaluation of the recording model failed: " + out[-500:], dict(log=out[-2000:]), found_input=False); continue
        bad += [meta[ci + b] for b in common.parse_nat_list(blocks[0])]
    rep.coverage["traces_validated_against_impl"] = len(cases) - len(bad)
    for (arr, shape, req, sel, exc) in bad[:4]:
        rep.violation("request-vs-model %s" % ("rejected" if sel is None else "mask"),
                      "storeStates=%r on %s %s: implementation %s; model/Record.v says otherwise" % (req, arr, shape, "rejects (%s)" % exc if sel is None else "records vials %s" % sel),
                      dict(arrangement=arr, shape=shape, request=req, recorded=sel))
    if not ok:
        rep.violation("proof-broken", "proof obligations of C18 do not check: " + msg, dict(theorem="props/C18.v", log=msg), found_input=False)
