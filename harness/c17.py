"""C17  Tabular exports reproduce the simulated numbers exactly."""
import random

import numpy as np

import common
import impl
import flake_runs as fr
from common import coq_list

VARS = ["t_nucleation", "T_nucleation", "t_solidification"]
HEAD = ("From Coq Require Import ZArith List Bool. Import ListNotations.\nFrom Snow Require Import Topology Tables.\n"
        "Fixpoint eqn (a b : list nat) := match a, b with [], [] => true | x :: r, y :: s => Nat.eqb x y && eqn r s | _, _ => false end.\n"
        "(* (N, stats plan (vial,var) flattened; stored vials, ncols, n_samples, traj plan (sigma?,vial,col) flattened; Nrep, snowfall plan flattened) *)\n"
        "Definition case_ok (c : nat * list nat * list nat * nat * nat * list nat * nat * list nat) : bool :=\n"
        "  let '(N, sp, stored, ncols, ns, tp, Nrep, fp) := c in\n"
        "  eqn (flat_map (fun vj : nat * nat => [fst vj; snd vj]) (stats_rows N)) sp\n"
        "  && eqn (flat_map (fun x : bool * nat * nat => let '(s, v, c) := x in [if s then 1 else 0; v; c]) (traj_rows stored ncols ns)) tp\n"
        "  && eqn (flat_map (fun x : nat * nat * nat => let '(i, v, j) := x in [i; v; j]) (snowfall_rows Nrep N)) fp.\n"
        "Definition cases := %s.\nEval vm_compute in bad_cases case_ok cases.\n")


def same(a, b):
    a, b = float(a), float(b)
    return (np.isnan(a) and np.isnan(b)) or a == b


def same_arr(a, b):
    return np.array_equal(np.asarray(a), np.asarray(b), equal_nan=True)


def _run_study(SF, how):
    # unordered pool APIs may deliver in any order: use that freedom against the caller (harness-side wrapper)
    with impl.adversarial_pool():
        SF.run(how=how)


def check(rep, tier):
    rng = random.Random(rep.seed)
    ok, msg = common.proof_stage(rep, "C17", ["theories/model/Tables.vo"])
    nruns = 24 if tier == "quick" else 240
    rep.rule = ("random Snowflake runs (2 steps to several hundred) with recorded subsets, to_frame(n_timeSteps) for n in {1,2,4,250,ncols,ncols+500,random}: every cell of the statistics and "
                "trajectory tables is compared bit-for-bit (NaN-aware) with Snowflake.stats / the stored state matrix at the position given by the Coq table model; Snowfall tables "
                "(Nrep 1..6, three modes) cell by cell against Snowfall.stats, accessor functions against direct filters; non-trivial = a table with at least one nucleated vial")
    rep.trusted = ["Coq 8.16.1 kernel + vm_compute", "pandas melt / concat / iloc block assignment / isin semantics as modelled (row order)", "group labels are C16's"]
    from ethz_snow import snowfall as sfall
    cases = []
    for ri in range(nruns):
        cfg = fr.gen_config(rng, max_vials=16, max_steps=rng.choice([3, 8, 40, 300]))
        N = int(np.prod(cfg["shape"]))
        store = rng.choice(["all", "all", [0], "uniform_2", "corner", None])
        Nv_ = cfg["shape"][0] * cfg["shape"][1] * cfg["shape"][2]
        if ri < 2:
            store = "all"        # always: the run-export-edit-run-export history below needs a recorded run
        if ri % 5 == 1 and Nv_ >= 3:
            store = [(Nv_ - 1, 0), [Nv_ - 1, Nv_ // 2, 0], (1, 0, Nv_ - 1, 1)][(ri // 5) % 3]       # integer requests that are not in ascending order
        try:
            r = fr.run(cfg, storeStates=store)
            S = r["S"]
            ncols = r["XT"].shape[1] if store is not None else r["nsteps"]
            ns = rng.choice([1, 2, 4, 250, ncols, ncols + 500, rng.randint(2, 50)])
            with impl.quiet():
                sdf, tdf = S.to_frame(n_timeSteps=ns)
        except Exception as e:
            rep.violation("to_frame-crash %s" % type(e).__name__, "to_frame(n_timeSteps=%s) raises %r for a run with %d steps (%s, storeStates=%r)" % (
                locals().get("ns"), e, r["nsteps"] if "r" in locals() else -1, cfg["shape"], store), dict(config=cfg, storeStates=store, n_timeSteps=locals().get("ns")))
            continue
        nn = int(np.sum(~np.isnan(r["stats"]["t_nucleation"])))
        rep.case(repr((cfg["shape"], cfg["seed"], store, ns)), nontrivial=nn > 0, sample=dict(shape=cfg["shape"], steps=r["nsteps"], storeStates=store, n_timeSteps=ns) if ri < 4 else None)
        rep.count("ncols<n" if ncols < ns - 1 else "ncols>=n")
        st = r["stats"]
        # statistics table: each (vial, variable) exactly once with the run's value
        sp = []
        seen = set()
        for _, row in sdf.iterrows():
            v, var = int(row["vial"]), row["variable"]
            sp += [v, VARS.index(var) if var in VARS else 9]
            if (v, var) in seen or var not in VARS or not same(row["value"], st[var][v]):
                rep.violation("stats-table-cell", "statistics table row (vial %d, %s) = %r, run holds %r (%s)" % (v, var, row["value"], st.get(var, [None] * (v + 1))[v], cfg["shape"]), dict(config=cfg))
                break
            seen.add((v, var))
        if len(sdf) != 3 * N:
            rep.violation("stats-table-size", "statistics table has %d rows for %d vials" % (len(sdf), N), dict(config=cfg))
        tp, stored = [], []
        if store is not None:
            stored = [int(i) for i in np.nonzero(np.asarray(S._storageMask))[0]]
            if tdf is None and stored:
                rep.violation("traj-missing", "no trajectory table although vials are recorded", dict(config=cfg, storeStates=store))
            elif tdf is not None:
                tcol = {float(t): k for k, t in enumerate(np.arange(r["nsteps"]) * S.dt)}
                pos = {v: k for k, v in enumerate(stored)}
                for _, row in tdf.iterrows():
                    v, stt, t = int(row["vial"]), row["state"], float(row["Time"])
                    c = tcol.get(t, -1)
                    tp += [1 if stt == "sigma" else 0, v, c if c >= 0 else 99999]
                    src = (r["XS"] if stt == "sigma" else r["XT"])
                    if v not in pos or c < 0 or not same(row["value"], src[pos[v], c]):
                        rep.violation("traj-table-cell", "trajectory table row (vial %d, %s, t=%r) = %r does not equal the stored state (%s, n_timeSteps=%d, %d columns)" % (
                            v, stt, t, row["value"], cfg["shape"], ns, ncols), dict(config=cfg, storeStates=store, n_timeSteps=ns))
                        break
        # history on the same object: run, export, the cooling program edited IN PLACE (the seed untouched), run again, export with the same
        # n_timeSteps: the second table holds the numbers of the second run
        if store is not None and tdf is not None and stored and (ri % 4 == 2 or ri < 3):
            try:
                def edit(S_):
                    S_.opcond.cooling["rate"] = S_.opcond.cooling["rate"] * 1.7
                r2 = fr.rerun(r, edit)
                with impl.quiet():
                    sdf2, tdf2 = S.to_frame(n_timeSteps=ns)
                rep.case("rerun-export " + repr((cfg["shape"], cfg["seed"], store, ns)), nontrivial=not (same_arr(r2["XT"], r["XT"]) if r2["XT"].shape == r["XT"].shape else False))
                rep.count("snowflake run-export-edit-run-export")
                tcol2 = {float(t): k for k, t in enumerate(np.arange(r2["XT"].shape[1]) * S.dt)}
                for _, row in tdf2.iterrows():
                    v, stt, t = int(row["vial"]), row["state"], float(row["Time"])
                    c = tcol2.get(t, -1)
                    src = (r2["XS"] if stt == "sigma" else r2["XT"])
                    if v not in pos or c < 0 or not same(row["value"], src[pos[v], c]):
                        rep.violation("traj-table-stale-after-rerun", "run, to_frame, cooling rate edited in place, run, to_frame(n_timeSteps=%d): trajectory table row (vial %d, %s, t=%r) = %r, the stored state of the "
                                      "second run is %r (%s)" % (ns, v, stt, t, row["value"], src[pos[v], c] if v in pos and c >= 0 else None, cfg["shape"]),
                                      dict(config=cfg, storeStates=store, n_timeSteps=ns, history=["run", "to_frame", "cooling rate x1.7 in place", "run", "to_frame"]))
                        break
                for _, row in sdf2.iterrows():
                    v, var = int(row["vial"]), row["variable"]
                    if var not in VARS or not same(row["value"], r2["stats"][var][v]):
                        rep.violation("stats-table-stale-after-rerun", "run, to_frame, cooling rate edited in place, run, to_frame: statistics table row (vial %d, %s) = %r, second run holds %r" % (
                            v, var, row["value"], r2["stats"].get(var, [None] * (v + 1))[v]), dict(config=cfg, storeStates=store, history=["run", "to_frame", "edit", "run", "to_frame"]))
                        break
            except Exception as e:
                rep.violation("to_frame-crash %s" % type(e).__name__, "run, to_frame, edit, run, to_frame raises %r (%s, storeStates=%r)" % (e, cfg["shape"], store), dict(config=cfg, storeStates=store))
        # Snowfall
        Nrep, fp = 0, []
        if ri % 3 == 0:
            Nrep = rng.randint(1, 4 if tier == "quick" else 6)
            how = rng.choice(["sequential", "async", "sync"])
            poolsz = rng.choice([1, 2, None])
            if ri == 0:
                Nrep, how, poolsz = 4, "sync", 2      # always: several workers writing into the shared result dict (in reverse seed order, see impl.adversarial_pool)
            elif ri == 3:
                Nrep, how, poolsz = 3, "async", 3
            try:
                with impl.quiet():
                    SF = sfall.Snowfall(Nrep=Nrep, pool_size=poolsz, k=dict(cfg["k"]), N_vials=cfg["shape"], dt=cfg["dt"], seed_v=cfg["seed_v"],
                                        opcond=fr.gen_opcond.build(cfg["prog"], impl.opcond_mod()), configPath=impl.cfg_path(cfg["over"]), initIce=cfg["initIce"])
                    _run_study(SF, how)
                    fdf = SF.to_frame()
                    acc = {}
                    for what, fn in (("t_nucleation", SF.nucleationTimes), ("T_nucleation", SF.nucleationTemperatures), ("t_solidification", SF.solidificationTimes)):
                        g = rng.choice(["all", "corner", "edge", "core", ["corner", "core"]])
                        sd = rng.choice([None, 0, [0, Nrep - 1]])
                        acc[what] = (g, sd, fn(group=g, seed=sd))
            except Exception as e:
                rep.violation("snowfall-table-crash %s" % type(e).__name__, "Snowfall(Nrep=%d, how=%r) table raises %r" % (Nrep, how, e), dict(config=cfg, Nrep=Nrep, how=how)); continue
            rep.count("snowfall-" + how)
            if len(fdf) != Nrep * N * 3:
                rep.violation("snowfall-table-size", "Snowfall table has %d rows for Nrep=%d, %d vials" % (len(fdf), Nrep, N), dict(config=cfg, Nrep=Nrep))
            for _, row in fdf.iterrows():
                i, v, var = int(row["seed"]), int(row["vial"]), row["variable"]
                fp += [i, v, VARS.index(var) if var in VARS else 9]
                if var not in VARS or not same(row["value"], SF.stats[i][var][v]):
                    rep.violation("snowfall-table-cell", "Snowfall table row (seed %d, vial %d, %s) = %r but that repetition holds %r (how=%r)" % (i, v, var, row["value"], SF.stats[i][var][v], how),
                                  dict(config=cfg, Nrep=Nrep, how=how)); break
            lab = {int(x["vial"]): x["group"] for _, x in fdf[fdf.seed == 0].iterrows()}
            for what, (g, sd, got) in acc.items():
                gs = None if g == "all" else ([g] if isinstance(g, str) else g)
                ss = None if sd is None else ([sd] if isinstance(sd, int) else sd)
                want = [SF.stats[i][what][v] for i in range(Nrep) for v in range(N) if (gs is None or lab[v] in gs) and (ss is None or i in ss)]
                if len(want) != len(got) or not all(same(a, b) for a, b in zip(want, got)):
                    rep.violation("accessor", "Snowfall accessor %s(group=%r, seed=%r) returns %d values, the matching rows are %d" % (what, g, sd, len(got), len(want)), dict(config=cfg, group=g, seed=sd)); break
            if ri % 6 == 0:
                # history: the table was exported, the template's cooling program / vial seed is changed, the study is run again on the same
                # object: the exported table is the table of the NEW statistics
                try:
                    with impl.quiet():
                        SF.Sf_template.seed_v = cfg["seed_v"] + 11
                        SF.Sf_template.opcond.cooling["rate"] = cfg["prog"]["rate"] * 1.5
                        _run_study(SF, how)
                        fdf2 = SF.to_frame()
                        acc2 = np.asarray(SF.nucleationTimes(), dtype=float)
                    rep.count("snowfall-rerun")
                    bad2 = None
                    for _, row in fdf2.iterrows():
                        i, v, var = int(row["seed"]), int(row["vial"]), row["variable"]
                        if var not in VARS or not same(row["value"], SF.stats[i][var][v]):
                            bad2 = (i, v, var, row["value"], SF.stats[i][var][v]); break
                    want2 = [SF.stats[i]["t_nucleation"][v] for i in range(Nrep) for v in range(N)]
                    if bad2 or len(fdf2) != Nrep * N * 3 or len(want2) != len(acc2) or not all(same(a, b) for a, b in zip(want2, acc2)):
                        rep.violation("snowfall-table-stale-after-rerun", "Snowfall: run, export, template changed, run again: the exported table / accessors do not hold the new statistics (%s) (how=%r, Nrep=%d)"
                                      % ("row (seed %d, vial %d, %s) = %r, repetition holds %r" % bad2 if bad2 else "accessor differs", how, Nrep), dict(config=cfg, Nrep=Nrep, how=how, history=["run", "to_frame", "template changed", "run", "to_frame"]))
                except Exception as e:
                    rep.violation("snowfall-table-crash %s" % type(e).__name__, "second Snowfall run / export raises %r" % e, dict(config=cfg, Nrep=Nrep, how=how))
        def nl(l):
            return coq_list(str(int(x)) for x in l)
        cases.append("(%d, %s, %s, %d, %d, %s, %d, %s)" % (N, nl(sp), nl(stored), ncols if stored else 0, ns, nl(tp), Nrep, nl(fp)))
    rc, out = common.coq_eval("c17_0", HEAD % coq_list(cases), timeout=900)
    blocks = common.eval_blocks(out)
    if rc != 0 or len(blocks) != 1:
        rep.violation("correspondence-run", "Coq evaluation of the table model failed: " + out[-500:], dict(log=out[-2000:]), found_input=False)
    else:
        bad = common.parse_nat_list(blocks[0])
        rep.coverage["traces_validated_against_impl"] = len(cases) - len(bad)
        if bad and not rep.violations:
            rep.violation("model-vs-impl tables", "row order / sampled columns of the tables differ from model/Tables.v in %d case(s)" % len(bad), dict(correspondence="model/Tables.v", cases=bad), found_input=False)
    if not ok:
        rep.violation("proof-broken", "proof obligations of C17 do not check: " + msg, dict(theorem="props/C17.v", log=msg), found_input=False)
