"""C05  Sampled shelf temperature is the programmed cooling protocol."""
import math
import random

import numpy as np

import common
import impl
import gen_opcond
from common import fhex, coq_list


def coq_case(p, prof):
    hs = coq_list("(%s, %s)" % (fhex(h["temp"]), fhex(h["duration"])) for h in p["holds"])
    return "(%s, %s, %s, %s, %s, %s, %s)" % (fhex(p["start"]), fhex(p["end"]), fhex(p["rate"]), fhex(p["dt"]), fhex(p["t_tot"]), hs,
                                             coq_list(fhex(x) for x in prof))


def near_tie(p):
    """float corner: a ceil/fmod argument within 1e-9 of an integer -> skipped tie for the real-valued clauses"""
    vals = [p["t_tot"] / p["dt"]]
    T = p["start"]
    for h in sorted(p["holds"], key=lambda h: -h["temp"]) + [{"temp": p["end"], "duration": p["t_tot"]}]:
        th = (T - h["temp"]) / p["rate"]
        vals += [th / p["dt"], (h["duration"] - th % p["dt"]) / p["dt"]]
        T = h["temp"]
    return any(abs(v - round(v)) < 1e-7 and abs(v - round(v)) > 0 for v in vals)


def oracle(rep, p, prof, oc, rng):
    """The property's clauses stated directly on the implementation's output."""
    key = None
    dt, cr = p["dt"], p["rate"]
    n = int(math.ceil(p["t_tot"] / dt)) + 1
    eps = 1e-9 * max(1.0, abs(p["start"]), abs(p["end"]))
    if len(prof) != n:
        kind = "start==end" if p["start"] == p["end"] else ("ramp<dt" if (p["start"] - p["end"]) / cr < dt else "general")
        rep.violation("length %s" % kind, "profile has %d samples, ceil(t_tot/dt)+1 = %d for %s" % (len(prof), n, p), dict(program=p, length=len(prof), expected=n))
        return
    if len(prof) and abs(prof[0] - p["start"]) > eps:
        rep.violation("head", "profile starts at %r, not at the start temperature, for %s" % (prof[0], p), dict(program=p))
    d = np.diff(prof)
    if (d > eps).any():
        i = int(np.argmax(d > eps))
        rep.violation("rises", "profile rises at sample %d (%r -> %r) for %s" % (i, prof[i], prof[i + 1], p), dict(program=p, index=i))
    if (d < -cr * dt * (1 + 1e-9) - eps).any():
        i = int(np.argmax(d < -cr * dt * (1 + 1e-9) - eps))
        rep.violation("too-fast", "profile falls by %r > rate*dt = %r at sample %d for %s" % (-d[i], cr * dt, i, p), dict(program=p, index=i))
    if len(prof) and (prof.min() < p["end"] - eps or prof.max() > p["start"] + eps):
        rep.violation("range", "profile leaves [end, start] for %s" % p, dict(program=p))
    temps = [h["temp"] for h in p["holds"]]
    distinct = len(set(temps)) == len(temps)
    # order independence
    if len(p["holds"]) > 1:
        q = dict(p); q["holds"] = list(p["holds"]); rng.shuffle(q["holds"]); q["container"] = rng.choice(["list", "tuple"])
        prof2 = np.asarray(gen_opcond.build(q, oc).tempProfile(dt), dtype=float)
        if len(prof2) != len(prof) or (np.abs(prof2 - prof) > eps).any():
            # the known finding is precisely: equal hold temperatures, same length, and every sample equals a sample of the other profile at most
            # m positions away, m = number of holds that repeat an earlier temperature (each such pair can make one plateau one sample longer)
            m_ = len(temps) - len(set(temps))
            L_ = len(prof)
            shift_only = len(prof2) == L_ and m_ > 0 and all(
                min(abs(prof2[i] - prof[j]) for j in range(max(i - m_, 0), min(i + m_, L_ - 1) + 1)) <= eps for i in range(L_ - m_)) \
                and all(abs(prof2[i] - prof[i]) <= m_ * p["rate"] * dt + eps for i in range(max(L_ - m_, 0), L_))
            rep.violation("order-dependence equal-temps" if (not distinct and shift_only) else "order-dependence",
                          "profile depends on the listed order of the holds: %s vs %s" % (p["holds"], q["holds"]),
                          dict(program=p, reordered=q["holds"]))
    if near_tie(p):
        rep.count("skipped-ties")
        return
    # dwell and agreement with the continuous program (within one step per program segment)
    P, pts = gen_opcond.continuous(p)
    nseg = 2 * len(p["holds"]) + 1
    t = np.arange(n) * dt
    cont = np.array([P(x) for x in t])
    tol = cr * dt * nseg + eps
    if (np.abs(cont - prof) > tol).any():
        i = int(np.argmax(np.abs(cont - prof) > tol))
        rep.violation("off-program", "sample %d is %r but the continuous program gives %r (tolerance %r) for %s" % (i, prof[i], cont[i], tol, p),
                      dict(program=p, index=i))
    if distinct:
        hs = sorted(p["holds"], key=lambda h: -h["temp"])
        tcur, T = 0.0, p["start"]
        for j, h in enumerate(hs):
            tcur += (T - h["temp"]) / cr; T = h["temp"]
            t_end_hold = tcur + h["duration"]
            if h["temp"] in (p["end"],) or t_end_hold + 2 * (j + 1) * dt >= p["t_tot"]:
                break
            cnt = int(np.sum(np.abs(prof - h["temp"]) <= eps))
            want = h["duration"] / dt
            if not (want - 1 - 1e-9 < cnt <= want + 2 + 1e-9) and h["temp"] != p["start"]:
                rep.violation("dwell", "hold at %r for %r s is sampled %d times with dt=%r for %s" % (h["temp"], h["duration"], cnt, dt, p), dict(program=p, hold=h, count=cnt))
            tcur = t_end_hold


def check(rep, tier):
    rng = random.Random(rep.seed)
    oc = impl.opcond_mod()
    ok, msg = common.proof_stage(rep, "C05", ["theories/model/OpCondF.vo"])
    N = 2000 if tier == "quick" else 30000
    rep.rule = ("random cooling programs: start/end (incl. equal), rates over 3 decades, 0-4 holds (temps incl. start, end, duplicates; durations 0, < dt, "
                "multiples of dt, random) in random listed order, dt 0.1..60, t_tot commensurate or not, shorter or longer than the implied time; "
                "distinct = distinct program tuples; non-trivial = at least one ramp longer than a step")
    rep.trusted = ["Coq 8.16.1 kernel + vm_compute", "PrimFloat binary64 instance of the generic model (same operation order as numpy; 2^-30 tolerance)",
                   "np.arange length = ceil((stop-start)/step), np.ceil, python float %, sorted(reverse=True) stable",
                   "harness/c05.py oracle clauses"]
    rep.assumptions = ["rate > 0, dt > 0, t_tot > 0, end <= hold temperatures <= start, durations >= 0 (the theorems' hypotheses; generator stays inside)"]
    cases = []
    corpus = [dict(start=20, end=19.5, rate=0.1, dt=10.0, t_tot=22.0, holds=[]),
              dict(start=5, end=5, rate=0.5, dt=2.0, t_tot=11.0, holds=[]),
              dict(start=20, end=-5, rate=0.5, dt=2.0, t_tot=400.0, holds=[{"duration": 7, "temp": 0}, {"duration": 6, "temp": 0}])]
    progs = corpus + [gen_opcond.gen_program(rng) for _ in range(N)]
    for p in progs:
        try:
            with impl.quiet():
                op = gen_opcond.build(p, oc)
                prof = np.asarray(op.tempProfile(p["dt"]), dtype=float)
                # the profile is a function of the program: asking again (also at another step, or after the
                # controlled-nucleation time was computed) must not change it
                _ = op.tempProfile(1.0 if p["t_tot"] < 5000 else 7.0)
                if rng.random() < 0.5:
                    op.cnTemp = (p["start"] + p["end"]) / 2
                    _ = op.cnt
                prof_again = np.asarray(op.tempProfile(p["dt"]), dtype=float)
                if len(prof_again) != len(prof) or (prof_again != prof).any():
                    rep.violation("history-dependence", "a second tempProfile(dt) call on the same object returns a different profile for %s" % p,
                                  dict(program=p, history=["tempProfile(dt)", "tempProfile(1)", "cnt?", "tempProfile(dt)"]))
        except Exception as e:
            rep.violation("crash %s" % type(e).__name__, "tempProfile raises %r for %s" % (e, p), dict(program=p, error=repr(e)))
            continue
        nontriv = (p["start"] - p["end"]) / p["rate"] > p["dt"]
        rep.case(repr(sorted(p.items(), key=str)), nontrivial=nontriv, sample=p if rng.random() < 0.004 else None)
        rep.count("holds=%d" % len(p["holds"]))
        rep.count("t_tot<implied" if p["t_tot"] < (p["start"] - p["end"]) / p["rate"] + sum(h["duration"] for h in p["holds"]) else "t_tot>=implied")
        oracle(rep, p, prof, oc, rng)
        if len(prof) <= 1600:
            cases.append((p, coq_case(p, prof)))
    bad = []
    CH = 150
    chunks = [cases[i:i + CH] for i in range(0, len(cases), CH)]
    head = ("From Coq Require Import ZArith List PrimFloat. Import ListNotations.\nFrom Snow Require Import Topology OpCondF.\n"
            "Definition cases := %s.\nEval vm_compute in bad_cases c05_case_ok cases.\n")
    from concurrent.futures import ThreadPoolExecutor
    def run(ci):
        ch = chunks[ci]
        return ci, common.coq_eval("c05_%d" % ci, head % coq_list(c for _, c in ch), timeout=900)
    with ThreadPoolExecutor(max_workers=8) as ex:
        for ci, (rc, out) in ex.map(run, range(len(chunks))):
            blocks = common.eval_blocks(out)
            if rc != 0 or len(blocks) != 1:
                rep.violation("correspondence-run", "Coq evaluation of the profile model failed: " + out[-400:], dict(log=out[-2000:]), found_input=False)
                continue
            bad += [chunks[ci][b][0] for b in common.parse_nat_list(blocks[0])]
    rep.coverage["traces_validated_against_impl"] = len(cases) - len(bad)
    flagged = [v["replay"].get("program") for v in rep.violations]
    for p in bad[:5]:
        if p not in flagged:
            rep.violation("model-vs-impl", "correspondence model/OpCond.v <-> tempProfile no longer checks on %s (the clause oracle accepts the implementation there)" % p,
                          dict(correspondence="model/OpCond.v profile", program=p), found_input=False)
    # ---- every simulator steps through the profile to the end of the process without running out of samples: time steps that are
    #      not integers / do not divide t_tot (binary64 quotients just below or above an integer) ----
    sfm = impl.snowflake_mod(); ocm = impl.opcond_mod()
    fr_cases = [(7.0, 0.7), (30.0, 0.6), (4.2, 0.3), (1.0, 0.1), (9.0, 0.9), (12.3, 0.41), (100.0, 7.0)]
    fr_cases += [(round(rng.uniform(5, 60), 1), round(rng.uniform(0.2, 3.0), 2)) for _ in range(4 if tier == "quick" else 40)]
    for t_tot, dtf in fr_cases:
        try:
            with impl.quiet():
                op = ocm.OperatingConditions(t_tot=t_tot, cooling={"rate": 0.5, "start": 5, "end": -5}, holding=[dict(duration=1.3, temp=0)])
                S = sfm.Snowflake(k={"int": 5, "ext": 5, "s0": 20, "s_sigma_rel": 0}, N_vials=(2, 1, 1), opcond=op, dt=dtf, storeStates="all")
                S.run()
            rep.case(("simulator-steps", t_tot, dtf), True); rep.count("simulator-run fractional dt")
            ncol = np.array(S.X_T).shape[1]
            want = int(np.ceil(t_tot / dtf)) + 1
            if ncol != want or len(op.tempProfile(dtf)) != want:
                rep.violation("simulator-steps", "Snowflake(t_tot=%r, dt=%r) stores %d columns, the profile has %d samples, ceil(t_tot/dt)+1 = %d" % (t_tot, dtf, ncol, len(op.tempProfile(dtf)), want),
                              dict(t_tot=t_tot, dt=dtf))
        except IndexError as e:
            rep.violation("simulator-runs-out-of-samples", "Snowflake(t_tot=%r, dt=%r).run() runs out of shelf-temperature samples: %r" % (t_tot, dtf, e), dict(t_tot=t_tot, dt=dtf))
        except Exception as e:
            rep.violation("crash %s" % type(e).__name__, "Snowflake(t_tot=%r, dt=%r).run() raises %r" % (t_tot, dtf, e), dict(t_tot=t_tot, dt=dtf))
    if not ok:
        rep.violation("proof-broken", "proof obligations of C05 do not check: " + msg, dict(theorem="props/C05.v", log=msg), found_input=False)
