"""C03  Vial nucleation follows the stated stochastic rate law."""
import random

import numpy as np

import common
import impl
import flake_runs as fr
import oracle_sim
from common import coq_list


def rlit(x):
    """python float -> Coq real literal (17 significant digits; relative error <= 1e-16)"""
    s = repr(float(x))
    if "e" in s or "E" in s:
        m, e = s.lower().split("e")
        return "(%s * / 10 ^ %d)%%R" % (m if float(m) >= 0 else "(%s)" % m, -int(e)) if int(e) < 0 else "(%s * 10 ^ %d)%%R" % (m if float(m) >= 0 else "(%s)" % m, int(e))
    return "(%s)%%R" % s


def lockstep_run(rep, cfg, rng, what="C03"):
    with impl.quiet():
        S = fr.build(cfg, "all")
        L = oracle_sim.Lockstep(cfg, S, None, rng)
        if cfg.get("no_spontaneous"):
            L.wish[:] = L.n + 5          # no vial is let to nucleate by the dice: only a controlled-nucleation trigger can ice it
        wrap = lambda g: fr.ScriptedRng(g, L.script)
        S._rng = wrap(S._rng)
        with fr.patched_rng(wrap):
            S.run()
    L.finish()
    return S, L


def compare(rep, cfg, S, L):
    """Verdict = the step-by-step check on the implementation's own stored states (oracle_sim.Lockstep.posthoc).  The free-running lockstep
    restatement only produced the dice; its own trajectory is NOT compared any more: in configurations outside the stability range
    (ice fractions beyond 1, found with VERIF_SEED=1 in the thorough tier) rounding differences between the restatement and the
    implementation grow until the two disagree about who is liquid, which is not a defect of the implementation."""
    what = {k: cfg[k] for k in ("shape", "arr", "dt", "cnTemp")}
    if L.const_mismatch:
        kind, msg = [p for p in L.problems if p[0] == "constants-not-from-configuration"][0]
        rep.violation(kind, "%s for %s" % (msg, what), dict(config=cfg, problem=msg)); return False
    probs = L.posthoc()
    for kind, msg in probs[:1]:
        rep.violation(kind, "%s (%s)" % (msg, what), dict(config=cfg, problem=msg))
    return not probs


def certificates(rep, samples, consts_list, name):
    """interval certificates: the python probability used to script the dice equals the R model's `prob`"""
    goals = []
    for (cst, dt, xi, Ts, Pv) in samples:
        # relative tolerance 1e-9, widened where the supercooling T_eq_l - T is a difference of two nearly equal numbers (kelvin configurations,
        # temperatures ~273 written as 17-digit decimal literals): the literal's rounding is amplified by b * |T| / (T_eq_l - T)
        dT = abs(cst["T_eq_l"] - Ts)
        tol = max(1e-9, 40 * abs(cst["b"]) * 2.2e-16 * max(abs(cst["T_eq_l"]), abs(Ts), 1.0) / max(dT, 1e-300))
        if tol > 1e-4:
            continue
        goals.append("Goal Rabs (prob %s %s %s %s %s %s %s %s - %s) <= %s.\nProof. unfold prob, kbv, Rpower. interval with (i_prec 90). Qed.\n" % (
            rlit(cst["a"]), rlit(cst["b"]), rlit(cst["c"]), rlit(xi), rlit(cst["V"]), rlit(cst["T_eq_l"]), rlit(Ts), rlit(dt), rlit(Pv), rlit(abs(Pv) * tol)))
    body = ("From Coq Require Import Reals.\nFrom Interval Require Import Tactic.\nFrom Snow Require Import NucleationLaw.\nLocal Open Scope R_scope.\n"
            + "\n".join(goals) + "\nEval vm_compute in 12345%nat.\n")
    rc, out = common.coq_eval(name, body, timeout=1200)
    okc = rc == 0 and "12345" in out
    rep.coverage["interval_certificates"] = len(goals)
    rep.coverage["interval_certificates_ok"] = len(goals) if okc else 0
    if not okc:
        rep.violation("certificate", "an interval certificate |prob_R - P_python| <= 1e-9 P fails: " + out[-400:], dict(log=out[-1500:]), found_input=False)


def check(rep, tier):
    rng = random.Random(rep.seed)
    ok, msg = common.proof_stage(rep, "C03", ["theories/proofs/NucleationLaw.vo"])
    nruns = 30 if tier == "quick" else 300
    rep.rule = ("Snowflake runs whose random generator is replaced by a scripted one driven in lockstep by an independent numpy restatement of the model: "
                "every dice value is chosen relative to the step probability k_v V (T_eq_l - T)^b dt (just below, just above, 0, 0.999999999, and >= 1 cases), "
                "so the set of vials that must nucleate in each step is known; compared: number of draws requested each step (= liquid supercooled vials), "
                "t_nucleation and T_nucleation of every vial; a sample of the probabilities is certified against the R model by `interval`; "
                "non-trivial = at least one vial nucleated by a draw just below its probability while another candidate did not")
    rep.trusted = ["Coq 8.16.1 kernel; Interval tactic (vm_compute inside)", "harness/oracle_sim.py restatement of the model and of k_v (np.random.seed(seed_v); rand; norm.ppf)",
                   "distributional claim (xi standard normal, dice uniform) NOT modelled: numpy/scipy streams are trusted"]
    certs = []
    # corpus: vial seeds for which one vial's xi_v lies far in a tail of the standard normal (|xi| > 3.3): k_v is fixed by the seed, whatever it is
    def tail_seed(N, start):
        st = np.random.get_state()
        try:
            for sv in range(start, start + 4000):
                np.random.seed(sv); u = np.random.rand(N)
                if u.min() < 5e-4 or u.max() > 1 - 5e-4:
                    return sv
        finally:
            np.random.set_state(st)
        return start
    tails = []
    for ti in range(2 if tier == "quick" else 6):
        cfgT = fr.gen_config(rng, max_vials=36, max_steps=400)
        cfgT["over"] = dict(cfgT["over"]); cfgT["over"].pop("kinetics", None); cfgT["over"]["kinetics"] = {"c": 1.0}
        cfgT["seed_v"] = tail_seed(cfgT["shape"][0] * cfgT["shape"][1] * cfgT["shape"][2], 1000 * (ti + 1))
        tails.append(cfgT)
    for ri in range(nruns + len(tails)):
        cfg = tails[ri - nruns] if ri >= nruns else fr.gen_config(rng, max_vials=24 if tier == "quick" else 80, max_steps=600, cn=(ri % 3 == 1))
        if ri >= nruns:
            rep.count("tail-xi corpus")
        try:
            S, L = lockstep_run(rep, cfg, rng)
        except Exception as e:
            rep.violation("crash %s" % type(e).__name__, "scripted run raises %r for %s" % (e, cfg), dict(config=cfg, error=repr(e)))
            continue
        nn = int(np.sum(~np.isnan(L.tn)))
        rep.case(repr(cfg), nontrivial=nn > 0 and nn < L.N or nn > 1,
                 sample=dict(shape=cfg["shape"], arr=cfg["arr"], dt=cfg["dt"], kinetics=cfg["over"].get("kinetics"), nucleated=nn, draws=len(L.cand_counts)) if ri < 4 else None)
        rep.count("nucleated-vials", nn); rep.count("draw-calls", len(L.cand_counts))
        compare(rep, cfg, S, L)
        if ri % 3 == 0:
            # the same object run again with another vial seed: k_v is fixed by the vial seed of THAT run
            cfg2 = dict(cfg, seed_v=cfg["seed_v"] + 101, seed=cfg["seed"] + 5)
            try:
                with impl.quiet():
                    S.seed_v = cfg2["seed_v"]
                    S.seed = cfg2["seed"]
                    L2 = oracle_sim.Lockstep(cfg2, S, None, rng)
                    wrap2 = lambda g: fr.ScriptedRng(g, L2.script)
                    S._rng = wrap2(S._rng)
                    with fr.patched_rng(wrap2):
                        S.run()
                L2.finish()
                nv = len(rep.violations)
                compare(rep, cfg2, S, L2)
                for v in rep.violations[nv:]:
                    v["key"] = "rerun-new-seed_v " + v["key"]; v["what"] = "second run() on the same object after assigning another seed_v: " + v["what"]
                rep.count("reruns")
            except Exception as e:
                rep.violation("rerun-crash %s" % type(e).__name__, "re-run raises %r for %s" % (e, cfg2), dict(config=cfg2, error=repr(e)))
        for (xi, Ts, Pv) in L.samples[: (6 if tier == "quick" else 10)]:
            certs.append((dict(S.const), S.dt, xi, Ts, Pv))
    certificates(rep, certs[: (150 if tier == "quick" else 1500)], None, "c03_certs")
    if not ok:
        rep.violation("proof-broken", "proof obligations of C03 do not check: " + msg, dict(theorem="props/C03.v", log=msg), found_input=False)
