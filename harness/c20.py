"""C20  Evaporation physics is monotone, sign-correct and window-limited."""
import random

import numpy as np

import common
import impl
import translator
from c03 import rlit


def check(rep, tier):
    rng = random.Random(rep.seed)
    errs = translator.regenerate()
    ok, msg = common.proof_stage(rep, "C20", ["theories/model/Sn1DF.vo", "theories/model/Sn2DF.vo"])
    if errs.get("utils"):
        ok, msg = False, errs["utils"]
    rep.rule = ("(a) the theorems are stated about Coq definitions regenerated from utils.py by the translator on every run; (b) certificates: at random temperatures "
                "in [123,332] / [110,273.16] and random flux arguments the value returned by the Python function is certified (interval tactic) to agree with the "
                "generated definition to 1e-9 relative; (c) oracle: the property's clauses evaluated on dense grids of the Python functions; "
                "non-trivial = a certificate or grid point strictly inside the validity range")
    rep.trusted = ["Coq 8.16.1 kernel; Coquelicot auto_derive; Interval tactic (vm_compute inside)", "harness/translator.py (whitelisted ast nodes -> R terms): " + "; ".join(translator.LOG),
                   "numpy exp/log/tanh/sqrt agree with the real functions to 1e-9 at the certified points"]
    import ethz_snow.utils as U
    # ---- (c) oracle on the implementation -------------------------------------------------------------------
    Tl = np.linspace(123.0, 332.0, 4001 if tier == "quick" else 40001)
    Ti = np.linspace(110.0, 273.16, 4001 if tier == "quick" else 40001)
    pl, pi_ = U.vapour_pressure_liquid(Tl), U.vapour_pressure_solid(Ti)
    rep.case("grid-liquid", True); rep.case("grid-ice", True)
    if not (np.diff(pl) > 0).all():
        k = int(np.argmin(np.diff(pl) > 0))
        rep.violation("p_liq-not-increasing", "vapour_pressure_liquid(%r)=%r >= vapour_pressure_liquid(%r)=%r" % (Tl[k], pl[k], Tl[k + 1], pl[k + 1]), dict(T1=float(Tl[k]), T2=float(Tl[k + 1])))
    if not (np.diff(pi_) > 0).all():
        k = int(np.argmin(np.diff(pi_) > 0))
        rep.violation("p_ice-not-increasing", "vapour_pressure_solid(%r)=%r >= vapour_pressure_solid(%r)=%r" % (Ti[k], pi_[k], Ti[k + 1], pi_[k + 1]), dict(T1=float(Ti[k]), T2=float(Ti[k + 1])))
    tp = abs(np.log(U.vapour_pressure_liquid(273.16)) - np.log(U.vapour_pressure_solid(273.16)))
    if tp > 1e-4:
        rep.violation("triple-point", "ln p_liq and ln p_ice differ by %r at 273.16 K" % tp, dict(T=273.16, diff=float(tp)))
    Tb = np.linspace(123.0, 273.15, 3001)
    if (U.vapour_pressure_solid(Tb) > U.vapour_pressure_liquid(Tb)).any():
        k = int(np.argmax(U.vapour_pressure_solid(Tb) > U.vapour_pressure_liquid(Tb)))
        rep.violation("ice-above-liquid", "p_ice(%r)=%r > p_liq=%r" % (Tb[k], U.vapour_pressure_solid(Tb[k]), U.vapour_pressure_liquid(Tb[k])), dict(T=float(Tb[k])))
    m_w, kB = 2.99e-26, 1.38e-23
    for _ in range(300 if tier == "quick" else 3000):
        kap = rng.uniform(1e-3, 1.0); T = rng.uniform(200, 300); pv = rng.uniform(1, 700); pvac = rng.uniform(1, 700)
        f = U.vapour_flux(kap, m_w, kB, pvac, pv, T, T)
        rep.case(("flux", round(kap, 6), round(T, 3), round(pv, 3), round(pvac, 3)), True)
        if (f > 0) != (pv > pvac) and abs(pv - pvac) > 1e-9:
            rep.violation("flux-sign", "vapour_flux(kappa=%r, p_vac=%r, p_vap=%r, T=%r) = %r" % (kap, pvac, pv, T, f), dict(kappa=kap, p_vac=pvac, p_vap=pv, T=T))
        if abs(U.vapour_flux(kap, m_w, kB, pv, pv, T, T)) > 1e-30:
            rep.violation("flux-equilibrium", "flux not zero at equilibrium", dict(kappa=kap, p=pv, T=T))
        if not U.vapour_flux(kap, m_w, kB, pvac, pv + 1, T, T) > f:
            rep.violation("flux-not-increasing", "flux does not increase with the vapour pressure", dict(kappa=kap, p_vac=pvac, p_vap=pv, T=T))
        k2 = min(1.0, kap * 1.1)
        if k2 > kap and pv > pvac and not U.vapour_flux(k2, m_w, kB, pvac, pv, T, T) > f:
            rep.violation("flux-kappa", "flux does not increase with the evaporation coefficient", dict(kappa=kap, kappa2=k2))
    # ---- (d) vacuum window: a VISF run equals the shelf run outside the window (1D; 2D in the thorough tier) ------------
    import snowing_runs as sr
    import c07
    wc1, wl1, wc2, wl2 = [], [], [], []
    prog = dict(start=20, end=-50, rate=2 / 60, holds=[], t_tot=9000.0, dt=1.0)
    KINDS = ((5.0, 0.1, "after-the-process"), (0.2, 0.1, "inside"), (0.1, 0.05, "closes-before-nucleation"), (0.6, 0.1, "opens-after-nucleation"))
    for dim in ["spatial_1D", "spatial_2D"]:
        geo = dict(height=0.05, diameter=0.05 if dim == "spatial_1D" else 0.1, K=300)
        try:
            prog = dict(prog)
            dt0, _ = sr.step_info(sr.make(dim=dim, conf="shelf", prog=prog, **geo))
            prog["t_tot"] = min(9000.0, float(int(dt0 * 9800)))        # every step saved
            Sshelf = sr.make(dim=dim, conf="shelf", prog=prog, **geo); sr.run(Sshelf)
            for ts, td, kind in (KINDS if dim == "spatial_1D" or tier != "quick" else KINDS[3:]):
                Sv = sr.make(dim=dim, conf="VISF", prog=prog, extra={"VISF": {"t_vac_start": ts, "t_vac_duration": td, "kappa": 0.01}}, **geo); sr.run(Sv)
                rep.case(("window", dim, kind), True)
                if kind != "after-the-process":
                    dtv, _ = sr.step_info(Sv)
                    if dim == "spatial_1D":
                        # exact discrete heat balance of every cooling step, with evaporation only inside the window
                        import c02
                        c02.audit_1d(rep, dict(S=Sv, dt=dtv, label="%s VISF window %g h + %g h (%s)" % (dim, ts, td, kind)))
                    (wc1 if dim == "spatial_1D" else wc2).append((sr.sn1d_case if dim == "spatial_1D" else sr.sn2d_case)(Sv, dtv, rng)[0])
                    (wl1 if dim == "spatial_1D" else wl2).append("%s VISF window %g h + %g h" % (dim, ts, td))
                Ta, Tb = np.asarray(Sshelf.temp), np.asarray(Sv.temp)
                ta, tb = np.asarray(Sshelf.time) * 3600, np.asarray(Sv.time) * 3600
                if kind == "after-the-process":
                    if Ta.shape != Tb.shape or not np.array_equal(Ta, Tb) or not np.array_equal(np.asarray(Sshelf.iceMassFraction), np.asarray(Sv.iceMassFraction)) \
                            or not Sshelf.results.equals(Sv.results):
                        rep.violation("window-outside-differs", "%s: with the vacuum window after the end of the process the VISF run differs from the shelf run" % dim, dict(dim=dim, t_vac_start=ts))
                else:
                    n = min(len(ta), len(tb))
                    before = (ta[:n] <= ts * 3600) & (tb[:n] <= ts * 3600)
                    if not np.array_equal(Ta[:n][before], Tb[:n][before]):
                        rep.violation("window-before-differs", "%s: VISF and shelf runs differ before the vacuum window opens" % dim, dict(dim=dim, t_vac_start=ts))
                    inside = (tb > ts * 3600 + 5) & (tb < (ts + td) * 3600)
                    k = np.nonzero(inside)[0]
                    if len(k) and k[-1] < n:
                        top_v = Tb[k[-1]].reshape(Tb.shape[1], -1)[-1].mean(); top_s = Ta[k[-1]].reshape(Ta.shape[1], -1)[-1].mean()
                        if not top_v < top_s - 1e-6:
                            rep.violation("window-no-cooling", "%s: inside the vacuum window the top surface is not colder than in the shelf run (%r vs %r)" % (dim, top_v, top_s), dict(dim=dim))
            if dim == "spatial_1D" or tier != "quick":
                # history: an object that has already run with one vacuum window is re-pointed to a configuration file with another window
                # and evaporation coefficient; its next run is the run of a fresh object with that file
                exA = {"VISF": {"t_vac_start": 0.2, "t_vac_duration": 0.1, "kappa": 0.01}}; exB = {"VISF": {"t_vac_start": 0.6, "t_vac_duration": 0.1, "kappa": 0.03}}
                Sh = sr.make(dim=dim, conf="VISF", prog=prog, extra=exA, **geo); sr.run(Sh)
                Sh.configPath = impl.cfg_path(sr.make_over(dim, "VISF", geo["height"], geo["diameter"], exB)); sr.run(Sh)
                Sf = sr.make(dim=dim, conf="VISF", prog=prog, extra=exB, **geo); sr.run(Sf)
                rep.case(("window", dim, "re-pointed"), True)
                if np.asarray(Sh.temp).shape != np.asarray(Sf.temp).shape or not np.array_equal(np.asarray(Sh.temp), np.asarray(Sf.temp)) or not Sh.results.equals(Sf.results):
                    rep.violation("window-stale-after-repoint", "%s: after run, configPath re-pointed to a file with vacuum window 0.6 h + 0.1 h / kappa 0.03, run: the result differs from a fresh object's "
                                  "(t_nuc %r vs %r min)" % (dim, float(Sh.results["t_nuc"].iloc[0]), float(Sf.results["t_nuc"].iloc[0])), dict(dim=dim, history="run; configPath = other window; run"))
        except Exception as e:
            rep.violation("window-run-crash %s" % type(e).__name__, "%s VISF/shelf comparison raises %r" % (dim, e), dict(dim=dim))
    # the step models the window theorems speak about, tied to the runs with the window inside the process
    if wc1:
        rc1, out1 = common.coq_eval("c20_w1", c07.HEAD % (common.coq_list(wc1), "(@nil (@Sn1D.p1d PrimFloat.float * PrimFloat.float * list (PrimFloat.float * PrimFloat.float * PrimFloat.float) * list (PrimFloat.float * PrimFloat.float * PrimFloat.float * PrimFloat.float) * list (PrimFloat.float * PrimFloat.float * PrimFloat.float * PrimFloat.float * PrimFloat.float)))"), timeout=900)
        bl = common.eval_blocks(out1)
        if rc1 != 0 or len(bl) != 2:
            rep.violation("correspondence-run", "Coq evaluation of the 1D window case failed: " + out1[-400:], dict(log=out1[-1500:]), found_input=False)
        else:
            bad = common.parse_nat_list(bl[0])
            rep.coverage["traces_validated_against_impl"] = len(wc1) - len(bad)
            for b in bad:
                rep.violation("model-vs-impl window", "one-step correspondence model/Sn1D.v <-> _run_1D no longer checks on %s" % wl1[b], dict(correspondence="model/Sn1D.v", run=wl1[b]), found_input=False)
    c07.coq_2d(rep, wc2, wl2, "c20_w2")
    # ---- (b) certificates: generated R definitions agree with the Python functions ----------------------------
    goals = []
    ncert = 20 if tier == "quick" else 400
    for _ in range(ncert):
        T = round(rng.uniform(123.0, 332.0), 6)
        v = float(U.vapour_pressure_liquid(T))
        goals.append("Goal Rabs (vapour_pressure_liquid %s - %s) <= %s.\nProof. unfold vapour_pressure_liquid, vapour_pressure_liquid_exponent, tanh, sinh, cosh. interval with (i_prec 90). Qed.\n" % (rlit(T), rlit(v), rlit(v * 1e-9)))
        T = round(rng.uniform(110.0, 273.16), 6)
        v = float(U.vapour_pressure_solid(T))
        goals.append("Goal Rabs (vapour_pressure_solid %s - %s) <= %s.\nProof. unfold vapour_pressure_solid, vapour_pressure_solid_exponent. interval with (i_prec 90). Qed.\n" % (rlit(T), rlit(v), rlit(v * 1e-9)))
        kap = round(rng.uniform(0.001, 1.0), 6); Tl_ = round(rng.uniform(200, 300), 4); Tv_ = round(rng.uniform(200, 300), 4)
        pv = round(rng.uniform(1, 700), 4); pvac = round(rng.uniform(1, 700), 4)
        v = float(U.vapour_flux(kap, m_w, kB, pvac, pv, Tl_, Tv_))
        goals.append("Goal Rabs (vapour_flux %s %s %s %s %s %s %s - %s) <= %s.\nProof. unfold vapour_flux. interval with (i_prec 90). Qed.\n" % (
            rlit(kap), rlit(m_w), rlit(kB), rlit(pvac), rlit(pv), rlit(Tl_), rlit(Tv_), rlit(v), rlit(max(abs(v) * 1e-9, 1e-30))))
        rep.case(("cert", T, kap), True, sample=dict(T=T, p_ice=float(U.vapour_pressure_solid(T)), kappa=kap, flux=v) if len(rep.samples) < 4 else None)
    body = ("From Coq Require Import Reals.\nFrom Interval Require Import Tactic.\nFrom Snow Require Import GenUtils.\nLocal Open Scope R_scope.\n"
            + "\n".join(goals) + "\nEval vm_compute in 12345%nat.\n")
    rc, out = common.coq_eval("c20_certs", body, timeout=1500)
    okc = rc == 0 and "12345" in out
    rep.coverage["interval_certificates"] = len(goals)
    rep.coverage["interval_certificates_ok"] = len(goals) if okc else 0
    if not okc and ok:
        rep.violation("certificate", "translated definitions and the Python functions disagree at a sampled point: " + out[-500:], dict(correspondence="gen/GenUtils.v vs utils.py", log=out[-1500:]), found_input=False)
    if not ok:
        rep.violation("proof-broken", "proof obligations of C20 do not check against the current utils.py: " + msg, dict(theorem="props/C20.v", log=msg), found_input=False)
