"""C09  Heat-exchange topology matches the declared vial arrangement."""
import json
import random

import numpy as np

import common
import impl
from common import zlit, coq_list

K = {"int": 7.0, "ext": 3.0, "s0": 11.0, "s_sigma_rel": 0}
ARR = {"square": "Square", "hexagonal": "Hexagonal"}


def geometric(arr, nx, ny, nz):
    """Independent oracle: adjacency from coordinates."""
    N = nx * ny * nz
    A = np.zeros((N, N), dtype=int)
    def idx(x, y, z):
        return x + nx * (y + ny * z)
    for z in range(nz):
        for y in range(ny):
            for x in range(nx):
                i = idx(x, y, z)
                nb = [(x - 1, y, z), (x + 1, y, z), (x, y - 1, z), (x, y + 1, z), (x, y, z - 1), (x, y, z + 1)]
                if arr == "hexagonal":
                    # even rows touch columns x-1 and x of the adjacent (odd) rows; odd rows x and x+1
                    dxs = -1 if y % 2 == 0 else 1
                    nb += [(x + dxs, y - 1, z), (x + dxs, y + 1, z)]
                for (a, b, c) in nb:
                    if 0 <= a < nx and 0 <= b < ny and 0 <= c < nz:
                        A[i, idx(a, b, c)] = 1
    return A


def observe(arr, shape):
    """H_int / H_ext of a constructed Snowflake, reduced to integer interaction counts."""
    sf = impl.snowflake_mod()
    S = sf.Snowflake(k=dict(K), N_vials=shape, configPath=impl.arrangement_cfg(arr))
    Aarea = S.const["A"]
    H = S.H_int
    H = H.toarray() if hasattr(H, "toarray") else np.asarray(H)
    M = H / (K["int"] * Aarea)
    E = np.asarray(S.H_ext, dtype=float) / (K["ext"] * Aarea)
    return M, E


def check(rep, tier):
    rng = random.Random(rep.seed)
    ok, msg = common.proof_stage(rep, "C09", ["theories/model/Topology.vo"])
    rep.rule = ("every batch shape nx x ny x nz in the enumerated box, both arrangements; a case is one shape; "
                "non-trivial = more than one vial; for each case all rows of H_int/(k_int A) and H_ext/(k_ext A) are compared "
                "with the Coq model (vm_compute) and with an independent geometric oracle")
    rep.trusted = ["Coq 8.16.1 kernel + vm_compute", "numpy/scipy CSR -> dense conversion", "harness/c09.py geometric oracle",
                   "model/Topology.v is hand-written; tied to snowflake.py by this exhaustive-small + random correspondence"]
    rep.assumptions = ["np.diag / csr_matrix semantics as modelled by `sym`", "H_int = IA * k_int * A elementwise"]
    if tier == "quick":
        shapes = [(x, y, z) for x in range(1, 7) for y in range(1, 7) for z in range(1, 4)]
        big = []
    else:
        shapes = [(x, y, z) for x in range(1, 9) for y in range(1, 9) for z in range(1, 5)]
        big = []
        while len(big) < 60:
            s = (rng.randint(1, 40), rng.randint(1, 40), rng.randint(1, 6))
            if 256 < s[0] * s[1] * s[2] <= 1600:
                big.append(s)
    cases = []
    flagged = set()
    impl_fail = False
    for arr in ("square", "hexagonal"):
        for shape in shapes + big:
            nx, ny, nz = shape
            N = nx * ny * nz
            key = "%s %dx%dx%d" % (arr, nx, ny, nz)
            rep.count(arr)
            rep.count("single-row/column" if min(nx, ny) == 1 else "pallet" if nz > 1 else "shelf")
            rep.case(key, nontrivial=N > 1, sample=dict(arrangement=arr, shape=shape) if rng.random() < 0.02 else None)
            try:
                with impl.quiet():
                    M, E = observe(arr, shape)
            except Exception as e:  # the implementation cannot even build the matrices
                rep.violation("%s ny=%d crash %s" % (arr, 1 if ny == 1 else 0, type(e).__name__),
                              "building H_int raises %s: %s for %s batch %s" % (type(e).__name__, e, arr, shape),
                              dict(arrangement=arr, shape=shape, error=repr(e)))
                impl_fail = True
                continue
            Mr, Er = np.rint(M), np.rint(E)
            if np.abs(M - Mr).max() > 1e-9 or np.abs(E - Er).max() > 1e-9:
                rep.violation("non-integer-conductance", "H_int or H_ext is not an integer multiple of k*A for %s" % key,
                              dict(arrangement=arr, shape=shape))
                continue
            G = geometric(arr, nx, ny, nz)
            maxI = (4 if arr == "square" else 6) + (2 if nz > 1 else 0)
            exp = G - np.diag(G.sum(axis=1))
            expE = maxI - G.sum(axis=1)
            if (Mr != exp).any() or (Er != expE).any():
                bad = np.argwhere(Mr != exp)
                i, j = (int(bad[0][0]), int(bad[0][1])) if len(bad) else (int(np.argwhere(Er != expE)[0][0]), -1)
                kind = "ny=1" if ny == 1 else "nx=1" if nx == 1 else "general"
                flagged.add(key)
                rep.violation("%s %s %s" % (arr, kind, "pallet" if nz > 1 else "shelf"),
                              "%s: implementation entry (%d,%d) = %s but geometric neighbours give %s" % (
                                  key, i, j, Mr[i, j] if j >= 0 else Er[i], exp[i, j] if j >= 0 else expE[i]),
                              dict(arrangement=arr, shape=shape, i=i, j=j,
                                   impl=float(Mr[i, j]) if j >= 0 else float(Er[i]),
                                   expected=int(exp[i, j]) if j >= 0 else int(expE[i])))
            rows = range(N) if N <= 256 else sorted(rng.sample(range(N), 40))
            rtxt = []
            for i in rows:
                nzs = [(int(j), int(Mr[i, j])) for j in np.nonzero(Mr[i])[0]]
                rtxt.append("(%s, %s, %s)" % (zlit(i), coq_list("(%s,%s)" % (zlit(j), zlit(v)) for j, v in nzs), zlit(int(Er[i]))))
            cases.append((key, "(%s, %s, %s, %s, %s)" % (ARR[arr], zlit(nx), zlit(ny), zlit(nz), coq_list(rtxt))))
    # ---- re-shaped objects: the matrices must follow N_vials through any history of the object ----
    sf = impl.snowflake_mod()
    nseq = 6 if tier == "quick" else 40
    other = {"square": "hexagonal", "hexagonal": "square"}
    FIXED = [[("H_int",), ("configPath",), ("H_int",)], [("group",), ("configPath",), ("H_ext",)], [("group",), ("configPath",), ("H_int",), ("configPath",), ("H_int",)],
             [("H_ext",), ("shape", (3, 2, 2)), ("configPath",), ("H_ext",)],
             # same vial count, other geometry, then a step that touches only the shelf vector before the matrices are read again
             [("H_int",), ("shape", (9, 1, 1)), ("H_shelf",), ("H_int",)], [("H_ext",), ("shape", (1, 9, 1)), ("seed",), ("H_ext",)],
             [("H_int",), ("shape", (1, 3, 3)), ("seed",), ("H_shelf",), ("H_int",)]]
    for arr0 in ("square", "hexagonal"):
        for s_i in range(nseq + len(FIXED)):
            hist = []
            arr = arr0
            fixed = FIXED[s_i - nseq] if s_i >= nseq else None
            try:
                with impl.quiet():
                    S = sf.Snowflake(k=dict(K), N_vials=(rng.randint(1, 4), rng.randint(1, 4), rng.randint(1, 3)) if fixed is None else (3, 3, 1),
                                     configPath=impl.arrangement_cfg(arr))
                    for step in range(8 if fixed is None else len(fixed)):
                        op = rng.choice(["shape", "shape", "seed", "H_shelf", "H_int", "H_ext", "configPath", "group"]) if fixed is None else fixed[step][0]
                        if op == "shape":
                            # same or different vial count, different geometry
                            shp = (rng.randint(1, 4), rng.randint(1, 4), rng.randint(1, 3)) if fixed is None else fixed[step][1]
                            S.N_vials = shp
                            hist.append(["N_vials", shp])
                        elif op == "seed":
                            S.seed = rng.randint(0, 99); hist.append(["seed"])
                        elif op == "H_shelf":
                            _ = S.H_shelf; hist.append(["H_shelf"])
                        elif op == "configPath":
                            # the arrangement re-declared on the same object through the public setter
                            arr = other[arr]
                            S.configPath = impl.arrangement_cfg(arr); hist.append(["configPath", arr])
                        elif op == "group":
                            _ = S.getVialGroup("edge"); hist.append(["getVialGroup"])
                        else:
                            nx, ny, nz = S.N_vials
                            Aarea = S.const["A"]
                            H = S.H_int.toarray() / (K["int"] * Aarea)
                            E = np.asarray(S.H_ext, dtype=float) / (K["ext"] * Aarea)
                            hist.append([op])
                            G = geometric(arr, nx, ny, nz)
                            maxI = (4 if arr == "square" else 6) + (2 if nz > 1 else 0)
                            rep.case("hist %s %s" % (arr0, hist), nontrivial=len(hist) > 1)
                            rep.count("history-steps")
                            if H.shape != G.shape or (np.rint(H) != G - np.diag(G.sum(axis=1))).any() or (np.rint(E) != maxI - G.sum(axis=1)).any():
                                redecl = any(h[0] == "configPath" for h in hist)
                                rep.violation("stale-matrices-after-configPath" if redecl else "stale-matrices-after-reshape",
                                              "object built as %s, after history %s: H_int/H_ext are not those of its current shape %s in its declared arrangement '%s'" % (arr0, hist, (nx, ny, nz), arr),
                                              dict(arrangement=arr0, history=hist, shape=(nx, ny, nz), declared=arr))
                                raise StopIteration
            except StopIteration:
                pass
            except Exception as e:
                rep.violation("reshape-crash %s" % type(e).__name__, "%s object, history %s raises %r" % (arr0, hist, e),
                              dict(arrangement=arr0, history=hist, error=repr(e)))
    # ---- process history: the declared arrangement of an object is the one of ITS configuration (defaults + its own file), whatever
    #      other objects were built before it in the same process ----
    decl_default = impl.expected_config(None)["snowfall_parameters"]["vial_arrangement"]
    for prev, this_cfg, this_arr in (("hexagonal", None, decl_default), ("hexagonal", {"vial": {"geometry": {"height": 0.012}}}, decl_default),
                                     ("square", None, decl_default), ("hexagonal", {"snowfall_parameters": {"vial_arrangement": "square"}}, "square")):
        try:
            with impl.quiet():
                S0 = sf.Snowflake(k=dict(K), N_vials=(3, 3, 1), configPath=impl.arrangement_cfg(prev)); _ = S0.H_int
                S1 = sf.Snowflake(k=dict(K), N_vials=(3, 4, 2), configPath=impl.cfg_path(this_cfg)); H = S1.H_int.toarray() / (K["int"] * S1.const["A"])
            G = geometric(this_arr, 3, 4, 2)
            rep.case("process history %s then %s" % (prev, this_cfg), nontrivial=True); rep.count("process-history")
            if (np.rint(H) != G - np.diag(G.sum(axis=1))).any():
                rep.violation("arrangement-leaks-between-objects", "after an object with a %s configuration was built, an object whose configuration (%r over the defaults) declares '%s' "
                              "gets the couplings of another arrangement" % (prev, this_cfg, this_arr), dict(history=[prev, this_cfg], declared=this_arr))
        except Exception as e:
            rep.violation("reshape-crash %s" % type(e).__name__, "process history %s then %r raises %r" % (prev, this_cfg, e), dict(history=[prev, this_cfg], error=repr(e)))
    # correspondence with the Coq model
    CH = 60
    chunks = [cases[i:i + CH] for i in range(0, len(cases), CH)]
    bad_keys = []
    for ci, ch in enumerate(chunks):
        body = ("From Coq Require Import ZArith List. Import ListNotations.\nFrom Snow Require Import Topology.\nOpen Scope Z_scope.\n"
                "Definition cases := %s.\nEval vm_compute in bad_cases case_ok cases.\n" % coq_list(c for _, c in ch))
        rc, out = common.coq_eval("c09_%d" % ci, body, timeout=900)
        blocks = common.eval_blocks(out)
        if rc != 0 or len(blocks) != 1:
            rep.violation("correspondence-run", "Coq evaluation of the topology model failed: " + out[-400:],
                          dict(chunk=ci, log=out[-2000:]), found_input=False)
            continue
        for b in common.parse_nat_list(blocks[0]):
            bad_keys.append(ch[b][0])
    rep.coverage["traces_validated_against_impl"] = len(cases) - len(bad_keys)
    for k in bad_keys:
        # model and implementation disagree.  If the geometric oracle flagged the same shape the failing
        # input is already reported; otherwise the correspondence is broken without a failing input.
        if k not in flagged:
            rep.violation("model-vs-impl " + k.split()[0],
                          "correspondence model/Topology.v <-> snowflake.py no longer checks on %s "
                          "(the geometric oracle accepts the implementation there)" % k,
                          dict(correspondence="model/Topology.v vs Snowflake.H_int/H_ext", case=k), found_input=False)
    if not ok:
        rep.violation("proof-broken", "proof obligations of C09 do not check: " + msg, dict(theorem="props/C09.v", log=msg),
                      found_input=False)
    rep.coverage["exhaustive"] = True
    rep.coverage["explanation"] = "exhaustive over the shape box %s for both arrangements" % (
        "1..6 x 1..6 x 1..3" if tier == "quick" else "1..8 x 1..8 x 1..4 plus 60 random shapes up to 40x40x6 (<= 1600 vials, 40 sampled rows each)")
