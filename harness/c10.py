"""C10  Controlled nucleation fires once, at the end of the chosen hold."""
import math
import random

import numpy as np

import common
import oracle_sim
import impl
import c01
import c03
import c05
import c09
import flake_runs as fr
import gen_opcond
from common import fhex, zlit, coq_list

HEAD = ("From Coq Require Import ZArith List PrimFloat. Import ListNotations.\nFrom Snow Require Import Topology OpCondF.\n"
        "Definition cases := %s.\nEval vm_compute in bad_cases c10_cnt_ok cases.\n")


def cont_trigger(p, cn):
    """continuous program: the last moment at which the shelf is still >= cn (end of the hold at cn, or the ramp crossing)"""
    P, pts = gen_opcond.continuous(p)
    last = 0.0
    for (t0, T0), (t1, T1) in zip(pts, pts[1:]):
        if T0 < cn:
            break
        if T1 >= cn:
            last = t1 if math.isfinite(t1) else p["t_tot"]
        else:
            last = t0 + (T0 - cn) / p["rate"]
            break
    return min(last, p["t_tot"])


def check(rep, tier):
    rng = random.Random(rep.seed)
    oc = impl.opcond_mod()
    ok, msg = common.proof_stage(rep, "C10", ["theories/model/OpCondF.vo"])
    ncnt = 400 if tier == "quick" else 6000
    npairs = 14 if tier == "quick" else 160
    rep.rule = ("(a) random cooling programs with cnTemp between end and start (often exactly a hold temperature): OperatingConditions.cnt vs the binary64 Coq model "
                "and vs the continuous program's end-of-hold / ramp-crossing time (tolerance 1 s per program segment); (b) pairs of Snowflake runs with and without "
                "cnTemp, same seeds: bit-identical stored columns up to the trigger step, every liquid supercooled vial iced in the next column, t_nucleation of those "
                "= trigger step; (c) scripted-dice lockstep runs with cnTemp (no vial forced at any other step); non-trivial = the program has a hold at cnTemp or the pair nucleates vials at the trigger")
    rep.trusted = ["Coq 8.16.1 kernel + vm_compute", "binary64 instance of model/OpCond.v", "harness/c10.py + oracle_sim.py"]
    cases, progs = [], []
    for _ in range(ncnt):
        p = gen_opcond.gen_program(rng)
        temps = [h["temp"] for h in p["holds"]]
        cn = rng.choice(temps) if temps and rng.random() < 0.6 else round(rng.uniform(p["end"], p["start"]), rng.choice([0, 1, 2]))
        cn = min(max(cn, p["end"]), p["start"])
        if p["t_tot"] > 6000:
            continue
        try:
            op = gen_opcond.build(p, oc, cnTemp=cn)
            c_impl = int(op.cnt)
        except Exception as e:
            rep.violation("crash %s" % type(e).__name__, "cnt raises %r for %s cn=%r" % (e, p, cn), dict(program=p, cnTemp=cn))
            continue
        if rng.random() < 0.3 and p["holds"]:
            # the trigger time is a function of the CURRENT program: edit the program on the same object and ask again
            p2 = dict(p, holds=[dict(h, duration=h["duration"] + rng.choice([60, 300, 7])) for h in p["holds"]])
            try:
                if rng.random() < 0.5 and isinstance(op.holding, list) and len(op.holding) == len(p2["holds"]):
                    # edited IN PLACE (no setter is involved): op.holding is sorted by descending temperature, as tempProfile sorts it
                    srt = sorted(p2["holds"], key=lambda h: -h["temp"])
                    if [h["temp"] for h in op.holding] == [h["temp"] for h in sorted(p["holds"], key=lambda h: -h["temp"])]:
                        for hh, h2 in zip(op.holding, srt):
                            hh["duration"] = h2["duration"]
                    else:
                        op.holding = [dict(h) for h in p2["holds"]]
                    rep.count("edited-in-place")
                else:
                    op.holding = [dict(h) for h in p2["holds"]]
                c_edit = int(op.cnt)
                c_fresh = int(gen_opcond.build(p2, oc, cnTemp=cn).cnt)
                if c_edit != c_fresh:
                    rep.violation("stale-trigger-after-edit", "after lengthening the holds on the same object cnt stays %d, a fresh object with the edited program gives %d (%s, cnTemp=%r)"
                                  % (c_edit, c_fresh, p2, cn), dict(program=p, edited=p2, cnTemp=cn, history=["cnt", "holding = ...", "cnt"]))
            except Exception as e:
                rep.violation("crash-after-edit %s" % type(e).__name__, "editing the program raises %r" % e, dict(program=p2))
            rep.count("edited-programs")
        rep.case(repr((sorted(p.items(), key=str), cn)), nontrivial=cn in temps)
        rep.count("cn-at-hold" if cn in temps else "cn-on-ramp")
        # oracle: the trigger is the end of the hold at cnTemp / the ramp crossing, within one second per program segment
        want = cont_trigger(p, cn)
        nseg = 2 * len(p["holds"]) + 1
        distinct = len(set(temps)) == len(temps)
        if distinct and abs(c_impl - want) > nseg + 1e-6 and not c05.near_tie(dict(p, dt=1.0)):
            rep.violation("trigger-time", "cnt = %d s but the shelf is last at or above cnTemp=%r at t=%r s (tolerance %d s) for %s" % (c_impl, cn, want, nseg, p),
                          dict(program=p, cnTemp=cn, cnt=c_impl, expected=want))
        hs = coq_list("(%s, %s)" % (fhex(h["temp"]), fhex(h["duration"])) for h in p["holds"])
        cases.append("(%s, %s, %s, %s, %s, %s, %s)" % (fhex(p["start"]), fhex(p["end"]), fhex(p["rate"]), fhex(p["t_tot"]), hs, fhex(cn), zlit(c_impl)))
        progs.append((p, cn))
    # long programs (pallet-scale, days): the trigger is still the second at which the shelf is last at or above cnTemp (oracle only; the
    # 1 s profile has a few 1e5 samples)
    for (tt, hold_d, hold_T, cn_) in ([(240000.0, 3601.0, -5.0, -5.0), (240000.0, 3601.0, -5.0, -8.0)] if tier == "quick" else
                                       [(240000.0, 3601.0, -5.0, -5.0), (240000.0, 3601.0, -5.0, -8.0), (90000.0, 12345.0, -10.0, -10.0), (500000.0, 7.0, -3.0, -20.0)]):
        pL = dict(start=20, end=-50, rate=0.5 / 60, holds=[{"duration": hold_d, "temp": hold_T}], t_tot=tt, dt=2.0)
        try:
            cL = int(gen_opcond.build(pL, oc, cnTemp=cn_).cnt)
            wantL = cont_trigger(pL, cn_)
            rep.case(("long-program", tt, hold_d, cn_), True); rep.count("long-programs")
            if abs(cL - wantL) > 3 + 1e-6:
                rep.violation("trigger-time long program", "cnt = %d s but the shelf is last at or above cnTemp=%r at t=%r s (tolerance 3 s) for %s" % (cL, cn_, wantL, pL), dict(program=pL, cnTemp=cn_, cnt=cL, expected=wantL))
        except Exception as e:
            rep.violation("crash %s" % type(e).__name__, "cnt raises %r for %s cn=%r" % (e, pL, cn_), dict(program=pL, cnTemp=cn_))
    bad = []
    for ci in range(0, len(cases), 100):
        rc, out = common.coq_eval("c10_%d" % ci, HEAD % coq_list(cases[ci:ci + 100]), timeout=900)
        blocks = common.eval_blocks(out)
        if rc != 0 or len(blocks) != 1:
            rep.violation("correspondence-run", "Coq evaluation of cnt failed: " + out[-400:], dict(log=out[-2000:]), found_input=False)
            continue
        bad += [progs[ci + b] for b in common.parse_nat_list(blocks[0])]
    rep.coverage["traces_validated_against_impl"] = len(cases) - len(bad)
    flagged = [(v["replay"].get("program"), v["replay"].get("cnTemp")) for v in rep.violations]
    for (p, cn) in bad[:3]:
        if (p, cn) not in flagged:
            rep.violation("model-vs-impl cnt", "correspondence model/OpCond.v cnt <-> OperatingConditions.cnt no longer checks on %s cnTemp=%r" % (p, cn),
                          dict(correspondence="model/OpCond.v cnt", program=p, cnTemp=cn), found_input=False)
    # ---- (b) run pairs -------------------------------------------------------------------------------------
    for ri in range(npairs):
        cfg = fr.gen_config(rng, max_vials=20 if tier == "quick" else 60, max_steps=600, cn=True)
        plain = dict(cfg, cnTemp=None)
        try:
            a, b = fr.run(cfg), fr.run(plain)
        except Exception as e:
            rep.violation("crash %s" % type(e).__name__, "run raises %r for %s" % (e, cfg), dict(config=cfg, error=repr(e)))
            continue
        S, n, dt = a["S"], a["nsteps"], a["S"].dt
        cnt = int(S.opcond.cnt)
        ks = np.nonzero(np.arange(n) * dt >= cnt)[0]
        kcn = int(ks[0]) if len(ks) else None
        rep.count("pairs")
        if kcn is None:
            rep.count("trigger-after-process"); continue
        same = (a["XT"][:, : kcn + 1] == b["XT"][:, : kcn + 1]).all() and (a["XS"][:, : kcn + 1] == b["XS"][:, : kcn + 1]).all()
        if not same:
            k0 = int(np.argmax(((a["XT"] != b["XT"]) | (a["XS"] != b["XS"])).any(axis=0)))
            rep.violation("prefix-differs", "with cnTemp=%r the run differs from the run without controlled nucleation already in column %d <= trigger step %d (%s)"
                          % (cfg["cnTemp"], k0, kcn, cfg["shape"]), dict(config=cfg, column=k0, k_CN=kcn))
            continue
        if kcn < n - 1:
            G = c09.geometric(cfg["arr"], *cfg["shape"])
            T2, s2, q = c01.numpy_step(S, G, a["hshelf"], a["shelf"][kcn], a["XT"][:, kcn], a["XS"][:, kcn], np.zeros(a["N"], bool))
            cand = (a["XS"][:, kcn] == 0) & (T2 < S.const["T_eq_l"])
            iced_next = a["XS"][:, kcn + 1] != 0
            newly = (a["XS"][:, kcn] == 0) & iced_next
            rep.case("pair %d" % ri, nontrivial=bool(cand.any()), sample=dict(shape=cfg["shape"], cnTemp=cfg["cnTemp"], k_CN=kcn, fired=int(cand.sum())) if ri < 4 else None)
            if (cand & ~iced_next).any() or (newly & ~cand).any():
                i = int(np.argmax((cand & ~iced_next) | (newly & ~cand)))
                rep.violation("trigger-step-set", "at trigger step %d vial %d: liquid&supercooled=%s but iced in the next column=%s (%s, cnTemp=%r)" % (
                    kcn, i, bool(cand[i]), bool(iced_next[i]), cfg["shape"], cfg["cnTemp"]), dict(config=cfg, k_CN=kcn, vial=i))
            tn = a["stats"]["t_nucleation"]
            if cand.any() and not np.allclose(tn[cand], kcn * dt + dt):
                rep.violation("trigger-step-time", "vials fired by controlled nucleation report t_nucleation %s, trigger step time is %r" % (tn[cand][:4], kcn * dt + dt), dict(config=cfg, k_CN=kcn))
    # ---- (c) lockstep with scripted dice and cnTemp: nothing is forced at any other step ---------------------
    # fixed corpus first (independent of the seed): a hold at the trigger temperature in the middle of the process, so that the trigger fires in
    # every run of the object (ri = 0 is re-run on the same object below)
    fixedc = dict(arr="square", shape=(3, 3, 1), k={"int": 20, "ext": 20, "s0": 50, "s_sigma_rel": 0}, dt=10.0, T_init=None,
                  over={"snowfall_parameters": {"vial_arrangement": "square"}}, initIce="indirect", seed=5, seed_v=6,
                  prog=dict(start=5, end=-40, rate=1.0 / 60, holds=[{"duration": 1200, "temp": -8}], t_tot=5000.0, dt=10.0), cnTemp=-8, thr=0.9)
    # second fixed corpus: the hold at the trigger temperature lasts until the END of the process (t_tot = ramp + hold exactly): the trigger is the
    # last grid step, and it still forces every supercooled vial
    fixedl = dict(fixedc, seed=8, seed_v=9, no_spontaneous=True, prog=dict(start=5, end=-40, rate=1.0 / 60, holds=[{"duration": 3600, "temp": -8}], t_tot=(5 + 8) * 60.0 + 3600.0, dt=10.0))
    for ri in range(6 if tier == "quick" else 60):
        cfg = dict(fixedc) if ri == 0 else (dict(fixedl) if ri == 1 else fr.gen_config(rng, max_vials=16, max_steps=500, cn=True))
        try:
            S, L = c03.lockstep_run(rep, cfg, rng)
        except Exception as e:
            rep.violation("crash %s" % type(e).__name__, "scripted run raises %r for %s" % (e, cfg), dict(config=cfg, error=repr(e)))
            continue
        rep.case("lockstep %d" % ri, nontrivial=True)
        c03.compare(rep, cfg, S, L)
        if ri % 2 == 0:
            # the same object run again (same program, other seed): controlled nucleation fires once in THIS run too
            cfg2 = dict(cfg, seed=cfg["seed"] + 3)
            try:
                with impl.quiet():
                    S.seed = cfg2["seed"]
                    L2 = oracle_sim.Lockstep(cfg2, S, None, rng)
                    wrap2 = lambda g: fr.ScriptedRng(g, L2.script)
                    S._rng = wrap2(S._rng)
                    with fr.patched_rng(wrap2):
                        S.run()
                L2.finish()
                nv = len(rep.violations)
                rep.case("lockstep %d rerun" % ri, nontrivial=True); rep.count("rerun-same-object")
                c03.compare(rep, cfg2, S, L2)
                for v in rep.violations[nv:]:
                    v["key"] = "rerun " + v["key"]; v["what"] = "second run() of the same object with controlled nucleation: " + v["what"]
            except Exception as e:
                rep.violation("crash %s" % type(e).__name__, "second scripted run raises %r for %s" % (e, cfg), dict(config=cfg, error=repr(e)))
    if not ok:
        rep.violation("proof-broken", "proof obligations of C10 do not check: " + msg, dict(theorem="props/C10.v", log=msg), found_input=False)
