#!/bin/sh
# Builds the whole Coq development from files on disk (offline).  Idempotent.
set -e
cd "$(dirname "$0")"
/venv/bin/python - <<'PY'
import sys
sys.path.insert(0, "harness")
import common
try:
    import translator
    translator.regenerate()
except ImportError:
    pass
ok, log = common.coq_make([], timeout=3000)
print(log[-3000:])
sys.exit(0 if ok else 1)
PY
